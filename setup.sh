#!/bin/sh
# Build the overlay venv (offline) used by every check. Idempotent.
set -e
cd "$(dirname "$0")"
if [ ! -x .venv/bin/python ] || ! .venv/bin/python -c "import z3, jsonschema, rtflite" 2>/dev/null; then
  rm -rf .venv
  /venv/bin/python -m venv .venv
  PIP_NO_INDEX=1 .venv/bin/pip install -q --no-index --find-links /opt/veriftools/wheels \
      z3-solver cvc5 jsonschema crosshair-tool deal icontract hypothesis
  echo "import site; site.addsitedir('/venv/lib/python3.12/site-packages')" \
      > .venv/lib/python3.12/site-packages/_repo_overlay.pth
fi
.venv/bin/python -c "import z3, jsonschema, rtflite, polars; print('setup ok: z3', z3.get_version_string(), 'rtflite', rtflite.__file__)"
