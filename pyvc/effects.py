"""`with` statements and the ghost effect trace (DESIGN 1.6): only modelled context managers."""
from __future__ import annotations

from .state import Outcome, OutOfSubset


def exec_with(I, st, s):
    h = I.ctx.lib_with(I, st, s)
    if h is NotImplemented:
        raise OutOfSubset(f"with statement at line {s.lineno} (no model for the context manager)")
    return h
