"""Contracts and the per-unit verification context.

A *unit* is one function of the target tree under a sidecar contract (class `Contract`) or a lemma
(`Lemma`).  `verify_unit` interprets the real AST and returns the obligations.
"""
from __future__ import annotations

import ast
import builtins
import inspect
import time
import traceback

import z3

from .interp import Interp, LoopSpec, LoopView
from .repoindex import RepoIndex
from .state import ContractError, Obligation, Outcome, OutOfSubset, State
from .values import (AXIOMS, INTERN, BoundMethod, ClassVal, DictObj, FuncVal, ListObj, ModuleVal, Opt, RecObj, Ref, Rope, SetObj,
                     StrSort, Unknown, fresh_name, is_strterm, lit, to_z3)

NI = NotImplemented


class Contract:
    """Base class of sidecar contracts.  Subclasses set `target` ('pagination/core.py::Class.func') and override:

    setup(c)            create symbolic parameters: c.param(name, desc) / c.bind(name, value); c.requires(name, formula)
    loops               dict ordinal -> LoopSpec (ordinal counts for/while/comprehensions in source order)
    ensures(c, out)     dict clause -> formula for a normal return (out.value, out.state)
    raises              dict exception class name -> callable(c, out) -> dict clause -> formula  (allowed exceptions)
    handlers            dict call source text -> handler(I, st, args, kwargs, node)
    summaries           dict callee qualname -> handler (modular use of another unit's contract)
    ghost_after         list of (statement source, fn(I, st))
    models              list of library model objects (hooks lib_*)
    """
    target: str = ""
    serves: list = []
    loops: dict = {}
    raises: dict = {}
    handlers: dict = {}
    summaries: dict = {}
    ghost_after: list = []
    models: list = []
    merge_ifs = False
    merge_calls = ()       # names of (nested / module) functions: `x = f(...)` joins the normal outcomes of the inlined call into one state (ite values)
    max_paths = 4000
    frame = "off"            # 'strict': every store into a non-fresh object must be allowed by `modifies`
    modifies: list = []
    variants: list = [None]  # each variant runs setup(c) with c.variant set (case splits on input shape)
    inline_only: set | None = None
    expect_obligations: int | None = None

    def setup(self, c):
        raise NotImplementedError

    def ensures(self, c, out):
        return {}

    def name(self):
        return type(self).__name__


class VerifyCtx:
    def __init__(self, index: RepoIndex, contract: Contract, variant=None):
        self.index = index
        self.contract = contract
        self.variant = variant
        relpath, qual = contract.target.split("::")
        self.modname = index.modname_of_relpath(relpath)
        self.qualname = qual
        self.fn = index.find_function(self.modname, qual)
        self.unit = f"{relpath}::{qual}" + (f"[{variant}]" if variant is not None else "")
        self.obligations: list[Obligation] = []
        self.trivial = 0
        self.mute = 0
        self.notes: list[str] = []
        self._dropped: dict[str, int] = {}
        self.node_counts: dict[str, int] = {}
        self.covers: dict = {}
        self.requires_list: list = []
        self.ghost_after = list(contract.ghost_after)
        self.ghost_hits: dict = {}
        self.merge_ifs = contract.merge_ifs
        self.merge_calls = set(getattr(contract, 'merge_calls', ()) or ())
        self.max_paths = contract.max_paths
        self.models = list(contract.models)
        self.inlined: dict = {}
        self.func_stack: list = []
        self._loop_ord: dict = {}
        self._loop_ord_fn: dict = {}
        self.loops_seen: set = set()
        self.state0: State | None = None
        self.params: dict = {}
        self.assumed: list[str] = []         # assumed (library) contracts used
        self.used_summaries: set = set()
        self._number_loops(self.fn, None)

    # ---- evidence bookkeeping
    def note(self, msg):
        if msg not in self.notes:
            self.notes.append(msg)

    def dropped(self, what):
        self._dropped[what] = self._dropped.get(what, 0) + 1

    def count_node(self, n):
        k = type(n).__name__
        self.node_counts[k] = self.node_counts.get(k, 0) + 1

    def cover(self, key, branch):
        self.covers.setdefault(key, set()).add(branch)

    def assume_lib(self, what):
        if what not in self.assumed:
            self.assumed.append(what)

    # ---- loops
    def _number_loops(self, fn, qual):
        order = []

        def visit(n):
            for ch in ast.iter_child_nodes(n):
                if isinstance(ch, (ast.FunctionDef, ast.Lambda)) and ch is not fn:
                    # nested functions are numbered within the enclosing function (source order)
                    pass
                if isinstance(ch, (ast.For, ast.While, ast.ListComp, ast.SetComp, ast.DictComp, ast.GeneratorExp)):
                    order.append(ch)
                visit(ch)
        visit(fn)
        order.sort(key=lambda n: (n.lineno, n.col_offset))
        for i, n in enumerate(order):
            self._loop_ord[id(n)] = (qual, i) if qual else i
        self._loop_ord_fn[id(fn)] = True

    def loop_ordinal(self, node):
        k = self._loop_ord.get(id(node))
        if k is None:
            # node of an inlined callee or synthesized loop
            return self._loop_ord.get(id(getattr(node, "_origin", None)), ("?", getattr(node, "lineno", 0)))
        self.loops_seen.add(k)
        return k

    def loop_spec(self, k):
        spec = self.contract.loops.get(k)
        if spec is None and isinstance(k, tuple):
            spec = self.contract.loops.get(f"{k[0]}#{k[1]}")
        return spec

    def push_func(self, fv):
        self.func_stack.append(fv)
        if fv.qualname and id(fv.node) not in self._loop_ord_fn:
            self._number_loops(fv.node, fv.qualname)

    def pop_func(self):
        self.func_stack.pop()

    def note_inlined(self, fv):
        if fv.qualname and fv.qualname not in self.inlined and fv.module in self.index.modules:
            self.inlined[fv.qualname] = self.index.func_info(fv.module, fv.qualname, fv.node)

    # ---- contract lookups
    def call_handler(self, fsrc):
        return self.contract.handlers.get(fsrc)

    def summary_for(self, qualname):
        h = self.contract.summaries.get(qualname)
        if h is not None:
            self.used_summaries.add(qualname)
        return h

    def constructor_handler(self, cv):
        return self.contract.handlers.get("new:" + cv.name)

    def exc_class(self, name):
        if hasattr(builtins, name):
            return getattr(builtins, name)
        if name == "ValidationError":
            import pydantic
            return pydantic.ValidationError
        if name == "ColorValidationError":
            return self.index.real_module("rtflite.services.color_service").ColorValidationError
        raise OutOfSubset(f"unknown exception class {name}")

    def contract_allows(self, exc):
        for nm in self.contract.raises:
            if issubclass(exc, self.exc_class(nm)):
                return True
        return False

    def havoc_ghost(self, state, g, tag):
        cur = state.ghost[g]
        if z3.is_expr(cur):
            return z3.Const(fresh_name(f"{g}@{tag}"), cur.sort())
        raise ContractError(f"cannot havoc ghost {g}")

    # ---- frames
    def frame_store(self, I, st, ref, node, what=None):
        if self.contract.frame != "strict" or not isinstance(ref, Ref):
            return
        o = st.obj(ref)
        if getattr(o, "fresh", True):
            return
        site = getattr(node, "lineno", None)
        for allow in self.contract.modifies:
            if allow(I, st, ref, o, what):
                return
        fn = self.func_stack[-1].qualname if self.func_stack else self.qualname
        desc = f"{getattr(o, 'cls', o.kind)}.{what}" if what else getattr(o, "cls", o.kind)
        I.oblige(st, f"frame.{fn}.{desc}@L{site}", False, "frame", site,
                 {"store": desc, "origin": getattr(o, "origin", None), "function": fn})

    # ---- library hooks (dispatch to models)
    def _hook(self, name, *a):
        for m in self.models:
            f = getattr(m, name, None)
            if f is not None:
                r = f(*a)
                if r is not NI:
                    return r
        return NI

    def lib_get_item(self, *a): return self._hook("get_item", *a)
    def lib_set_item(self, *a): return self._hook("set_item", *a)
    def lib_contains(self, *a): return self._hook("contains", *a)
    def lib_iter(self, *a): return self._hook("iter", *a)
    def lib_sym_iter(self, *a): return self._hook("sym_iter", *a)
    def lib_get_attr(self, *a): return self._hook("get_attr", *a)
    def lib_set_attr(self, *a): return self._hook("set_attr", *a)
    def lib_call_method(self, *a): return self._hook("call_method", *a)
    def lib_len(self, *a): return self._hook("len", *a)
    def lib_isinstance(self, *a): return self._hook("isinstance", *a)
    def lib_hasattr(self, *a): return self._hook("hasattr", *a)
    def lib_with(self, *a): return self._hook("with_stmt", *a)

    def _need(self, name, *a):
        r = self._hook(name, *a)
        if r is NI:
            raise OutOfSubset(f"no library model for {name}")
        return r

    def lib_sorted(self, *a): return self._need("sorted", *a)
    def lib_list_index(self, *a): return self._need("list_index", *a)
    def lib_list_sort(self, *a): return self._need("list_sort", *a)
    def lib_join_sym(self, *a): return self._need("join_sym", *a)
    def lib_str_method(self, *a): return self._need("str_method", *a)
    def lib_int_of_str(self, *a): return self._need("int_of_str", *a)
    def lib_ord(self, *a): return self._need("ord", *a)
    def lib_open(self, *a): return self._need("open", *a)
    def type_of(self, *a): return self._need("type_of", *a)
    def bytes_literal(self, *a): return self._need("bytes_literal", *a)

    def opaque_str(self, st, what):
        return z3.Const(fresh_name("str." + what), StrSort)

    def key_name(self, st, term):
        """If `term` is (provably syntactically) a literal constant, its Python string."""
        t = z3.simplify(term)
        return INTERN.name_of(t)

    def prefix_sum(self, I, st, n, getter, start):
        """sum() over a symbolic sequence: ghost prefix-sum function with its defining axioms (assumed facts
        about `sum`; the axioms are the mathematical definition)."""
        j = z3.Int(fresh_name("ps"))
        sample = getter(j)
        sort = sample.sort() if z3.is_expr(sample) else z3.IntSort()
        P = z3.Function(fresh_name("psum"), z3.IntSort(), sort)
        zero = z3.RealVal(0) if sort == z3.RealSort() else z3.IntVal(0)
        st.assume(P(0) == zero)
        st.assume(z3.ForAll([j], z3.Implies(z3.And(j >= 0, j < n), P(j + 1) == P(j) + getter(j))))
        st.ghost.setdefault("__psums__", []).append((P, n, getter))
        from . import ops
        return ops.arith("+", start, P(n)) if not (isinstance(start, int) and start == 0) else P(n)

    # ---- globals
    def abs_module(self, cur_mod, module, level):
        if not level:
            return module
        parts = cur_mod.split(".")
        is_pkg = self.index.files.get(cur_mod, "").endswith("__init__.py")
        base = parts if is_pkg else parts[:-1]
        if level > 1:
            base = base[: len(base) - (level - 1)]
        return ".".join(base + ([module] if module else []))

    def import_name(self, module, attr):
        try:
            m = self.index.real_module(module) if module.startswith("rtflite") else __import__(module, fromlist=["_"])
        except ImportError as e:
            raise OutOfSubset(f"cannot import {module}: {e}")
        if attr is None:
            return ModuleVal(module)
        if not hasattr(m, attr):
            try:
                sub = self.index.real_module(f"{module}.{attr}") if module.startswith("rtflite") else __import__(f"{module}.{attr}", fromlist=["_"])
                return ModuleVal(f"{module}.{attr}")
            except ImportError:
                raise OutOfSubset(f"{module} has no attribute {attr}")
        return self.convert_global(self.state0, getattr(m, attr), f"{module}.{attr}")

    def resolve_global(self, st, modname, name):
        if modname in self.index.modules or modname.startswith("rtflite"):
            m = self.index.real_module(modname)
            if hasattr(m, name):
                return self.convert_global(st, getattr(m, name), f"{modname}.{name}")
        if hasattr(builtins, name):
            obj = getattr(builtins, name)
            if isinstance(obj, type):
                return ClassVal(name, obj)
        raise KeyError(name)

    def func_from_real(self, f, self_val):
        modname = getattr(f, "__module__", None)
        qual = getattr(f, "__qualname__", None)
        if modname in self.index.modules and qual and "<locals>" not in qual:
            try:
                node = self.index.find_function(modname, qual, getattr(getattr(f, "__code__", None), "co_firstlineno", None))
            except KeyError:
                raise OutOfSubset(f"cannot locate source of {modname}.{qual}")
            return FuncVal(node, env=None, self_val=self_val, qualname=qual, module=modname)
        raise OutOfSubset(f"function {modname}.{qual} is outside the target tree (needs a library model)")

    def convert_global(self, st, obj, what, fresh=False):
        """Real Python object (constant table, class, function, singleton) -> executor value."""
        from fractions import Fraction
        from collections.abc import Mapping
        st = st or self.state0
        if obj is None or isinstance(obj, (bool, int, str)):
            return obj
        if isinstance(obj, float):
            return Fraction(obj).limit_denominator(10 ** 12)
        if isinstance(obj, type):
            return ClassVal(obj.__name__, obj)
        if inspect.isfunction(obj):
            return self.func_from_real(obj, None)
        if inspect.ismethod(obj):
            recv = self.convert_global(st, obj.__self__, what + ".__self__")
            return self.func_from_real(obj.__func__, recv)
        if inspect.ismodule(obj):
            return ModuleVal(obj.__name__)
        if isinstance(obj, tuple):
            return tuple(self.convert_global(st, x, what) for x in obj)
        if isinstance(obj, (list,)):
            if len(obj) > 64:
                return Unknown(what + " (large list)")
            return st.alloc(ListObj(items=[self.convert_global(st, x, what) for x in obj], fresh=fresh))
        if isinstance(obj, (set, frozenset)):
            return st.alloc(SetObj(items=[self.convert_global(st, x, what) for x in sorted(obj, key=repr)], fresh=fresh))
        if isinstance(obj, Mapping):
            if len(obj) > 64:
                r = self._hook("big_table", self, st, obj, what)
                if r is not NI:
                    return r
            return st.alloc(DictObj(items={k: self.convert_global(st, v, what) for k, v in obj.items()}, fresh=fresh))
        if isinstance(obj, bytes):
            return self.bytes_literal(st, obj)
        cls = type(obj)
        if getattr(cls, "__module__", "").startswith("rtflite"):
            cache = st.ghost.setdefault("__singletons__", {})
            if id(obj) in cache:
                return cache[id(obj)]
            r = self._hook("singleton", self, st, obj, what)
            if r is NI:
                fields = {}
                src = getattr(obj, "__dict__", {})
                rec = RecObj(cls.__name__, {}, pyclass=cls, fresh=False, origin="GLOBAL")
                ref = st.alloc(rec)
                cache[id(obj)] = ref
                for k, v in src.items():
                    try:
                        rec.fields[k] = self.convert_global(st, v, f"{what}.{k}")
                    except OutOfSubset:
                        rec.fields[k] = Unknown(f"{what}.{k}")
                return ref
            cache[id(obj)] = r
            return r
        r = self._hook("convert", self, st, obj, what)
        if r is not NI:
            return r
        return Unknown(what)


class Cx:
    """What `Contract.setup` / `ensures` receive: helpers to create parameters and state requirements."""

    def __init__(self, ctx: VerifyCtx, I: Interp, st: State):
        self.ctx, self.I, self.st = ctx, I, st
        self.variant = ctx.variant
        self.v = {}            # named symbolic inputs for use in ensures

    def param(self, name, desc):
        from .types import fresh_value
        val = fresh_value(self.st, desc, name)
        self.st.env[name] = val
        self.ctx.params[name] = val
        self.v[name] = val
        return val

    def bind(self, name, value):
        self.st.env[name] = value
        self.ctx.params[name] = value
        self.v[name] = value
        return value

    def fresh(self, name, desc):
        from .types import fresh_value
        val = fresh_value(self.st, desc, name)
        self.v[name] = val
        return val

    def requires(self, name, formula):
        self.ctx.requires_list.append((name, formula))
        self.st.assume(formula)

    def ghost(self, name, value):
        self.st.ghost[name] = value
        return value

    def obj(self, ref):
        return self.st.obj(ref)

    def cls(self, modname, clsname):
        m = self.ctx.index.real_module(modname)
        return getattr(m, clsname)

    def alloc(self, obj):
        return self.st.alloc(obj)


class UnitResult:
    def __init__(self, unit):
        self.unit = unit
        self.obligations: list[Obligation] = []
        self.status = "ok"        # ok | out-of-subset | contract-error | engine-error
        self.detail = ""
        self.info = {}
        self.gen_time = 0.0


def _contract_assumes():
    """Assumptions executed from contract code during this unit, with the source line that states them."""
    from .state import CONTRACT_ASSUMES
    import linecache, os
    out = []
    base = os.path.join(os.path.dirname(os.path.dirname(os.path.abspath(__file__))), "contracts")
    for f, ln, fn in sorted(CONTRACT_ASSUMES):
        src = linecache.getline(os.path.join(base, f), ln).strip()
        out.append(f"assumed in contract code {f}:{ln} ({fn}): {src[:160]}")
    return out


def verify_unit(index: RepoIndex, contract: Contract, only=None) -> list[UnitResult]:
    results = []
    variants = list(contract.variants)
    if only is not None:
        variants = [variants[only]]
    for variant in variants:
        t0 = time.time()
        ctx = VerifyCtx(index, contract, variant)
        res = UnitResult(ctx.unit)
        from .state import CONTRACT_ASSUMES as _CA
        _CA.clear()
        from . import ops as _ops
        _ops.ABSTRACT_DIV = bool(getattr(contract, "abstract_division", False))
        try:
            _run(ctx, contract)
        except OutOfSubset as e:
            res.status, res.detail = "out-of-subset", str(e)
        except ContractError as e:
            res.status, res.detail = "contract-error", str(e)
        except Exception as e:
            tb = traceback.extract_tb(e.__traceback__)
            in_contract = [fr for fr in tb if "/contracts/" in fr.filename.replace("\\", "/")]
            if isinstance(e, (KeyError, AttributeError, IndexError, TypeError, AssertionError)) and in_contract:
                # the sidecar contract's own code (a handler, a summary, an invariant) could not find what it describes in this version
                # of the function (a renamed local, another call shape): the contract no longer binds - undecided, not a checker crash
                fr = in_contract[-1]
                res.status, res.detail = "contract-error", (f"contract does not bind: {type(e).__name__}: {e} in "
                                                            f"{fr.filename.split('/contracts/')[-1]}:{fr.lineno} ({fr.name})")
            elif type(e).__name__ == "Z3Exception":
                # the executor could not represent a value of this version of the function as a term (a Python value reached a place where the
                # encoding needs a z3 expression): this code is outside the subset the executor encodes - undecided, with the traceback kept
                res.status, res.detail = "out-of-subset", f"value not representable by the executor's encoding ({e}); {traceback.format_exc()[-600:]}"
            else:        # engine fault
                res.status, res.detail = "engine-error", f"{type(e).__name__}: {e}\n{traceback.format_exc()}"
        res.obligations = _dedupe(ctx.obligations)
        res.gen_time = time.time() - t0
        missing = [k for k in contract.loops if isinstance(k, int) and k not in ctx.loops_seen and k not in getattr(contract, 'loops_optional', ())]
        missing_ghost = [p for p, _ in contract.ghost_after if p not in ctx.ghost_hits]
        if res.status == "ok" and (missing or missing_ghost):
            res.status = "contract-error"
            res.detail = f"contract does not bind: loops never reached {missing}, ghost anchors never matched {missing_ghost}"
        res.info = {
            "function": index.func_info(ctx.modname, ctx.qualname, ctx.fn),
            "inlined": list(ctx.inlined.values()),
            "summaries_used": sorted(ctx.used_summaries),
            "assumed": list(ctx.assumed) + _contract_assumes(),
            "dropped": dict(ctx._dropped),
            "nodes_interpreted": dict(ctx.node_counts),
            "trivially_true": ctx.trivial,
            "notes": list(ctx.notes),
            "requires": [n for n, _ in ctx.requires_list],
            "covers": {str(k): sorted(v) for k, v in ctx.covers.items()},
        }
        results.append(res)
    return results


def _dedupe(obs):
    seen = {}
    for ob in obs:
        key = (ob.name, ob.goal.sexpr() if z3.is_expr(ob.goal) else str(ob.goal), tuple(h.hash() if z3.is_expr(h) else hash(h) for h in ob.hyps))
        seen.setdefault(key, ob)
    out = list(seen.values())
    # make names unique
    counts = {}
    for ob in out:
        counts[ob.name] = counts.get(ob.name, 0) + 1
    idx = {}
    for ob in out:
        if counts[ob.name] > 1:
            idx[ob.name] = idx.get(ob.name, 0) + 1
            ob.name = f"{ob.name}~{idx[ob.name]}"
    return out


def _run(ctx: VerifyCtx, contract: Contract):
    I = Interp(ctx)
    st = State()
    st.env = {"__module__": ctx.modname, "__parent__": None, "__func__": ctx.qualname}
    ctx.state0 = st
    c = Cx(ctx, I, st)
    try:
        contract.setup(c)
    except (AttributeError, KeyError, IndexError, TypeError) as e:
        # the contract's set-up reads names of the real module (tables, flags, parameters); when one is gone the contract no
        # longer describes this code: undecided, never a violation by itself
        raise ContractError(f"contract does not bind (setup): {type(e).__name__}: {e}")
    if hasattr(contract, "setup_loops"):
        contract.setup_loops(c)
    # vacuity: the precondition must be satisfiable
    pre = Obligation(f"{ctx.unit}#requires.sat", list(st.pc), z3.BoolVal(True), "cover", ctx.fn.lineno, ctx.unit)
    ctx.obligations.append(pre)
    fn = ctx.fn
    # parameters not bound by the contract take their defaults
    a = fn.args
    params = [p.arg for p in a.posonlyargs + a.args + a.kwonlyargs]
    if a.kwarg is not None:
        params.append(a.kwarg.arg)          # `**data`: bound by the contract as a dict (or empty)
        if a.kwarg.arg not in st.env:
            from .values import DictObj as _DictObj
            st.env[a.kwarg.arg] = st.alloc(_DictObj(items={}, fresh=True))
    defaults = dict(zip([p.arg for p in (a.posonlyargs + a.args)][len(a.posonlyargs + a.args) - len(a.defaults):], a.defaults))
    defaults.update({p.arg: d for p, d in zip(a.kwonlyargs, a.kw_defaults) if d is not None})
    for p in params:
        if p not in st.env:
            if p in defaults:
                st.env[p] = I.eval(st, defaults[p])
            else:
                raise ContractError(f"parameter '{p}' of {ctx.qualname} is not bound by the contract")
    for name in list(ctx.params):
        if name not in params and not name.startswith("_"):
            raise ContractError(f"contract binds '{name}' which is not a parameter of {ctx.qualname}")
    ctx.push_func(FuncVal(fn, qualname=None))
    outs = I.exec_block(st, fn.body)
    ctx.pop_func()
    nret = 0
    for o in outs:
        if o.kind == "normal":
            o = Outcome("return", o.state, None)
        if o.kind == "return":
            nret += 1
            c2 = Cx(ctx, I, o.state)
            c2.v = c.v
            ens = contract.ensures(c2, o)
            for name, f in ens.items():
                I.oblige(o.state, f"ensures#{name}@L{o.site}", f, "post", o.site)
        elif o.kind == "raise":
            exc = o.value
            allowed = None
            for nm, fnr in contract.raises.items():
                if exc.pyclass is not None and issubclass(exc.pyclass, ctx.exc_class(nm)):
                    allowed = fnr
                    break
            if allowed is None:
                I.oblige(o.state, f"raises#unexpected.{exc.name}@L{o.site}", False, "raises", o.site,
                         {"exception": exc.name})
            else:
                c2 = Cx(ctx, I, o.state)
                c2.v = c.v
                for name, f in (allowed(c2, o) or {}).items():
                    I.oblige(o.state, f"raises#{exc.name}.{name}@L{o.site}", f, "raises", o.site)
        else:
            raise OutOfSubset(f"function ended with {o.kind}")
    ctx.note(f"exits: {nret} return path(s), {sum(1 for o in outs if o.kind == 'raise')} raise path(s)")
