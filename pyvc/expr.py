"""Expression evaluation of the symbolic executor."""
from __future__ import annotations

import ast
from fractions import Fraction

import z3

from . import ops
from .ops import arith, compare, concat, concrete_bool, concrete_int, simp, str_of, truth
from .state import ContractError, OutOfSubset, SymRaise
from .values import (BoundMethod, Chr, ClassVal, Cursor, Dec, DictObj, Fmt, FrameObj, FuncVal, ListObj, ModuleVal, Opt, RecObj, RowView,
                     Ref, Rope, SetObj, StrSort, Tok, Unknown, ValSort, is_strterm, is_stringy, lit, norm_str, rope_of,
                     to_z3)

_CMP = {ast.Eq: "==", ast.NotEq: "!=", ast.Lt: "<", ast.LtE: "<=", ast.Gt: ">", ast.GtE: ">="}
_BIN = {ast.Add: "+", ast.Sub: "-", ast.Mult: "*", ast.Div: "/", ast.FloorDiv: "//", ast.Mod: "%", ast.Pow: "**"}


class ExprMixin:
    # ------------------------------------------------------------------------------------------
    def eval(self, st, e):
        self.ctx.count_node(e)
        m = getattr(self, "ev_" + type(e).__name__, None)
        if m is None:
            raise OutOfSubset(f"expression {type(e).__name__} at line {getattr(e, 'lineno', '?')}")
        return m(st, e)

    def eval_cond(self, st, e):
        """Evaluate a test to its truth value (z3 Bool or Python bool), keeping and/or/not symbolic."""
        if isinstance(e, ast.BoolOp):
            is_and = isinstance(e.op, ast.And)
            acc = []
            saved = len(st.guards)
            short = False
            try:
                for v in e.values:
                    t = self.eval_cond(st, v)
                    cb = t if isinstance(t, bool) else concrete_bool(t)
                    if cb is not None:
                        if cb != is_and:          # False in an `and`, True in an `or`: decides the whole test
                            short = True
                            break
                        continue
                    acc.append(t)
                    st.guards.append(t if is_and else z3.Not(t))
            finally:
                del st.guards[saved:]
            if short:
                return not is_and
            if not acc:
                return is_and
            return z3.And(*acc) if is_and else z3.Or(*acc)
        if isinstance(e, ast.UnaryOp) and isinstance(e.op, ast.Not):
            t = self.eval_cond(st, e.operand)
            return (not t) if isinstance(t, bool) else z3.Not(t)
        v = self.eval(st, e)
        return truth(st, v)

    # ---- atoms
    def ev_Constant(self, st, e):
        if isinstance(e.value, float):
            return Fraction(e.value).limit_denominator(10 ** 12)
        if isinstance(e.value, bytes):
            return self.ctx.bytes_literal(st, e.value)
        return e.value

    def ev_Name(self, st, e):
        try:
            return self.lookup(st, e.id)
        except KeyError:
            raise OutOfSubset(f"unbound name '{e.id}' at line {e.lineno}")

    def ev_NamedExpr(self, st, e):
        v = self.eval(st, e.value)
        self.assign(st, e.target, v)
        return v

    def ev_Tuple(self, st, e):
        return tuple(self.eval(st, x) for x in e.elts)

    def ev_List(self, st, e):
        items = []
        for x in e.elts:
            if isinstance(x, ast.Starred):
                items.extend(self.concrete_items(st, self.eval(st, x.value), x))
            else:
                items.append(self.eval(st, x))
        return st.alloc(ListObj(items=items))

    def ev_Set(self, st, e):
        return st.alloc(SetObj(items=[self.eval(st, x) for x in e.elts]))

    def ev_Dict(self, st, e):
        d = {}
        for k, v in zip(e.keys, e.values):
            if k is None:
                raise OutOfSubset("dict unpacking")
            kk = self.eval(st, k)
            d[self.dict_key(st, kk)] = self.eval(st, v)
        return st.alloc(DictObj(items=d))

    def dict_key(self, st, k):
        k = norm_str(k)
        if isinstance(k, (str, int, bool, tuple)) or k is None:
            return k
        if is_strterm(k):
            name = self.ctx.key_name(st, k)
            if name is not None:
                return name
        raise OutOfSubset(f"symbolic dict key {k!r}")

    def ev_JoinedStr(self, st, e):
        parts = []
        for v in e.values:
            if isinstance(v, ast.Constant):
                parts.append(v.value)
            elif isinstance(v, ast.FormattedValue):
                val = self.eval(st, v.value)
                if isinstance(val, Opt):
                    val = None if self.decide(st, val.isnone, f"fstr.none@{e.lineno}") else val.payload
                if v.conversion == 114:     # !r
                    parts.append(self.ctx.opaque_str(st, "repr"))
                    continue
                if v.format_spec is not None:
                    raise OutOfSubset("f-string format spec")
                hk = self.ctx._hook("to_str", self, st, val)
                if hk is not NotImplemented:
                    val = hk
                parts.append(rope_of(str_of(st, val)) if not isinstance(str_of(st, val), str) else str_of(st, val))
            else:
                raise OutOfSubset("f-string part")
        return norm_str(Rope(parts))

    # ---- operators
    def ev_UnaryOp(self, st, e):
        if isinstance(e.op, ast.Not):
            t = self.eval_cond(st, e.operand)
            return (not t) if isinstance(t, bool) else z3.Not(t)
        v = self.eval(st, e.operand)
        if isinstance(e.op, ast.USub):
            return arith("-", 0, v)
        if isinstance(e.op, ast.UAdd):
            return v
        raise OutOfSubset("unary operator")

    def ev_BinOp(self, st, e):
        a = self.eval(st, e.left)
        b = self.eval(st, e.right)
        return self.binop(st, e.op, a, b, e)

    def binop(self, st, op, a, b, node):
        a, b = norm_str(a), norm_str(b)
        hk = self.ctx._hook("binop", self, st, op, a, b, node)
        if hk is not NotImplemented:
            return hk
        if isinstance(op, ast.Add) and (is_stringy(a) or is_stringy(b)):
            if not (is_stringy(a) and is_stringy(b)):
                raise SymRaise(ClassVal("TypeError", TypeError), st, "str + non-str", getattr(node, "lineno", None))
            return concat(a, b)
        if isinstance(op, ast.Add) and isinstance(a, tuple) and isinstance(b, tuple):
            return a + b
        if isinstance(a, (Ref, RowView)) or isinstance(b, (Ref, RowView)):
            return self.seq_binop(st, op, a, b, node)
        if isinstance(op, ast.Mult) and (isinstance(a, str) or isinstance(b, str)):
            s_, n_ = (a, b) if isinstance(a, str) else (b, a)
            n = concrete_int(n_)
            if n is None:
                raise OutOfSubset("string repetition by a symbolic count")
            return s_ * n
        if isinstance(op, (ast.RShift, ast.LShift)):
            k = concrete_int(b)
            if k is None or k < 0:
                raise OutOfSubset("shift by a symbolic amount")
            ca = concrete_int(a)
            if ca is not None:
                return ca >> k if isinstance(op, ast.RShift) else ca << k
            return ops.num(a) / (2 ** k) if isinstance(op, ast.RShift) else ops.num(a) * (2 ** k)
        if isinstance(op, ast.BitAnd):
            ca, cb = concrete_int(a), concrete_int(b)
            if ca is not None and cb is not None:
                return ca & cb
            mask, x = (cb, a) if cb is not None else (ca, b)
            if mask is None or mask < 0 or (mask & (mask + 1)) != 0:
                raise OutOfSubset("bitwise and with a non 2^k-1 mask")
            return ops.num(x) % (mask + 1)
        if isinstance(op, ast.BitOr):
            raise OutOfSubset("bit operators on scalars")
        sym = _BIN.get(type(op))
        if sym is None:
            raise OutOfSubset(f"operator {type(op).__name__}")
        if isinstance(a, Opt) or isinstance(b, Opt) or a is None or b is None:
            for x in (a, b):
                if x is None:
                    raise SymRaise(ClassVal("TypeError", TypeError), st, "arithmetic on None", getattr(node, "lineno", None))
                if isinstance(x, Opt):
                    self.check(st, z3.Not(x.isnone), "TypeError", "arith.not_none", getattr(node, "lineno", None))
            a = a.payload if isinstance(a, Opt) else a
            b = b.payload if isinstance(b, Opt) else b
        if sym in ("/", "//", "%"):
            zb = b
            cb = concrete_int(zb) if not isinstance(zb, Fraction) else (0 if zb == 0 else 1)
            if cb == 0:
                raise SymRaise(ClassVal("ZeroDivisionError", ZeroDivisionError), st, "division by zero", getattr(node, "lineno", None))
            if cb is None and z3.is_expr(zb):
                self.check(st, ops.num(zb) != 0, "ZeroDivisionError", "div.nonzero", getattr(node, "lineno", None))
        return arith(sym, a, b)

    def seq_binop(self, st, op, a, b, node):
        from .seqs import list_concat, list_repeat, set_binop
        if isinstance(op, ast.Add):
            return list_concat(self, st, a, b, node)
        if isinstance(op, ast.Mult):
            lst, n = (a, b) if isinstance(a, (Ref, RowView)) else (b, a)
            return list_repeat(self, st, lst, n, node)
        if isinstance(op, (ast.BitAnd, ast.BitOr, ast.Sub)):
            return set_binop(self, st, op, a, b, node)
        raise OutOfSubset("operator on containers")

    def ev_BoolOp(self, st, e):
        # value semantics with short circuit: fork on symbolic truthiness
        last = None
        for i, v in enumerate(e.values):
            last = self.eval(st, v)
            if i == len(e.values) - 1:
                return last
            t = truth(st, last)
            b = self.decide(st, to_z3(t) if not isinstance(t, bool) else t, f"boolop@{e.lineno}")
            if isinstance(e.op, ast.And) and not b:
                return last
            if isinstance(e.op, ast.Or) and b:
                return last
        return last

    def ev_Compare(self, st, e):
        left = self.eval(st, e.left)
        res = []
        for op, rhs in zip(e.ops, e.comparators):
            right = self.eval(st, rhs)
            res.append(self.compare1(st, op, left, right, e))
            left = right
        if len(res) == 1:
            return res[0]
        if all(isinstance(r, bool) for r in res):
            return all(res)
        return z3.And(*[to_z3(r) for r in res])

    def compare1(self, st, op, a, b, node):
        hk = self.ctx._hook("compare", self, st, op, a, b, node)
        if hk is not NotImplemented:
            return hk
        if isinstance(op, (ast.Is, ast.IsNot)):
            r = self.is_same(st, a, b)
            return r if isinstance(op, ast.Is) else ((not r) if isinstance(r, bool) else z3.Not(r))
        if isinstance(op, (ast.In, ast.NotIn)):
            r = self.contains(st, b, a, node)
            return r if isinstance(op, ast.In) else ((not r) if isinstance(r, bool) else z3.Not(r))
        return compare(st, _CMP[type(op)], a, b)

    def is_same(self, st, a, b):
        if b is None or a is None:
            x = a if b is None else b
            if x is None:
                return True
            if isinstance(x, Opt):
                return x.isnone
            return False
        if isinstance(a, Ref) and isinstance(b, Ref):
            return a.oid == b.oid
        if isinstance(a, bool) and isinstance(b, bool):
            return a is b
        if isinstance(a, ClassVal) and isinstance(b, ClassVal):
            return a.name == b.name
        raise OutOfSubset("`is` on non-None values")

    def contains(self, st, container, x, node):
        from .seqs import contains
        return contains(self, st, container, x, node)

    def ev_IfExp(self, st, e):
        c = self.eval_cond(st, e.test)
        b = self.decide(st, c, f"ifexp@{e.lineno}")
        return self.eval(st, e.body if b else e.orelse)

    # ---- attribute / subscript
    def ev_Attribute(self, st, e):
        base = self.eval(st, e.value)
        return self.get_attr(st, base, e.attr, e)

    def get_attr(self, st, base, attr, node=None):
        from .attrs import get_attr
        return get_attr(self, st, base, attr, node)

    def set_attr(self, st, base, attr, v, node=None):
        from .attrs import set_attr
        return set_attr(self, st, base, attr, v, node)

    def ev_Subscript(self, st, e):
        base = self.eval(st, e.value)
        key = self.eval_slice(st, e.slice)
        return self.get_item(st, base, key, e)

    def eval_slice(self, st, sl):
        if isinstance(sl, ast.Slice):
            return slice(None if sl.lower is None else self.eval(st, sl.lower),
                         None if sl.upper is None else self.eval(st, sl.upper),
                         None if sl.step is None else self.eval(st, sl.step))
        return self.eval(st, sl)

    def get_item(self, st, base, key, node=None):
        from .seqs import get_item
        return get_item(self, st, base, key, node)

    def set_item(self, st, base, key, v, node=None):
        from .seqs import set_item
        return set_item(self, st, base, key, v, node)

    # ---- comprehensions
    def ev_ListComp(self, st, e):
        from .seqs import comprehension
        return comprehension(self, st, e, "list")

    def ev_GeneratorExp(self, st, e):
        from .seqs import comprehension
        return comprehension(self, st, e, "list")

    def ev_SetComp(self, st, e):
        from .seqs import comprehension
        return comprehension(self, st, e, "set")

    def ev_DictComp(self, st, e):
        from .seqs import comprehension
        return comprehension(self, st, e, "dict")

    def ev_Lambda(self, st, e):
        return FuncVal(e, env=st.env, module=st.env.get("__module__"))

    def ev_Starred(self, st, e):
        raise OutOfSubset("starred expression")

    # ---- calls
    def ev_Call(self, st, e):
        from .calls import eval_call
        return eval_call(self, st, e)

    def call_method(self, st, recv, name, args, kwargs, node):
        from .calls import call_method
        return call_method(self, st, recv, name, args, kwargs, node)

    def call_function(self, st, fv, args, kwargs, node):
        from .calls import call_function
        return call_function(self, st, fv, args, kwargs, node)

    # ---- iteration helpers
    def iter_values(self, st, it, node):
        """Concrete list of values to iterate over, or None if the iteration space is symbolic."""
        from .seqs import iter_values
        return iter_values(self, st, it, node)

    def concrete_items(self, st, v, node):
        seq = self.iter_values(st, v, node)
        if seq is None:
            raise OutOfSubset("concrete sequence expected")
        return seq
