"""Loop cutting at sidecar invariants (DESIGN 1.4 / Appendix D)."""
from __future__ import annotations

import ast

import z3

from .ops import concrete_int
from .seqs import sym_iter_view, mk_list
from .state import ContractError, Outcome, OutOfSubset
from .types import desc_of_value, fresh_value, T
from .values import Cursor, DictObj, FrameObj, ListObj, Opt, RecObj, Ref, SetObj, fresh_name, to_z3

MUTATORS = {"append", "extend", "insert", "sort", "pop", "remove", "clear", "reverse", "update", "add", "setdefault"}


def modified_names(body):
    """(assigned names, names whose referenced object is mutated) by a syntactic scan of the loop body."""
    assigned, mutated = set(), set()

    def root(n):
        while isinstance(n, (ast.Subscript, ast.Attribute)):
            n = n.value
        return n.id if isinstance(n, ast.Name) else None

    def target(t):
        if isinstance(t, ast.Name):
            assigned.add(t.id)
        elif isinstance(t, (ast.Tuple, ast.List)):
            for x in t.elts:
                target(x)
        elif isinstance(t, (ast.Subscript, ast.Attribute)):
            r = root(t)
            if r:
                mutated.add(r)
        elif isinstance(t, ast.Starred):
            target(t.value)

    for st in body:
        for n in ast.walk(st):
            if isinstance(n, ast.Assign):
                for t in n.targets:
                    target(t)
            elif isinstance(n, (ast.AugAssign, ast.AnnAssign)):
                target(n.target)
                if isinstance(n, ast.AugAssign) and isinstance(n.target, ast.Name):
                    mutated.add(n.target.id)       # list += ... mutates in place
            elif isinstance(n, ast.NamedExpr):
                target(n.target)
            elif isinstance(n, (ast.For, ast.comprehension)):
                target(n.target)
            elif isinstance(n, ast.With):
                for it in n.items:
                    if it.optional_vars is not None:
                        target(it.optional_vars)
            elif isinstance(n, ast.Call) and isinstance(n.func, ast.Attribute) and n.func.attr in MUTATORS:
                r = root(n.func.value)
                if r:
                    mutated.add(r)
            elif isinstance(n, ast.ExceptHandler) and n.name:
                assigned.add(n.name)
            elif isinstance(n, (ast.Import, ast.ImportFrom)):
                for a in n.names:
                    assigned.add((a.asname or a.name).split(".")[0])
    return assigned, mutated


def havoc_var(I, st, name, cur, override, tag):
    """Fresh symbolic replacement for variable `name` currently holding `cur`."""
    if override is not None:
        if callable(override) and not isinstance(override, T):
            return override(I, st, name, cur)
        return fresh_value(st, override, f"{name}@{tag}", fresh=True)
    if isinstance(cur, Cursor):
        return cur
    d = desc_of_value(st, cur)
    if d is None or d.kind == "list":
        if isinstance(cur, Ref):
            return cur      # object identity unchanged; content havoc'ed separately if mutated
        if cur is None:
            raise ContractError(f"cannot infer the type of '{name}' (None before the loop): add a havoc descriptor to the loop spec")
        if isinstance(cur, tuple):
            return tuple(havoc_var(I, st, f"{name}[{k}]", x, None, tag) for k, x in enumerate(cur))
        from .values import ClassVal, FuncVal, BoundMethod, ModuleVal
        if isinstance(cur, (ClassVal, FuncVal, BoundMethod, ModuleVal)):
            return cur
        raise ContractError(f"cannot havoc variable '{name}' = {cur!r}: add a havoc descriptor to the loop spec")
    return fresh_value(st, d, f"{name}@{tag}", fresh=True)


def havoc_object(I, st, name, ref, override, tag):
    o = st.obj(ref)
    if override is not None and callable(override) and not isinstance(override, T):
        override(I, st, name, ref)
        return
    if isinstance(o, ListObj):
        elem = override.kw["elem"] if isinstance(override, T) and override.kind == "list" else o.elem
        if elem is None:
            d = desc_of_value(st, ref)
            if d is None:
                raise ContractError(f"cannot havoc list '{name}': element type unknown; add a havoc descriptor to the loop spec")
            elem = d.kw["elem"]
        fresh = fresh_value(st, T("list", elem=elem, minlen=0, maxlen=None), f"{name}@{tag}", fresh=o.fresh)
        fo = st.obj(fresh)
        o.items, o.length, o.get, o.elem = None, fo.length, fo.get, elem
        del st.heap[fresh.oid]
        return
    if isinstance(o, FrameObj):
        cols = override if isinstance(override, (list, tuple, set)) else list(o.cols)
        for c in cols:
            o.cols[c] = z3.Array(fresh_name(f"{name}.{c}@{tag}"), z3.IntSort(), o.cols[c].sort().range())
        return
    if isinstance(o, RecObj):
        fields = override if isinstance(override, dict) else None
        if fields is None:
            raise ContractError(f"object '{name}' ({o.cls}) is mutated in the loop: list the fields to havoc in the loop spec")
        for f, d in fields.items():
            o.fields[f] = fresh_value(st, d, f"{name}.{f}@{tag}", fresh=True)
        return
    if isinstance(o, DictObj):
        if isinstance(override, dict):
            for k, d in override.items():
                o.items[k] = fresh_value(st, d, f"{name}[{k}]@{tag}", fresh=True)
                o.present.pop(k, None)
            return
        raise ContractError(f"dict '{name}' is mutated in the loop: add a havoc descriptor")
    if isinstance(o, SetObj):
        if isinstance(override, T) or override is None:
            raise ContractError(f"set '{name}' is mutated in the loop: add a havoc callable")
    raise ContractError(f"cannot havoc object '{name}'")


def cut_loop(I, st, s, k, spec, kind, iterable):
    from .interp import LoopView
    ctx = I.ctx
    body = s.body
    lname = f"loop{k if not isinstance(k, tuple) else k[1]}" if not isinstance(k, tuple) else f"{k[0]}.loop{k[1]}"
    if getattr(s, "orelse", None):
        raise OutOfSubset("loop with else clause")
    assigned, mutated = modified_names(body)
    # binding check: the variables the loop specification says the loop writes (explicit `writes`) must still be assigned / mutated by the loop body.  If the code was refactored so that the accumulator has
    # another name, the invariant would silently talk about an unrelated variable of the same name: that is "contract does not bind"
    # (undecided), never a violation.
    declared = set(getattr(spec, "writes", None) or [])
    missing_w = sorted(nm for nm in declared if nm not in assigned and nm not in mutated)
    if missing_w:
        raise ContractError(f"contract does not bind: {lname} no longer writes {missing_w} (the loop specification names them as written)")
    if kind == "for":
        n, getter = sym_iter_view(I, st, iterable)
        tnames, _ = modified_names([ast.Assign(targets=[s.target], value=ast.Constant(value=None))])
        assigned |= tnames
        # stores through the loop variable mutate the iterated container
        target_roots = tnames
    else:
        n, getter, target_roots = None, None, set()

    def do_havoc(state, tag):
        done_objs = set()
        for name in sorted(assigned):
            if name in target_roots:
                continue
            try:
                cur = I.lookup(state, name)
            except Exception:
                continue     # first bound inside the loop body
            state.env[name] = havoc_var(I, state, name, cur, spec.havoc.get(name), tag)
        for name in sorted(mutated | set(k_ for k_ in spec.havoc if k_ not in assigned)):
            if name in target_roots and kind == "for":
                ref = _container_ref(state, iterable)
                nm = name
            else:
                try:
                    ref = I.lookup(state, name)
                except Exception:
                    continue
                nm = name
            if isinstance(ref, Opt):
                ref = ref.payload
            if isinstance(ref, Cursor):
                ref = ref.frame
            if isinstance(ref, Ref) and ref.oid not in done_objs:
                done_objs.add(ref.oid)
                havoc_object(I, state, nm, ref, spec.havoc.get(name), tag)
        for g in getattr(spec, "ghost_vars", None) or []:
            state.ghost[g] = ctx.havoc_ghost(state, g, tag)

    # ---- init
    i0 = z3.IntVal(0)
    if spec.before:
        spec.before(I, st)
    for cname, clause in spec.inv(LoopView(I, st, i0)).items():
        I.oblige(st, f"{lname}#init#{cname}", clause, "inv-init", s.lineno)

    outs = []
    # ---- arbitrary iteration
    it = st.fork()
    do_havoc(it, "it")
    i = z3.Int(fresh_name("i"))
    it.assume(i >= 0)
    inv_i = spec.inv(LoopView(I, it, i))
    it.assume(*[to_z3(c) for c in inv_i.values()])
    it.path.append(f"{lname}:iter")

    def run_iter(state):
        if kind == "for":
            state.assume(i < n)
            I.assign(state, s.target, getter(i))
            state.ghost["__iter_index__"] = i
        else:
            c = I.eval_cond(state, s.test)
            state.assume(to_z3(c))
        if not I.feasible(state):
            ctx.note(f"{lname}: loop body unreachable under the invariant")
            return []
        ctx.cover(("loop", s.lineno), True)
        if spec.ghost_iter:
            spec.ghost_iter(I, state, i)
        return I.exec_block(state, body)

    for o in I.exec_atomic(it, run_iter, s.lineno):
        if o.kind in ("normal", "continue"):
            nxt = spec.inv(LoopView(I, o.state, i + 1))
            tag = "@" + ".".join(o.state.path[len(it.path):]) if len(o.state.path) > len(it.path) else ""
            for cname, clause in nxt.items():
                I.oblige(o.state, f"{lname}#preserve#{cname}{tag}", clause, "inv-preserve", s.lineno)
            if spec.variant is not None:
                v0 = spec.variant(LoopView(I, it, i))
                v1 = spec.variant(LoopView(I, o.state, i + 1))
                I.oblige(o.state, f"{lname}#variant{tag}", z3.And(v1 < v0, v0 >= 0), "variant", s.lineno)
        elif o.kind == "break":
            o.state.path.append(f"{lname}:break")
            if spec.on_break:
                spec.on_break(I, o.state, i)
            outs.append(Outcome("normal", o.state))
        else:
            outs.append(o)

    # ---- after the loop (normal exit)
    af = st.fork()
    do_havoc(af, "af")
    if kind == "for":
        fin = n
        inv_n = spec.inv(LoopView(I, af, fin))
        af.assume(*[to_z3(c) for c in inv_n.values()])
        # the loop variable keeps its last value
        last = st.fork()
        try:
            cn = concrete_int(n)
            if cn is None or cn > 0:
                I.assign(af, s.target, getter(z3.simplify(n - 1)))
        except Exception:
            pass
    else:
        fin = z3.Int(fresh_name("iters"))
        af.assume(fin >= 0)
        inv_n = spec.inv(LoopView(I, af, fin))
        af.assume(*[to_z3(c) for c in inv_n.values()])
        c = I.eval_cond(af, s.test)
        af.assume(z3.Not(to_z3(c)))
    af.path.append(f"{lname}:exit")
    if spec.after:
        spec.after(I, af, fin)
    if I.feasible(af):
        outs.append(Outcome("normal", af))
    return outs


def _container_ref(state, iterable):
    from .seqs import EnumVal, ZipVal
    it = iterable
    while isinstance(it, EnumVal):
        it = it.inner
    if isinstance(it, Opt):
        it = it.payload
    if isinstance(it, Ref):
        return it
    return None


def comprehension_as_loop(I, st, e, kind, k, spec, first):
    """Desugar `[elt for t in it if c]` into `res = []; for t in it: if c: res.append(elt)` and cut the loop.
    The result list is visible to the invariant as `v.result`."""
    if len(e.generators) != 1:
        raise OutOfSubset("stateful comprehension with several generators")
    g = e.generators[0]
    res_name = "__comp_result__"
    if kind != "list":
        raise OutOfSubset("stateful set/dict comprehension")
    elem_desc = spec.havoc.get("result")
    st.env[res_name] = st.alloc(ListObj(items=[], elem=elem_desc.kw["elem"] if isinstance(elem_desc, T) else None))
    app = ast.Expr(value=ast.Call(func=ast.Attribute(value=ast.Name(id=res_name, ctx=ast.Load()), attr="append", ctx=ast.Load()),
                                  args=[e.elt], keywords=[]))
    body = [app]
    for c in reversed(g.ifs):
        body = [ast.If(test=c, body=body, orelse=[])]
    loop = ast.For(target=g.target, iter=g.iter, body=body, orelse=[], lineno=e.lineno, col_offset=e.col_offset)
    ast.fix_missing_locations(loop)
    for n in ast.walk(loop):
        if not hasattr(n, "lineno"):
            n.lineno = e.lineno
    spec2 = spec
    if "result" in spec.havoc and res_name not in spec.havoc:
        spec.havoc[res_name] = spec.havoc["result"]
    outs = cut_loop(I, st, loop, k, spec2, "for", first)
    normal = [o for o in outs if o.kind == "normal"]
    if len(normal) != 1 or len(outs) != 1:
        raise OutOfSubset("comprehension loop with several exits")
    os_ = normal[0].state
    st.heap, st.pc, st.ghost, st.effects, st.path = os_.heap, os_.pc, os_.ghost, os_.effects, os_.path
    res = os_.env[res_name]
    # comprehension variables do not leak; walrus targets do
    for name, v in os_.env.items():
        if name not in (res_name,) and name in st.env:
            st.env[name] = v
    st.env.pop(res_name, None)
    return res
