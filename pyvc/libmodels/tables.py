"""Large finite tables of the real modules (colour table: 657 entries) as uninterpreted functions.

The table itself is read from the tree under check (finite, audited exhaustively by TableUnits); symbolic
lookups use `tbl_<name>(key)` guarded by the membership predicate `in_<name>(key)`; lookups with a literal
key use the real value."""
from __future__ import annotations

import z3

from ..state import OutOfSubset, SymRaise
from ..values import ClassVal, HeapObj, Ref, StrSort, is_strterm, lit, norm_str, to_z3

NI = NotImplemented


class TableObj(HeapObj):
    kind = "table"
    fresh = False

    def __init__(self, name, data):
        self.name, self.data = name, data
        sample = next(iter(data.values()))
        self.vsort = z3.IntSort() if isinstance(sample, int) else StrSort
        self.fn = z3.Function("tbl_" + name, StrSort, self.vsort)
        self.member = z3.Function("in_" + name, StrSort, z3.BoolSort())
        self.opaque = not isinstance(sample, (int, str))

    def clone(self):
        return self


_TABLES: dict = {}


class BigTableModel:
    def big_table(self, ctx, st, obj, what):
        key = what.split(".")[-1].lstrip("_")
        if key not in _TABLES:
            _TABLES[key] = TableObj(key, dict(obj))
        t = _TABLES[key]
        cache = st.ghost.setdefault("__tables__", {})
        if key not in cache:
            cache[key] = st.alloc(t)
        return cache[key]

    def get_item(self, I, st, base, key, node):
        if isinstance(base, Ref) and isinstance(st.obj(base), TableObj):
            t = st.obj(base)
            key = norm_str(key)
            site = getattr(node, "lineno", None)
            if isinstance(key, str):
                if key not in t.data:
                    raise SymRaise(ClassVal("KeyError", KeyError), st, key, site)
                v = t.data[key]
                if t.opaque:
                    return t.fn(lit(key))
                st.assume(t.fn(lit(key)) == to_z3(v), t.member(lit(key)))
                return v
            if is_strterm(key):
                I.check(st, t.member(key), "KeyError", f"table.{t.name}.key", site)
                return t.fn(key)
            raise OutOfSubset("table lookup key")
        return NI

    def contains(self, I, st, container, x, node):
        if isinstance(container, Ref) and isinstance(st.obj(container), TableObj):
            t = st.obj(container)
            x = norm_str(x)
            if isinstance(x, str):
                return x in t.data
            if is_strterm(x):
                return t.member(x)
            return False
        return NI
