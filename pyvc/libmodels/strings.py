"""Assumed contracts on Python strings (DESIGN 1.5, 1.7).

A symbolic string `s` is a term of sort Str viewed as a sequence of code points `cp_at(s, j)`, 0 <= j < str_len(s).
`str.replace` is an uninterpreted function (left-to-right non-overlapping replacement is assumed, not modelled).
"""
from __future__ import annotations

import z3

from ..state import OutOfSubset
from ..values import Chr, Rope, StrSort, is_strterm, lit, norm_str, rope_of, str_len, to_z3

NI = NotImplemented

cp_at = z3.Function("cp_at", StrSort, z3.IntSort(), z3.IntSort())
str_replace = z3.Function("str_replace", StrSort, StrSort, StrSort, StrSort)
str_strip = z3.Function("str_strip", StrSort, StrSort)
str_lower = z3.Function("str_lower", StrSort, StrSort)
str_contains = z3.Function("str_contains", StrSort, StrSort, z3.BoolSort())


class StrModel:
    assumed = ["str iteration yields the code points cp_at(s, j) for j < len(s) in order",
               "str.replace(a, b) is a function of (s, a, b) (uninterpreted; replacement semantics assumed)"]

    def sym_iter(self, I, st, it):
        it = norm_str(it)
        if is_strterm(it):
            I.ctx.assume_lib(self.assumed[0])
            n = str_len(it)
            st.assume(n >= 0)
            return n, (lambda j, it=it: Rope((Chr(cp_at(it, to_z3(j))),)))
        return NI

    def iter(self, I, st, it, node):
        if is_strterm(it):
            return None        # symbolic iteration space
        return NI

    def ord(self, I, st, v, node):
        v = norm_str(v)
        if isinstance(v, str) and len(v) == 1:
            return ord(v)
        if isinstance(v, Rope) and len(v.pieces) == 1 and isinstance(v.pieces[0], Chr):
            return v.pieces[0].cp
        raise OutOfSubset(f"ord() of {v!r}")

    def str_method(self, I, st, recv, name, args, kwargs, node):
        recv = norm_str(recv)
        if name == "replace" and (is_strterm(recv) or isinstance(recv, str)):
            a, b = norm_str(args[0]), norm_str(args[1])
            if isinstance(a, Rope) or isinstance(b, Rope):
                raise OutOfSubset("replace with built strings")
            I.ctx.assume_lib(self.assumed[1])
            return str_replace(to_z3(recv), to_z3(a), to_z3(b))
        if name == "strip" and is_strterm(recv) and not args:
            return str_strip(recv)
        if name == "lower" and is_strterm(recv):
            return str_lower(recv)
        if name in ("capitalize", "upper", "title", "rstrip", "lstrip") and is_strterm(recv):
            f = z3.Function("str_" + name, StrSort, StrSort)
            return f(recv)
        if name == "copy":
            return recv
        if name in ("startswith", "endswith") and is_strterm(recv) and len(args) == 1 and not kwargs:
            # prefix / suffix test against literals: an uninterpreted predicate of (string, literal) - a function of its arguments, nothing more
            a = norm_str(args[0])
            ps = [norm_str(x) for x in a] if isinstance(a, tuple) else [a]
            if ps and all(isinstance(x, str) for x in ps):
                P = z3.Function("str_" + name, StrSort, StrSort, z3.BoolSort())
                from ..values import INTERN
                for x in ps:                      # exact on every literal known so far (a symbolic string constrained to literals gets the real answer)
                    px = to_z3(x)
                    for L, term in list(INTERN.table.items()):
                        st.assume(P(term, px) == z3.BoolVal(getattr(L, name)(x)))
                return z3.Or(*[P(to_z3(recv), to_z3(x)) for x in ps]) if len(ps) > 1 else P(to_z3(recv), to_z3(ps[0]))
        raise OutOfSubset(f"str.{name} on {recv!r}")

    def join_sym(self, I, st, sep, lst, node):
        from ..seqs import seq_view
        from ..values import Tok
        n, g = seq_view(st, lst)
        return Rope((Tok("JOIN", sep=norm_str(sep), length=n, get=g),))

    def contains(self, I, st, container, x, node):
        container, x = norm_str(container), norm_str(x)
        if is_strterm(container) and (isinstance(x, str) or is_strterm(x)):
            return str_contains(container, to_z3(x))
        return NI
