"""Assumed contract (polars): `DataFrame.to_dicts()` / `pl.DataFrame(list_of_dicts)` round trip on the row-metadata
frame, viewed struct-of-arrays (one z3 Array per column).  `to_dicts()` returns fresh, pairwise distinct dicts
(so stores through one row never alias another); `pl.DataFrame(rows)` copies the values column-wise."""
from __future__ import annotations

import z3

from ..values import FrameObj, Ref

NI = NotImplemented


class MetaFrameModel:
    assumed = ["polars: DataFrame.to_dicts() returns fresh pairwise-distinct row dicts with the frame's values",
               "polars: pl.DataFrame(list[dict]) builds a frame whose column c, row k is rows[k][c]",
               "polars: DataFrame.height is the number of rows"]

    def get_attr(self, I, st, base, attr, node):
        if isinstance(base, Ref) and isinstance(st.obj(base), FrameObj):
            if attr == "height":
                I.ctx.assume_lib(self.assumed[2])
                return st.obj(base).n
        return NI

    def call_method(self, I, st, recv, name, args, kwargs, node):
        from ..values import Cursor
        if isinstance(recv, Cursor) and name == "get" and args:
            # row.get(column, default) on a row dict of the metadata frame: the column's value when the frame has that column
            from ..values import norm_str
            fr = st.obj(recv.frame)
            col = norm_str(args[0])
            if isinstance(col, str) and col in fr.cols:
                return I.get_item(st, recv, col, node)
            if isinstance(col, str):
                return args[1] if len(args) > 1 else None
        if isinstance(recv, Ref) and isinstance(st.obj(recv), FrameObj):
            o = st.obj(recv)
            if name == "to_dicts":
                I.ctx.assume_lib(self.assumed[0])
                return st.alloc(FrameObj(o.n, o.cols, fresh=True))
            if name == "append":
                # a list of row dicts under construction (struct-of-arrays): append one record
                from ..values import DictObj, to_z3
                rec = st.obj(args[0]) if isinstance(args[0], Ref) else None
                if not isinstance(rec, DictObj) or set(rec.items) != set(o.cols):
                    from ..state import OutOfSubset
                    raise OutOfSubset("append of a record with other keys to a row list")
                for k, v in rec.items.items():
                    zv = to_z3(v)
                    rng = o.cols[k].sort().range()
                    if zv.sort() != rng:
                        from ..state import OutOfSubset
                        raise OutOfSubset(f"row field {k}: sort {zv.sort()} vs column sort {rng}")
                    o.cols[k] = z3.Store(o.cols[k], o.n, zv)
                o.n = z3.simplify(o.n + 1)
                return None
        return NI


def pl_DataFrame_from_rows(I, st, args, kwargs, node):
    src = args[0]
    o = st.obj(src) if isinstance(src, Ref) else None
    if not isinstance(o, FrameObj):
        from ..state import OutOfSubset
        raise OutOfSubset("pl.DataFrame of a non-frame value")
    I.ctx.assume_lib(MetaFrameModel.assumed[1])
    return st.alloc(FrameObj(o.n, o.cols, fresh=True))
