"""Assumed contract (polars): `DataFrame.to_dicts()` / `pl.DataFrame(list_of_dicts)` round trip on the row-metadata
frame, viewed struct-of-arrays (one z3 Array per column).  `to_dicts()` returns fresh, pairwise distinct dicts
(so stores through one row never alias another); `pl.DataFrame(rows)` copies the values column-wise."""
from __future__ import annotations

import z3

from ..values import FrameObj, Ref

NI = NotImplemented


class MetaFrameModel:
    assumed = ["polars: DataFrame.to_dicts() returns fresh pairwise-distinct row dicts with the frame's values",
               "polars: pl.DataFrame(list[dict]) builds a frame whose column c, row k is rows[k][c]",
               "polars: DataFrame.height is the number of rows"]

    def get_attr(self, I, st, base, attr, node):
        if isinstance(base, Ref) and isinstance(st.obj(base), FrameObj):
            if attr == "height":
                I.ctx.assume_lib(self.assumed[2])
                return st.obj(base).n
        return NI

    def call_method(self, I, st, recv, name, args, kwargs, node):
        if isinstance(recv, Ref) and isinstance(st.obj(recv), FrameObj):
            o = st.obj(recv)
            if name == "to_dicts":
                I.ctx.assume_lib(self.assumed[0])
                return st.alloc(FrameObj(o.n, o.cols, fresh=True))
        return NI


def pl_DataFrame_from_rows(I, st, args, kwargs, node):
    src = args[0]
    o = st.obj(src) if isinstance(src, Ref) else None
    if not isinstance(o, FrameObj):
        from ..state import OutOfSubset
        raise OutOfSubset("pl.DataFrame of a non-frame value")
    I.ctx.assume_lib(MetaFrameModel.assumed[1])
    return st.alloc(FrameObj(o.n, o.cols, fresh=True))
