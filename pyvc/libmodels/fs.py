"""File-system effects (DESIGN 1.6 / C18): paths are Str terms, every FS operation is logged in the ghost effect trace
`st.effects`; with fault injection on, every modelled library call is a potential raise point."""
from __future__ import annotations

import ast

import z3

from ..state import Outcome, OutOfSubset, SymRaise
from ..values import ClassVal, Opt, Rope, StrSort, fresh_name, is_strterm, lit, norm_str, rope_term, to_z3

NI = NotImplemented

P_PARENT = z3.Function("path_parent", StrSort, StrSort)
P_EXPAND = z3.Function("path_expanduser", StrSort, StrSort)
P_JOIN = z3.Function("path_join", StrSort, StrSort, StrSort)
P_STEM = z3.Function("path_stem", StrSort, StrSort)
P_NAME = z3.Function("path_name", StrSort, StrSort)
P_WITHNAME = z3.Function("path_with_name", StrSort, StrSort, StrSort)
UNDER = z3.Function("path_under", StrSort, StrSort, z3.BoolSort())


class PathVal:
    __slots__ = ("t",)

    def __init__(self, t):
        self.t = t

    def __repr__(self):
        return f"PathVal({self.t})"


class TempDir:
    __slots__ = ("t",)

    def __init__(self, t):
        self.t = t


def sterm(v):
    v = norm_str(v)
    if isinstance(v, PathVal):
        return v.t
    if isinstance(v, Rope):
        return rope_term(v)
    return to_z3(v)


def fault_point(I, st, tag, site=None):
    allowed = getattr(I.ctx.contract, "inject_faults", False)
    if allowed and (allowed is True or tag in allowed):
        f = z3.Bool(fresh_name(f"fault@{tag}"))
        if I.decide(st, f, f"fault.{tag}"):
            st.effects.append(("fault", tag))
            raise SymRaise(ClassVal("Exception", Exception), st, f"injected fault at {tag}", site)


class FsModel:
    assumed = ["pathlib: Path operations are functions of the path string; path_join(d, x) lies under d; with_name stays in the same directory",
               "tempfile.TemporaryDirectory: a fresh directory, removed on normal and exceptional exit of the with block",
               "shutil.move(src, dst) atomically renames on one file system; Path.write_text/mkdir touch only their own path"]

    def get_attr(self, I, st, base, attr, node):
        if isinstance(base, PathVal):
            if attr == "parent":
                return PathVal(P_PARENT(base.t))
            if attr == "stem":
                return P_STEM(base.t)
            if attr == "name":
                return P_NAME(base.t)
            from ..values import BoundMethod
            return BoundMethod(base, attr)
        return NI

    def call_method(self, I, st, recv, name, args, kwargs, node):
        site = getattr(node, "lineno", None)
        if isinstance(recv, PathVal):
            I.ctx.assume_lib(self.assumed[0])
            if name == "expanduser":
                return PathVal(P_EXPAND(recv.t))
            if name == "mkdir":
                fault_point(I, st, "mkdir", site)
                st.effects.append(("mkdir", recv.t, site))
                return None
            if name == "write_text":
                fault_point(I, st, "write_text", site)
                st.effects.append(("write", recv.t, args[0], site))
                return None
            if name in ("unlink", "rmdir", "touch", "rename", "replace", "write_bytes"):
                st.effects.append((name, recv.t, site))
                return None
            if name == "with_name":
                r = P_WITHNAME(recv.t, sterm(args[0]))
                d = z3.Const("d!under", StrSort)
                st.assume(z3.ForAll([d], z3.Implies(UNDER(recv.t, d), UNDER(r, d))))
                return PathVal(r)
            if name in ("is_dir", "exists", "is_file"):
                return z3.Bool(fresh_name(f"fs.{name}"))
            raise OutOfSubset(f"Path.{name}")
        return NI

    def binop(self, I, st, op, a, b, node):
        if isinstance(op, ast.Div) and isinstance(a, PathVal):
            r = P_JOIN(a.t, sterm(b))
            st.assume(UNDER(r, a.t))
            return PathVal(r)
        return NI

    def isinstance(self, I, st, v, c, node):
        if isinstance(v, PathVal):
            return c.name in ("Path", "PurePath", "object")
        return NI

    def type_of(self, I, st, v, node):
        return ClassVal("object", object)

    def to_str(self, I, st, v):
        if isinstance(v, PathVal):
            return v.t
        return NI

    def with_stmt(self, I, st, s):
        if len(s.items) != 1:
            return NI
        item = s.items[0]
        cm = I.eval(st, item.context_expr)
        if not isinstance(cm, TempDir):
            return NI
        I.ctx.assume_lib(self.assumed[1])
        if item.optional_vars is not None:
            I.assign(st, item.optional_vars, cm.t)
        outs = []
        for o in I.exec_block(st, s.body):
            o.state.effects.append(("rmtree", cm.t, s.lineno))
            outs.append(o)
        return outs


def h_Path(I, st, args, kwargs, node):
    v = norm_str(args[0])
    if isinstance(v, PathVal):
        return v
    if isinstance(v, Opt):
        raise OutOfSubset("Path(None?)")
    return PathVal(sterm(v))


def h_TemporaryDirectory(I, st, args, kwargs, node):
    fault_point(I, st, "TemporaryDirectory", getattr(node, "lineno", None))
    t = z3.Const(fresh_name("tmpdir"), StrSort)
    st.effects.append(("mkdtemp", t, getattr(node, "lineno", None)))
    st.ghost.setdefault("__tmpdirs__", []).append(t)
    return TempDir(t)


def h_shutil_move(I, st, args, kwargs, node):
    I.ctx.assume_lib(FsModel.assumed[2])
    fault_point(I, st, "shutil.move", getattr(node, "lineno", None))
    st.effects.append(("move", sterm(args[0]), sterm(args[1]), getattr(node, "lineno", None)))
    return None
