"""Assumed contracts on polars DataFrames (DESIGN 1.7).  A frame is an immutable view
(height, width, colname(j), cell(r, c)); cells are opaque values of sort Val with `val_null` / `val_str`.
Every operation returns a new view; nothing mutates a frame in place."""
from __future__ import annotations

import itertools

import z3

from ..ops import concrete_int
from ..seqs import ite, mk_list, mk_symlist
from ..state import OutOfSubset, SymRaise
from ..values import (ClassVal, HeapObj, ListObj, Opt, Ref, StrSort, ValSort, fresh_name, is_strterm, lit, norm_str, to_z3, val_null,
                      val_str)

NI = NotImplemented
_uid = itertools.count(1)


class DfObj(HeapObj):
    kind = "df"
    fresh = True

    def __init__(self, n, w, cell, colname, uid=None, origin=None):
        self.n, self.w, self.cell, self.colname = n, w, cell, colname
        self.uid = uid if uid is not None else next(_uid)
        self.origin = origin           # (parent DfObj uid, row offset term) for row slices

    def clone(self):
        return self


class DfRow:
    __slots__ = ("df", "i")

    def __init__(self, df, i):
        self.df, self.i = df, i


class Series:
    __slots__ = ("df", "col")

    def __init__(self, df, col):
        self.df, self.col = df, col          # col: column index term


def fresh_df(st, name="df", width=None, origin="CALLER", unique_columns=False):
    n = z3.Int(fresh_name(name + ".height"))
    w = width if width is not None else z3.Int(fresh_name(name + ".width"))
    st.assume(n >= 0)
    if width is None:
        st.assume(w >= 1)
    C = z3.Function(fresh_name(name + ".cell"), z3.IntSort(), z3.IntSort(), ValSort)
    N = z3.Function(fresh_name(name + ".colname"), z3.IntSort(), StrSort)
    a, b = z3.Ints("ca cb")
    if unique_columns:
        st.assume(z3.ForAll([a, b], z3.Implies(z3.And(0 <= a, a < b, b < (w if z3.is_expr(w) else z3.IntVal(w))), N(a) != N(b))))   # column names are unique
    d = DfObj(n, w, lambda r, c, C=C: C(to_z3(r), to_z3(c)), lambda j, N=N: N(to_z3(j)))
    d.C, d.N = C, N
    return st.alloc(d)


def cell_value(st, d, r, c):
    v = d.cell(r, c)
    return Opt(val_null(v), v)


class PolarsModel:
    assumed = ["polars: DataFrame.shape/height/width/columns describe the frame; row(i)[j] and df[col][i] are cell (i, j)",
               "polars: slice(o, n) / df[a:b] are row intervals with clamping; clone() is value-equal; frames are immutable",
               "polars: select(cols) keeps the rows and the listed columns in the listed order"]

    def _df(self, st, v):
        if isinstance(v, Ref):
            o = st.heap.get(v.oid)
            if o is None:
                from ..state import LAZY
                if v.oid in LAZY:
                    o = st.obj(v)          # lazily allocated frame (element of a symbolic-length list of records)
            if isinstance(o, DfObj):
                return o
        return None

    def get_attr(self, I, st, base, attr, node):
        d = self._df(st, base)
        if d is not None:
            I.ctx.assume_lib(self.assumed[0])
            if attr == "shape":
                return (d.n, d.w)
            if attr == "height":
                return d.n
            if attr == "width":
                return d.w
            if attr == "columns":
                cw = concrete_int(d.w)
                if cw is not None:
                    return mk_list(st, [d.colname(j) for j in range(cw)])
                return mk_symlist(st, d.w, lambda j, d=d: d.colname(j))
            from ..values import BoundMethod
            return BoundMethod(base, attr)
        return NI

    def len(self, I, st, v, node):
        d = self._df(st, v)
        if d is not None:
            return d.n
        if isinstance(v, DfRow):
            return self._df(st, v.df).w
        return NI

    def isinstance(self, I, st, v, c, node):
        if self._df(st, v) is not None:
            return c.name in ("DataFrame", "object")
        return NI

    def call_method(self, I, st, recv, name, args, kwargs, node):
        d = self._df(st, recv)
        site = getattr(node, "lineno", None)
        if d is None:
            return NI
        if name == "row":
            i = to_z3(args[0])
            I.check(st, z3.And(i >= 0, i < d.n), "IndexError", "df.row.index", site)
            if kwargs.get("named"):
                raise OutOfSubset("df.row(named=True) (use the named-row model)")
            return DfRow(recv, i)
        if name == "clone":
            I.ctx.assume_lib(self.assumed[1])
            return recv
        if name == "is_empty":
            return d.n == 0
        if name == "slice":
            I.ctx.assume_lib(self.assumed[1])
            off = to_z3(args[0])
            ln = to_z3(args[1]) if len(args) > 1 else None
            return self.row_slice(st, recv, d, off, None if ln is None else off + ln)
        raise OutOfSubset(f"DataFrame.{name} has no model")

    def row_slice(self, st, ref, d, lo, hi):
        lo = z3.If(lo < 0, 0, z3.If(lo > d.n, d.n, lo))
        hi = d.n if hi is None else z3.If(hi < lo, lo, z3.If(hi > d.n, d.n, hi))
        n2 = z3.simplify(hi - lo)
        lo = z3.simplify(lo)
        nd = DfObj(n2, d.w, lambda r, c, d=d, lo=lo: d.cell(lo + to_z3(r), c), d.colname, origin=(ref, lo))
        return st.alloc(nd)

    def get_item(self, I, st, base, key, node):
        site = getattr(node, "lineno", None)
        if isinstance(base, DfRow):
            d = self._df(st, base.df)
            j = to_z3(key)
            I.check(st, z3.And(j >= 0, j < d.w), "IndexError", "df.row.column", site)
            return cell_value(st, d, base.i, j)
        d = self._df(st, base)
        if d is not None:
            if isinstance(key, slice):
                if key.step is not None:
                    raise OutOfSubset("frame slice with step")
                lo = to_z3(key.start) if key.start is not None else z3.IntVal(0)
                hi = to_z3(key.stop) if key.stop is not None else None
                for b in (key.start, key.stop):
                    cb = concrete_int(b) if b is not None else None
                    if cb is not None and cb < 0:
                        raise OutOfSubset("negative frame slice bound")
                I.ctx.assume_lib(self.assumed[1])
                return self.row_slice(st, base, d, lo, hi)
            raise OutOfSubset("DataFrame[...] column access has no model here")
        return NI
