"""Assumed contract of pydantic's BaseModel.model_copy(): a NEW model object of the same class whose fields hold the same values
(shallow: nested objects are shared).  Used where the real code copies a component before writing to it."""
from __future__ import annotations

import z3

from ..values import Opt, RecObj, Ref

NI = NotImplemented


class PydanticCopyModel:
    assumed = ["pydantic: model_copy() returns a new model object with the same field values (shallow)"]

    def call_method(self, I, st, recv, name, args, kwargs, node):
        if name == "model_copy" and isinstance(recv, Opt) and isinstance(recv.payload, Ref) and not args and not kwargs:
            I.check(st, z3.Not(recv.isnone), "AttributeError", "model_copy.receiver_not_none", getattr(node, "lineno", None))
            recv = recv.payload
        if name == "model_copy" and isinstance(recv, Ref) and not args and not kwargs:
            o = st.obj(recv)
            if isinstance(o, RecObj):
                I.ctx.assume_lib(self.assumed[0])
                return st.alloc(RecObj(o.cls, dict(o.fields), pyclass=o.pyclass, fresh=True, origin="FRESH"))
        return NI
