"""Assumed contracts on bytes / struct (DESIGN 1.7): a bytes object is a sequence of ints 0..255;
bytes.hex() is a function `hex_of`; str slicing is `substr` with Python clamping; struct.unpack('>I'/'>H') is big-endian."""
from __future__ import annotations

import z3

from ..ops import concrete_int
from ..seqs import as_symlist, mk_list
from ..state import OutOfSubset
from ..values import ClassVal, ListObj, Ref, StrSort, Tok, Rope, is_strterm, norm_str, str_len, to_z3

NI = NotImplemented

hex_of = z3.Function("hex_of", z3.ArraySort(z3.IntSort(), z3.IntSort()), z3.IntSort(), StrSort)   # (bytes array, length)
substr = z3.Function("pyslice", StrSort, z3.IntSort(), z3.IntSort(), StrSort)                      # s[a:b] (Python clamping)


def bytes_value(st, name="data", fresh=False):
    """Fresh symbolic bytes: (ref, array, length)."""
    arr = z3.Array(name + "!bytes", z3.IntSort(), z3.IntSort())
    n = z3.Int(name + "!len")
    st.assume(n >= 0)
    k = z3.Int("bk")
    st.assume(z3.ForAll([k], z3.And(arr[k] >= 0, arr[k] <= 255)))
    ref = st.alloc(ListObj(length=n, get=lambda j: arr[to_z3(j)], fresh=fresh))
    st.ghost.setdefault("__bytes__", {})[ref.oid] = (arr, n)
    return ref, arr, n


class BytesModel:
    assumed = ["bytes.hex() is a function of the byte sequence with len = 2*len(data)",
               "str slicing s[a:b] is the function pyslice(s, a, b) (Python clamping semantics)",
               "struct.unpack('>I'|'>H', b) is the big-endian value of the 4|2 bytes"]

    def bytes_literal(self, st, b: bytes):
        ref = st.alloc(ListObj(items=list(b), fresh=True))
        st.ghost.setdefault("__byteslit__", set()).add(ref.oid)
        return ref

    def call_method(self, I, st, recv, name, args, kwargs, node):
        if isinstance(recv, Ref) and recv.oid in st.ghost.get("__bytes__", {}) and name == "hex":
            arr, n = st.ghost["__bytes__"][recv.oid]
            I.ctx.assume_lib(self.assumed[0])
            h = hex_of(arr, n)
            st.assume(str_len(h) == 2 * n)
            return h
        return NI

    def get_item(self, I, st, base, key, node):
        base = norm_str(base)
        if is_strterm(base) and isinstance(key, slice):
            if key.step is not None:
                raise OutOfSubset("string slice with step")
            I.ctx.assume_lib(self.assumed[1])
            lo = to_z3(key.start) if key.start is not None else z3.IntVal(0)
            hi = to_z3(key.stop) if key.stop is not None else str_len(base)
            return substr(base, lo, hi)
        return NI

    def join_sym(self, I, st, sep, lst, node):
        o = st.obj(lst)
        n, g = as_symlist(st, o)
        return Rope((Tok("JOIN", sep=norm_str(sep), length=n, get=g),))


def struct_unpack(I, st, args, kwargs, node):
    fmt = norm_str(args[0])
    data = args[1]
    o = st.obj(data)
    n, g = as_symlist(st, o)
    want = {">I": 4, ">H": 2}.get(fmt)
    if want is None:
        raise OutOfSubset(f"struct.unpack format {fmt!r}")
    I.ctx.assume_lib(BytesModel.assumed[2])
    I.check(st, n == want, "Exception", "struct.unpack.length", getattr(node, "lineno", None))
    val = z3.IntVal(0)
    for k in range(want):
        val = val * 256 + to_z3(g(z3.IntVal(k)))
    return (z3.simplify(val),)
