"""Assumed contracts (stdlib, DESIGN 1.7): filtering list comprehension, sorted(key=), list.index on array-backed
symbolic lists.  Each is an uninterpreted *function of its input list* (array, length), so two program points
that apply the same operation to the same list obtain the same term; the axioms are the defining properties."""
from __future__ import annotations

import ast
import hashlib

import z3

from ..seqs import as_symlist, mk_symlist
from ..state import OutOfSubset, SymRaise
from ..values import ClassVal, ListObj, Ref, StrSort, fresh_name, to_z3

NI = NotImplemented
_FUN: dict = {}


def _funs(tag, sort):
    if tag not in _FUN:
        A = z3.ArraySort(z3.IntSort(), sort)
        _FUN[tag] = (z3.Function(f"{tag}_arr", A, z3.IntSort(), A), z3.Function(f"{tag}_len", A, z3.IntSort(), z3.IntSort()))
    return _FUN[tag]


def _arr_of(st, o: ListObj):
    if o.arr is None:
        raise OutOfSubset("list function on a list that is not array backed")
    return o.arr, (o.length if not o.concrete else z3.IntVal(len(o.items)))


class _Rename(ast.NodeTransformer):
    def __init__(self, old):
        self.old = old

    def visit_Name(self, n):
        return ast.copy_location(ast.Name(id="_x", ctx=n.ctx), n) if n.id == self.old else n


def pred_text(g):
    """Predicate of a filtering comprehension with the loop variable renamed to `_x` (alpha-normalised)."""
    import copy
    return " and ".join(ast.unparse(_Rename(g.target.id).visit(copy.deepcopy(c))) for c in g.ifs)


def filt_terms(text, A, n):
    tag = "filt_" + hashlib.sha1(text.encode()).hexdigest()[:8]
    fa, fl = _funs(tag, A.sort().range())
    return fa(A, n), fl(A, n)


def sorted_term(kname, A, n):
    fa, _ = _funs("sorted_by_" + kname, A.sort().range())
    return fa(A, n)


class ListFunModel:
    assumed = ["list comprehension with a filter: result = the elements satisfying the predicate (each occurs, nothing else occurs); "
               "a function of the input list",
               "sorted(xs, key=k): a permutation of xs ordered by k; a function of the input list",
               "list.index(x): first position of x, ValueError if absent"]

    def __init__(self, keys=None):
        self.keys = keys or {}       # source text of key lambda -> (name, z3 function elem->Int)

    def filter_comprehension(self, I, st, e, first):
        g = e.generators[0]
        if not (isinstance(e.elt, ast.Name) and isinstance(g.target, ast.Name) and e.elt.id == g.target.id):
            return NI
        src = st.obj(first) if isinstance(first, Ref) else None
        if not isinstance(src, ListObj):
            return NI
        free = {n.id for c in g.ifs for n in ast.walk(c) if isinstance(n, ast.Name)} - {g.target.id}
        from ..values import ModuleVal
        for nm in list(free):
            try:
                if isinstance(I.lookup(st, nm), ModuleVal):
                    free.discard(nm)         # a module name (e.g. `os`): the predicate is still a function of the element
            except Exception:
                pass
        if free:
            return NI
        A, n = _arr_of(st, src)
        text = pred_text(g)
        tag = "filt_" + hashlib.sha1(text.encode()).hexdigest()[:8]
        fa, fl = _funs(tag, A.sort().range())
        F, m = fa(A, n), fl(A, n)

        def pred(x):
            s2 = st.fork()
            s2.env = {"__parent__": s2.env, "__module__": s2.env.get("__module__"), g.target.id: x}
            I.ctx.mute += 1
            try:
                cs = [to_z3(I.eval_cond(s2, c)) for c in g.ifs]
            finally:
                I.ctx.mute -= 1
            return z3.And(*cs)
        k, j = z3.Int(fresh_name("fk")), z3.Int(fresh_name("fj"))
        I.ctx.assume_lib(self.assumed[0] + f" [predicate: {text}]")
        st.assume(m >= 0, m <= n,
                  z3.ForAll([k], z3.Implies(z3.And(0 <= k, k < m), z3.And(pred(F[k]), z3.Exists([j], z3.And(0 <= j, j < n, A[j] == F[k]))))),
                  z3.ForAll([j], z3.Implies(z3.And(0 <= j, j < n, pred(A[j])), z3.Exists([k], z3.And(0 <= k, k < m, F[k] == A[j])))))
        lo = ListObj(length=m, get=lambda i, F=F: F[to_z3(i)], fresh=True, elem=src.elem)
        lo.arr = F
        return st.alloc(lo)

    def sorted(self, I, st, args, kwargs, node):
        src = st.obj(args[0]) if isinstance(args[0], Ref) else None
        if not isinstance(src, ListObj) or "key" not in kwargs:
            raise OutOfSubset("sorted() without key / on non-list")
        keyfv = kwargs["key"]
        ktext = ast.unparse(keyfv.node.body) if hasattr(keyfv, "node") and isinstance(keyfv.node, ast.Lambda) else None
        if ktext not in self.keys:
            raise OutOfSubset(f"sorted() key {ktext!r} has no model")
        kname, kfn = self.keys[ktext]
        A, n = _arr_of(st, src)
        fa, _ = _funs("sorted_by_" + kname, A.sort().range())
        S = fa(A, n)
        a, b, j, k = (z3.Int(fresh_name(x)) for x in "abjk")
        I.ctx.assume_lib(self.assumed[1] + f" [key: {ktext}]")
        st.assume(z3.ForAll([a, b], z3.Implies(z3.And(0 <= a, a < b, b < n), kfn(S[a]) <= kfn(S[b]))),
                  z3.ForAll([k], z3.Implies(z3.And(0 <= k, k < n), z3.Exists([j], z3.And(0 <= j, j < n, A[j] == S[k])))),
                  z3.ForAll([j], z3.Implies(z3.And(0 <= j, j < n), z3.Exists([k], z3.And(0 <= k, k < n, S[k] == A[j])))))
        lo = ListObj(length=n, get=lambda i, S=S: S[to_z3(i)], fresh=True, elem=src.elem)
        lo.arr = S
        return st.alloc(lo)

    def list_index(self, I, st, ref, o, x, node):
        n, g = as_symlist(st, o)
        site = getattr(node, "lineno", None)
        j, k = z3.Int(fresh_name("ij")), z3.Int(fresh_name("ik"))
        xz = to_z3(x)
        found = z3.Exists([j], z3.And(0 <= j, j < n, g(j) == xz))
        I.ctx.assume_lib(self.assumed[2])
        I.check(st, found, "ValueError", "list.index.present", site)
        idx = z3.Int(fresh_name("index"))
        st.assume(0 <= idx, idx < n, g(idx) == xz, z3.ForAll([k], z3.Implies(z3.And(0 <= k, k < idx), g(k) != xz)))
        return idx
