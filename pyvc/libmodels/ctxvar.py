"""contextvars.ContextVar: the value is private to the current thread / task (CONTEXT_LOCAL provenance, DESIGN 1.6)."""
from __future__ import annotations

import contextvars

from ..values import RecObj, Ref

NI = NotImplemented


class ContextVarModel:
    assumed = ["contextvars.ContextVar.get/set read and write a per-thread (per-task) value; default on first read"]

    def convert(self, ctx, st, obj, what):
        if isinstance(obj, contextvars.ContextVar):
            cache = st.ghost.setdefault("__ctxvars__", {})
            if id(obj) not in cache:
                try:
                    default = obj.get()
                except LookupError:
                    default = None
                cache[id(obj)] = st.alloc(RecObj("ContextVar", {"value": ctx.convert_global(st, default, what + ".default")},
                                                 fresh=False, origin="CONTEXT_LOCAL"))
            return cache[id(obj)]
        return NI

    def call_method(self, I, st, recv, name, args, kwargs, node):
        if isinstance(recv, Ref) and isinstance(st.obj(recv), RecObj) and st.obj(recv).cls == "ContextVar":
            o = st.obj(recv)
            I.ctx.assume_lib(self.assumed[0])
            if name == "get":
                return o.fields["value"]
            if name == "set":
                st.effects.append(("ctxvar.set", recv.oid, getattr(node, "lineno", None)))
                o.fields["value"] = args[0]
                return None
            if name == "reset":
                raise NotImplementedError
        return NI
