"""Assumed contracts on the polars expression fragment used by the grouping service (DESIGN 1.7), with **Kleene** null
semantics: comparison with a null operand is null; `|` is Kleene OR; `when(c)` takes the `then` branch only where c is
true (not null); `ne_missing` treats null as a value; `shift(1)` makes row 0 null; `pl.col(name)` is resolved against the
frame given to `with_columns` (not against the frame the Python variable `df` names)."""
from __future__ import annotations

import z3

from ..seqs import mk_symlist
from ..state import OutOfSubset
from ..values import BoundMethod, Opt, Ref, StrSort, ValSort, fresh_name, lit, norm_str, to_z3, val_null
from .polars_model import DfObj, Series

NI = NotImplemented
COLIDX = z3.Function("column_index_of_name", StrSort, z3.IntSort())
NULLV = z3.Const("null_value", ValSort)          # the null cell value
from ..values import AXIOMS as _AX
_AX.append(val_null(NULLV))
_v = z3.Const('nv', ValSort)
_AX.append(z3.ForAll([_v], z3.Implies(val_null(_v), _v == NULLV)))      # null is a single value


class Expr:
    """A column expression: eval(frame DfObj | None) -> (isnull(i), value(i)) closures; kind 'val' | 'bool' | 'int'."""

    def __init__(self, fn, kind, name=None):
        self.fn, self.kind, self.name = fn, kind, name

    def at(self, frame):
        return self.fn(frame)


def series_expr(d, col):
    return Expr(lambda fr, d=d, col=col: ((lambda i: val_null(d.cell(i, col))), (lambda i: d.cell(i, col))), "val")


class ExprModel:
    assumed = ["polars expressions: != (Kleene), ne_missing, shift(1), | (Kleene OR), int_range, when/then/otherwise, lit, alias, with_columns; "
               "pl.col(name) is evaluated on the frame passed to with_columns"]

    def _df(self, st, v):
        if isinstance(v, Ref):
            o = st.heap.get(v.oid)
            if o is None:
                from ..state import LAZY
                if v.oid in LAZY:
                    o = st.obj(v)          # lazily allocated frame (element of a symbolic-length list of records)
            if isinstance(o, DfObj):
                return o
        return None

    # df[name] -> eager Series expression
    def get_item(self, I, st, base, key, node):
        d = self._df(st, base)
        k = norm_str(key)
        if d is not None and (isinstance(k, str) or (z3.is_expr(k) and k.sort() == StrSort)):
            I.ctx.assume_lib(self.assumed[0])
            e = series_expr(d, COLIDX(to_z3(k)))
            e.src = (base, COLIDX(to_z3(k)))
            return e
        if isinstance(base, Expr) and getattr(base, "src", None) is not None and not isinstance(key, slice):
            # Series[i]
            dref, col = base.src
            d = st.obj(dref)
            i = to_z3(key)
            I.check(st, z3.And(i >= 0, i < d.n), "IndexError", "series.index", getattr(node, "lineno", None))
            v = d.cell(i, col)
            return Opt(val_null(v), v)
        return NI

    def get_attr(self, I, st, base, attr, node):
        if isinstance(base, (Expr, _When, _Then)):
            return BoundMethod(base, attr)
        return NI

    def binop(self, I, st, op, a, b, node):
        import ast
        if isinstance(op, ast.BitOr) and isinstance(a, Expr) and isinstance(b, Expr):
            def fn(fr, a=a, b=b):
                an, av = a.at(fr)
                bn, bv = b.at(fr)
                ta = lambda i: z3.And(z3.Not(an(i)), av(i))
                tb = lambda i: z3.And(z3.Not(bn(i)), bv(i))
                val = lambda i: z3.Or(ta(i), tb(i))
                null = lambda i: z3.And(z3.Not(val(i)), z3.Or(an(i), bn(i)))
                return null, val
            return Expr(fn, "bool")
        return NI

    def compare(self, I, st, op, a, b, node):
        import ast
        if not (isinstance(a, Expr) or isinstance(b, Expr)):
            return NI
        if isinstance(op, (ast.NotEq, ast.Eq)):
            neg = isinstance(op, ast.NotEq)
            if isinstance(a, Expr) and isinstance(b, Expr):
                def fn(fr, a=a, b=b, neg=neg):
                    an, av = a.at(fr)
                    bn, bv = b.at(fr)
                    null = lambda i: z3.Or(an(i), bn(i))
                    val = lambda i: (av(i) != bv(i)) if neg else (av(i) == bv(i))
                    return null, val
                return Expr(fn, "bool")
            e, k = (a, b) if isinstance(a, Expr) else (b, a)
            kk = to_z3(k)

            def fn2(fr, e=e, kk=kk, neg=neg):
                en, ev = e.at(fr)
                return en, (lambda i: (ev(i) != kk) if neg else (ev(i) == kk))
            return Expr(fn2, "bool")
        return NI

    def call_method(self, I, st, recv, name, args, kwargs, node):
        d = self._df(st, recv)
        if d is not None and name == "with_columns":
            items = args
            if len(args) == 1 and isinstance(args[0], Ref) and not isinstance(st.heap.get(args[0].oid), DfObj):
                from ..seqs import iter_values
                items = iter_values(I, st, args[0], node)
            cur_ref, cur = recv, d
            news = []
            for e in items:
                if not isinstance(e, Expr) or e.name is None:
                    raise OutOfSubset("with_columns of an expression without alias")
                nul, val = e.at(d)          # all expressions of one call see the frame BEFORE the call
                news.append((COLIDX(to_z3(norm_str(e.name))), nul, val))
            old = d.cell

            def cell(r, c, old=old, news=news):
                res = old(r, c)
                for idx, nul, val in news:
                    res = z3.If(to_z3(c) == idx, z3.If(nul(to_z3(r)), NULLV, val(to_z3(r))), res)
                return res
            nd = DfObj(d.n, d.w, cell, d.colname)
            srcs = dict(getattr(d, "strfilled_sources", {}))
            for e in items:
                if getattr(e, "strfilled_of", None) is not None:
                    srcs[norm_str(e.name)] = e.strfilled_of
            nd.strfilled_sources = srcs
            nd.strfilled_frame = getattr(d, "strfilled_frame", d)
            return st.alloc(nd)
        if isinstance(recv, Expr):
            if name == "shift":
                k = args[0] if args else 1
                from ..ops import concrete_int
                if concrete_int(k) != 1:
                    raise OutOfSubset("shift by other than 1")

                def fn(fr, e=recv):
                    en, ev = e.at(fr)
                    return (lambda i: z3.Or(to_z3(i) == 0, en(to_z3(i) - 1))), (lambda i: ev(to_z3(i) - 1))
                return Expr(fn, recv.kind)
            if name == "ne_missing":
                b = args[0]

                def fn(fr, a=recv, b=b):
                    an, av = a.at(fr)
                    bn, bv = b.at(fr)
                    return (lambda i: z3.BoolVal(False)), (lambda i: z3.Or(an(i) != bn(i), z3.And(z3.Not(an(i)), z3.Not(bn(i)), av(i) != bv(i))))
                return Expr(fn, "bool")
            if name == "alias":
                e2 = Expr(recv.fn, recv.kind, name=args[0])
                e2.strfilled_of = getattr(recv, "strfilled_of", None)
                e2.cast_of = getattr(recv, "cast_of", None)
                return e2
            if name == "cast":
                # cast(pl.Utf8): the string form of the value (null stays null); remembered so that concat_str can build the composite key
                e2 = Expr(recv.fn, recv.kind)
                e2.cast_of = recv
                return e2
            if name == "fill_null":
                base = getattr(recv, "cast_of", None) or recv
                fill = args[0]

                def fn_fill(fr, base=base, fill=fill):
                    bn, bv = base.at(fr)
                    return (lambda i: z3.BoolVal(False)), (lambda i: z3.If(bn(i), STRFILL(to_z3(norm_str(fill))), bv(i)))
                e2 = Expr(fn_fill, "val")
                e2.strfilled_of = base
                return e2
            if name == "to_list":
                dref, col = getattr(recv, "src", (None, None))
                if dref is None:
                    raise OutOfSubset("to_list of a derived expression")
                d2 = st.obj(dref)
                return mk_symlist(st, d2.n, lambda j, d2=d2, col=col: Opt(val_null(d2.cell(j, col)), d2.cell(j, col)))
            raise OutOfSubset(f"expression method {name}")
        if isinstance(recv, _When) and name == "then":
            return _Then(recv.cond, args[0])
        if isinstance(recv, _Then) and name == "otherwise":
            other = args[0]
            cond, then = recv.cond, recv.then

            def fn(fr, cond=cond, then=then, other=other):
                cn, cv = cond.at(fr)
                tn, tv = then.at(fr) if isinstance(then, Expr) else ((lambda i: z3.BoolVal(then is None)), (lambda i: then))
                take = lambda i: z3.And(z3.Not(cn(i)), cv(i))
                if other is None:
                    on, ov = (lambda i: z3.BoolVal(True)), (lambda i: NULLV)
                elif isinstance(other, Expr):
                    on, ov = other.at(fr)
                else:
                    raise OutOfSubset("otherwise(<literal>)")
                return (lambda i: z3.If(take(i), tn(i), on(i))), (lambda i: z3.If(take(i), tv(i), ov(i)))
            return Expr(fn, "val")
        return NI


class _When:
    def __init__(self, cond):
        self.cond = cond


class _Then:
    def __init__(self, cond, then):
        self.cond, self.then = cond, then


def h_int_range(I, st, args, kwargs, node):
    return Expr(lambda fr: ((lambda i: z3.BoolVal(False)), (lambda i: to_z3(i))), "int")


def h_when(I, st, args, kwargs, node):
    return _When(args[0])


def h_col(I, st, args, kwargs, node):
    name = norm_str(args[0])

    def fn(fr, name=name):
        if fr is None:
            raise OutOfSubset("pl.col evaluated without a frame")
        idx = COLIDX(to_z3(name))
        return (lambda i: val_null(fr.cell(i, idx))), (lambda i: fr.cell(i, idx))
    return Expr(fn, "val")


def h_lit(I, st, args, kwargs, node):
    v = args[0]
    if isinstance(v, Opt):
        return Expr(lambda fr, v=v: ((lambda i: v.isnone), (lambda i: v.payload)), "val")
    if v is None:
        return Expr(lambda fr: ((lambda i: z3.BoolVal(True)), (lambda i: NULLV)), "val")
    return Expr(lambda fr, v=v: ((lambda i: z3.BoolVal(False)), (lambda i: to_z3(v))), "val")


STRFILL = z3.Function("value_of_fill_string", StrSort, ValSort)
_KEYCAT = {}


def keycat(n):
    """composite key of n (null-as-value) column values: pl.concat_str of their null-filled string casts with a separator"""
    if n not in _KEYCAT:
        _KEYCAT[n] = z3.Function(f"composite_group_key_{n}", *([ValSort] * n + [ValSort]))
    return _KEYCAT[n]


def h_concat_str(I, st, args, kwargs, node):
    """pl.concat_str([names of null-filled string columns], separator=...): row i -> KEY_n(v_0(i), ..., v_{n-1}(i)) over the ORIGINAL
    column values (null as a value).  The contract using it states the injectivity precondition of this encoding."""
    from ..seqs import iter_values
    names = [norm_str(x) for x in iter_values(I, st, args[0], node)]
    if not all(isinstance(x, str) for x in names):
        raise OutOfSubset("concat_str over non-literal column names")

    def fn(fr, names=names):
        if fr is None:
            raise OutOfSubset("concat_str evaluated without a frame")
        src = getattr(fr, "strfilled_sources", {})
        vals = []
        for nm in names:
            base = src.get(nm)
            if base is None:
                raise OutOfSubset(f"concat_str over column {nm} that is not a null-filled string cast")
            vals.append(base)
        K = keycat(len(vals))

        def value(i, vals=vals, K=K, fr=fr):
            parts = []
            for b in vals:
                bn, bv = b.at(fr.strfilled_frame)
                parts.append(z3.If(bn(i), NULLV, bv(i)))
            return K(*parts)
        return (lambda i: z3.BoolVal(False)), value
    return Expr(fn, "val")


HANDLERS = {"pl.int_range": h_int_range, "pl.when": h_when, "pl.col": h_col, "pl.lit": h_lit, "pl.concat_str": h_concat_str}
