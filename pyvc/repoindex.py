"""Index of the target source tree: AST of every module under <repo>/src/rtflite, re-read on every run.

Nothing is cached across runs; `sha256` of the source segment of every function that is interpreted is
reported in the evidence.  Real module objects are imported from the *same* tree (sys.path is pointed
at <repo>/src before the first import) so that finite tables (BORDER_CODES, colour table, font maps)
and class attribute sets come from the code under verification, not from a transcription.
"""
from __future__ import annotations

import ast
import hashlib
import importlib
import os
import sys


class RepoIndex:
    def __init__(self, repo: str):
        self.repo = os.path.abspath(repo)
        self.src = os.path.join(self.repo, "src")
        self.pkg = os.path.join(self.src, "rtflite")
        self.modules: dict[str, ast.Module] = {}      # 'rtflite.row' -> ast
        self.files: dict[str, str] = {}               # 'rtflite.row' -> path
        self.text: dict[str, str] = {}
        for root, _dirs, files in os.walk(self.pkg):
            for f in files:
                if f.endswith(".py"):
                    p = os.path.join(root, f)
                    rel = os.path.relpath(p, self.src)[:-3].replace(os.sep, ".")
                    if rel.endswith(".__init__"):
                        rel = rel[: -len(".__init__")]
                    txt = open(p, encoding="utf-8").read()
                    try:
                        self.modules[rel] = ast.parse(txt)
                    except SyntaxError:
                        continue
                    self.files[rel] = p
                    self.text[rel] = txt
        self._ensure_path()

    # ---- real objects ---------------------------------------------------------------------------
    def _ensure_path(self):
        if sys.path[0] != self.src:
            sys.path.insert(0, self.src)
        loaded = sys.modules.get("rtflite")
        if loaded is not None and not os.path.abspath(getattr(loaded, "__file__", "")).startswith(self.src):
            for k in [k for k in sys.modules if k == "rtflite" or k.startswith("rtflite.")]:
                del sys.modules[k]

    def real_module(self, modname: str):
        self._ensure_path()
        return importlib.import_module(modname)

    # ---- lookup -----------------------------------------------------------------------------------
    def modname_of_relpath(self, relpath: str) -> str:
        """'pagination/core.py' -> 'rtflite.pagination.core'"""
        m = "rtflite." + relpath[:-3].replace("/", ".")
        if m.endswith(".__init__"):
            m = m[: -len(".__init__")]
        return m

    def find_function(self, modname: str, qualname: str, lineno: int | None = None) -> ast.FunctionDef:
        mod = self.modules[modname]
        parts = qualname.split(".")
        body = mod.body
        node = None
        for i, part in enumerate(parts):
            found = None
            for n in body:
                if isinstance(n, (ast.FunctionDef, ast.ClassDef, ast.AsyncFunctionDef)) and n.name == part:
                    if i == len(parts) - 1 and lineno is not None and isinstance(n, ast.FunctionDef):
                        first = min([n.lineno] + [d.lineno for d in n.decorator_list])
                        if not (first <= lineno <= n.lineno):
                            continue
                    found = n
            if found is None:
                # nested function inside a function body: search all statements recursively
                for n in ast.walk(node) if node is not None else []:
                    if isinstance(n, ast.FunctionDef) and n.name == part and n is not node:
                        found = n
                        break
            if found is None:
                raise KeyError(f"{modname}::{qualname} not found (at '{part}')")
            node = found
            body = found.body
        if not isinstance(node, ast.FunctionDef):
            raise KeyError(f"{modname}::{qualname} is not a function")
        return node

    def find_class(self, modname: str, clsname: str) -> ast.ClassDef | None:
        for n in self.modules[modname].body:
            if isinstance(n, ast.ClassDef) and n.name == clsname:
                return n
        return None

    def find_method(self, pyclass, name: str):
        """Resolve a method through the real MRO; returns (modname, qualname, FunctionDef) or None."""
        for klass in pyclass.__mro__:
            if name in klass.__dict__:
                modname = klass.__module__
                if modname not in self.modules:
                    return None
                cd = self.find_class(modname, klass.__name__)
                if cd is None:
                    return None
                for n in cd.body:
                    if isinstance(n, ast.FunctionDef) and n.name == name:
                        return modname, f"{klass.__name__}.{name}", n
                return None
        return None

    def segment_sha(self, modname: str, node: ast.AST) -> str:
        seg = ast.get_source_segment(self.text[modname], node) or ast.unparse(node)
        return hashlib.sha256(seg.encode()).hexdigest()

    def func_info(self, modname: str, qualname: str, node: ast.FunctionDef) -> dict:
        kinds: dict[str, int] = {}
        for n in ast.walk(node):
            kinds[type(n).__name__] = kinds.get(type(n).__name__, 0) + 1
        return {
            "file": os.path.relpath(self.files[modname], self.repo),
            "qualname": qualname,
            "lines": [node.lineno, node.end_lineno],
            "sha256": self.segment_sha(modname, node),
            "ast_nodes": sum(kinds.values()),
        }
