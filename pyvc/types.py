"""Type descriptors used by contracts to create symbolic inputs and by the loop cutter to havoc variables."""
from __future__ import annotations

import z3

from .state import lazy_alloc
from .values import (AXIOMS, DictObj, FrameObj, ListObj, Opt, RecObj, Ref, StrSort, ValSort, fresh_name, str_len)


class T:
    """Descriptor: kind + parameters."""

    def __init__(self, kind, **kw):
        self.kind = kind
        self.kw = kw

    def __repr__(self):
        return f"T.{self.kind}({self.kw})" if self.kw else f"T.{self.kind}"


Int = T("int")
Real = T("real")
Bool = T("bool")
Str = T("str")
Val = T("val")
NoneT = T("none")


def List(elem, minlen=0, maxlen=None):
    return T("list", elem=elem, minlen=minlen, maxlen=maxlen)


def Matrix(elem, minrows=1, mincols=1):
    """Rectangular nested list (all rows have the same length)."""
    return T("matrix", elem=elem, minrows=minrows, mincols=mincols)


def Option(t):
    return T("opt", t=t)


def Rec(cls, pyclass=None, origin="CALLER", **fields):
    return T("rec", cls=cls, pyclass=pyclass, fields=fields, origin=origin)


def Const(v):
    return T("const", v=v)


def Frame(**cols):
    return T("frame", cols=cols)


def DictOf(**items):
    return T("dict", items=items)


_SORTS = {"int": z3.IntSort(), "real": z3.RealSort(), "bool": z3.BoolSort(), "str": StrSort, "val": ValSort,
          "lines": z3.DeclareSort("Lines")}


def sort_of(t: T):
    return _SORTS[t.kind]


def fresh_value(st, t: T, name: str, fresh=False):
    """Create a fresh symbolic value of descriptor `t`; well-formedness facts are assumed in `st`."""
    k = t.kind
    if k in _SORTS:
        return z3.Const(fresh_name(name), _SORTS[k])
    if k == "none":
        return None
    if k == "const":
        return t.kw["v"]
    if k == "opt":
        return Opt(z3.Bool(fresh_name(name + ".isnone")), fresh_value(st, t.kw["t"], name, fresh))
    if k == "list":
        elem = t.kw["elem"]
        n = z3.Int(fresh_name(name + ".len"))
        st.assume(n >= t.kw["minlen"])
        if t.kw["maxlen"] is not None:
            st.assume(n <= t.kw["maxlen"])
        get = elem_getter(st, elem, name)
        lo = ListObj(length=n, get=get, elem=elem, fresh=fresh)
        lo.arr = getattr(get, "arr", None)
        return st.alloc(lo)
    if k == "matrix":
        elem = t.kw["elem"]
        rows = z3.Int(fresh_name(name + ".rows"))
        cols = z3.Int(fresh_name(name + ".cols"))
        st.assume(rows >= t.kw["minrows"], cols >= t.kw["mincols"])
        f = z3.Function(fresh_name(name + ".cell"), z3.IntSort(), z3.IntSort(), sort_of(elem))
        from .values import MatrixObj
        return st.alloc(MatrixObj(rows, cols, (lambda r, c, f=f: f(r if z3.is_expr(r) else z3.IntVal(r), c if z3.is_expr(c) else z3.IntVal(c))),
                                  fresh=fresh, elem=elem))
    if k == "rec":
        fields = {fn: fresh_value(st, ft, f"{name}.{fn}", fresh) for fn, ft in t.kw["fields"].items()}
        return st.alloc(RecObj(t.kw["cls"], fields, pyclass=t.kw["pyclass"], fresh=fresh, origin=t.kw["origin"]))
    if k == "dict":
        items = {kk: fresh_value(st, vt, f"{name}[{kk}]", fresh) for kk, vt in t.kw["items"].items()}
        return st.alloc(DictObj(items=items, fresh=fresh))
    if k == "frame":
        n = z3.Int(fresh_name(name + ".n"))
        st.assume(n >= 0)
        cols = {c: z3.Array(fresh_name(f"{name}.{c}"), z3.IntSort(), sort_of(ct)) for c, ct in t.kw["cols"].items()}
        return st.alloc(FrameObj(n, cols, fresh=fresh))
    raise ValueError(f"fresh_value: unknown descriptor {t!r}")


def elem_getter(st, elem: T, name: str):
    """Getter idx -> element for a fresh symbolic list of `elem`."""
    if elem.kind in _SORTS:
        arr = z3.Array(fresh_name(name + ".arr"), z3.IntSort(), _SORTS[elem.kind])
        g = lambda j, arr=arr: z3.Select(arr, j if z3.is_expr(j) else z3.IntVal(j))
        g.arr = arr
        return g
    if elem.kind == "opt" and elem.kw["t"].kind in _SORTS:
        arr = z3.Array(fresh_name(name + ".arr"), z3.IntSort(), _SORTS[elem.kw["t"].kind])
        nn = z3.Array(fresh_name(name + ".isnone"), z3.IntSort(), z3.BoolSort())
        return lambda j, arr=arr, nn=nn: Opt(z3.Select(nn, j if z3.is_expr(j) else z3.IntVal(j)),
                                             z3.Select(arr, j if z3.is_expr(j) else z3.IntVal(j)))
    # structured elements: one fresh object per distinct index term (memoised), fields are functions of the index
    memo: dict = {}

    def get(j, elem=elem):
        key = str(z3.simplify(j)) if z3.is_expr(j) else str(j)
        if key not in memo:
            memo[key] = indexed_value(st, elem, name, j if z3.is_expr(j) else z3.IntVal(j))
        return memo[key]
    return get


_indexed_funcs: dict = {}


def indexed_value(st, t: T, name: str, j):
    """Value of descriptor `t` whose scalar leaves are uninterpreted functions of the index term `j`
    (same function for every index, so two reads at equal indices agree)."""
    k = t.kind
    if k in _SORTS:
        key = (name, k)
        if key not in _indexed_funcs:
            _indexed_funcs[key] = z3.Function(fresh_name(name + ".f"), z3.IntSort(), _SORTS[k])
        return _indexed_funcs[key](j)
    if k == "opt":
        key = (name, "isnone")
        if key not in _indexed_funcs:
            _indexed_funcs[key] = z3.Function(fresh_name(name + ".isnone"), z3.IntSort(), z3.BoolSort())
        return Opt(_indexed_funcs[key](j), indexed_value(st, t.kw["t"], name + ".some", j))
    if k == "rec":
        fields = {fn: indexed_value(st, ft, f"{name}.{fn}", j) for fn, ft in t.kw["fields"].items()}
        return lazy_alloc(RecObj(t.kw["cls"], fields, pyclass=t.kw["pyclass"], fresh=False, origin=t.kw["origin"]))
    if k == "const":
        return t.kw["v"]
    if k == "none":
        return None
    if k == "list":
        key = (name, "len")
        if key not in _indexed_funcs:
            _indexed_funcs[key] = z3.Function(fresh_name(name + ".len"), z3.IntSort(), z3.IntSort())
            _q = z3.Int("q!len")
            AXIOMS.append(z3.ForAll([_q], _indexed_funcs[key](_q) >= t.kw["minlen"]))
        n = _indexed_funcs[key](j)
        elem = t.kw["elem"]
        if elem.kind in _SORTS:
            key2 = (name, "cell", elem.kind)
            if key2 not in _indexed_funcs:
                _indexed_funcs[key2] = z3.Function(fresh_name(name + ".cell"), z3.IntSort(), z3.IntSort(), _SORTS[elem.kind])
            f = _indexed_funcs[key2]
            return lazy_alloc(ListObj(length=n, get=(lambda c, f=f, j=j: f(j, c if z3.is_expr(c) else z3.IntVal(c))), elem=elem, fresh=False))
        raise ValueError("indexed list of structured elements")
    raise ValueError(f"indexed_value: {t!r}")


def desc_of_value(st, v):
    """Best-effort descriptor of an existing value (for havoc)."""
    from fractions import Fraction
    if isinstance(v, bool):
        return Bool
    if isinstance(v, int):
        return Int
    if isinstance(v, (float, Fraction)):
        return Real
    if isinstance(v, str):
        return Str
    if z3.is_expr(v):
        s = v.sort()
        for k, so in _SORTS.items():
            if s == so:
                return T(k)
    if isinstance(v, Opt):
        inner = desc_of_value(st, v.payload)
        return None if inner is None else Option(inner)
    if isinstance(v, Ref):
        o = st.obj(v)
        if isinstance(o, ListObj):
            if o.elem is not None:
                return List(o.elem)
            if o.concrete and o.items:
                ds = [desc_of_value(st, x) for x in o.items]
                if ds[0] is not None and all(d is not None and d.kind == ds[0].kind for d in ds):
                    return List(ds[0])
            return None
    return None
