"""Attribute access and stores."""
from __future__ import annotations

import inspect

import z3

from .state import OutOfSubset, SymRaise
from .values import (Unknown, BoundMethod, ClassVal, Cursor, DictObj, FrameObj, FuncVal, ListObj, ModuleVal, Opt, RecObj, Ref, Rope,
                     SetObj, is_strterm, norm_str)

_MISSING = object()


_INIT_ASSIGNS = {}


def _assigned_in_init(pyclass, attr):
    """Does some `__init__` along the class's MRO (source available) contain `self.<attr> = ...`?"""
    import ast as _ast, inspect as _inspect, textwrap as _tw
    key = (pyclass, attr)
    if key in _INIT_ASSIGNS:
        return _INIT_ASSIGNS[key]
    found = False
    for klass in getattr(pyclass, "__mro__", ()):
        init = vars(klass).get("__init__")
        if init is None:
            continue
        try:
            tree = _ast.parse(_tw.dedent(_inspect.getsource(init)))
        except Exception:
            continue
        for n in _ast.walk(tree):
            if isinstance(n, _ast.Attribute) and n.attr == attr and isinstance(n.ctx, _ast.Store) and isinstance(n.value, _ast.Name) and n.value.id == "self":
                found = True
    _INIT_ASSIGNS[key] = found
    return found


def get_attr(I, st, base, attr, node):
    site = getattr(node, "lineno", None)
    base = norm_str(base)
    if isinstance(base, Opt):
        I.check(st, z3.Not(base.isnone), "AttributeError", f"attr.{attr}.not_none", site)
        base = base.payload
    if base is None:
        raise SymRaise(ClassVal("AttributeError", AttributeError), st, f"'NoneType' object has no attribute '{attr}'", site)
    hook = I.ctx.lib_get_attr(I, st, base, attr, node)
    if hook is not NotImplemented:
        return hook
    if isinstance(base, Ref):
        o = st.obj(base)
        if isinstance(o, RecObj):
            if attr in o.fields:
                v = o.fields[attr]
                if callable(v) and getattr(v, "_lazy_field", False):
                    v = v(st)
                    o.fields[attr] = v
                return v
            if o.pyclass is not None:
                r = class_attr(I, st, o.pyclass, attr, base, node)
                if r is not _MISSING:
                    return r
            if o.pyclass is None:
                # a record the contract made up to stand for a real object, without the real class behind it: whether the real object has
                # this attribute is not known to the model - the contract does not describe this version of the code (undecided, never a
                # violation; the property's native replayer decides)
                from .state import ContractError
                raise ContractError(f"contract does not bind: the model record '{o.cls}' of this contract has no attribute '{attr}' (line {site})")
            if not getattr(o, "fresh", True) and _assigned_in_init(o.pyclass, attr):
                # the record was set up by the contract (not by running the real constructor), and the real constructor of this version of the
                # class assigns this attribute: the contract's set-up no longer describes the object - undecided, not the program's AttributeError
                from .state import ContractError
                raise ContractError(f"contract does not bind: '{o.cls}.__init__' assigns '{attr}', which the contract's set-up of that object does not provide (line {site})")
            raise SymRaise(ClassVal("AttributeError", AttributeError), st, f"'{o.cls}' object has no attribute '{attr}'", site)
        if isinstance(o, (ListObj, DictObj, SetObj, FrameObj)):
            return BoundMethod(base, attr)
    if isinstance(base, (str, Rope)) or is_strterm(base):
        return BoundMethod(base, attr)
    if isinstance(base, ClassVal):
        if base.pyclass is None:
            raise OutOfSubset(f"attribute of unknown class {base.name}")
        r = class_attr(I, st, base.pyclass, attr, None, node)
        if r is _MISSING:
            if isinstance(base.pyclass, type) and issubclass(base.pyclass, BaseException) and st.env.get("__active_exc__") is base:
                # instance data of the exception caught by the enclosing `except ... as e` (set in __init__, not visible on the class): opaque
                import z3 as _z3
                from .values import StrSort as _S, fresh_name as _fn
                return _z3.Const(_fn(f"exc.{attr}"), _S)
            raise SymRaise(ClassVal("AttributeError", AttributeError), st,
                           f"type object '{base.name}' has no attribute '{attr}'", site)
        return r
    if isinstance(base, ModuleVal):
        return I.ctx.import_name(base.name, attr)
    if isinstance(base, (FuncVal, BoundMethod)):
        raise OutOfSubset(f"attribute '{attr}' of a function")
    if isinstance(base, tuple):
        raise OutOfSubset(f"attribute '{attr}' of a tuple")
    raise OutOfSubset(f"attribute '{attr}' of {base!r}")


def class_attr(I, st, pyclass, attr, recv, node):
    """Attribute found on the real class (methods, class constants)."""
    raw = _MISSING
    owner = None
    if attr == "model_fields" and hasattr(pyclass, "model_fields"):
        mf = getattr(pyclass, "model_fields")
        return st.alloc(DictObj(items={k: Unknown(f"FieldInfo({k})") for k in mf}, fresh=True))
    for klass in pyclass.__mro__:
        if attr in klass.__dict__:
            raw = klass.__dict__[attr]
            owner = klass
            break
    if raw is _MISSING:
        # pydantic model fields with defaults are not class attributes in v2; treat declared fields as present
        mf = getattr(pyclass, "model_fields", None)
        if recv is not None and mf and attr in mf:
            return I.ctx.convert_global(st, mf[attr].default, f"{pyclass.__name__}.{attr}")
        return _MISSING
    if isinstance(raw, staticmethod):
        return I.ctx.func_from_real(raw.__func__, None)
    if isinstance(raw, classmethod):
        return I.ctx.func_from_real(raw.__func__, ClassVal(pyclass.__name__, pyclass))
    if inspect.isfunction(raw):
        if recv is None:
            return I.ctx.func_from_real(raw, None)
        return I.ctx.func_from_real(raw, recv)
    if isinstance(raw, property):
        if recv is None or raw.fget is None:
            if isinstance(pyclass, type) and issubclass(pyclass, BaseException):
                # `except X as e: ... e.stdout ...`: the caught exception is represented by its class; a data attribute of it is an opaque value
                # (it only ever feeds a message)
                import z3 as _z3
                from .values import StrSort as _S, fresh_name as _fn
                return _z3.Const(_fn(f"exc.{attr}"), _S)
            raise OutOfSubset(f"property {pyclass.__name__}.{attr}")
        from .calls import call_function
        return call_function(I, st, I.ctx.func_from_real(raw.fget, recv), [], {}, node)
    if type(raw).__name__ in ("PydanticDescriptorProxy", "ModelPrivateAttr", "member_descriptor", "getset_descriptor"):
        return _MISSING
    return I.ctx.convert_global(st, raw, f"{owner.__name__}.{attr}")


def set_attr(I, st, base, attr, v, node):
    site = getattr(node, "lineno", None)
    if isinstance(base, Opt):
        I.check(st, z3.Not(base.isnone), "AttributeError", f"store.{attr}.not_none", site)
        base = base.payload
    if base is None:
        raise SymRaise(ClassVal("AttributeError", AttributeError), st, f"store to attribute '{attr}' of None", site)
    hook = I.ctx.lib_set_attr(I, st, base, attr, v, node)
    if hook is not NotImplemented:
        return
    if isinstance(base, Ref):
        o = st.obj(base)
        if isinstance(o, RecObj):
            if o.pyclass is not None and attr not in o.fields:
                for klass in o.pyclass.__mro__:
                    raw = klass.__dict__.get(attr)
                    if isinstance(raw, property):
                        if raw.fset is None:
                            raise SymRaise(ClassVal("AttributeError", AttributeError), st, f"can't set attribute '{attr}'", site)
                        from .calls import call_function
                        call_function(I, st, I.ctx.func_from_real(raw.fset, base), [v], {}, node)
                        return
                    if raw is not None:
                        break
            I.ctx.frame_store(I, st, base, node, attr)
            o.fields[attr] = v
            return
    raise OutOfSubset(f"attribute store on {base!r}")
