"""Sequences, dicts, sets: indexing, slicing, membership, iteration, comprehensions."""
from __future__ import annotations

import ast

import z3

from . import ops
from .ops import concrete_bool, concrete_int, same_kind_eq, truth
from .state import OutOfSubset, SymRaise
from .values import (ClassVal, Cursor, DictObj, FrameObj, ListObj, MatrixObj, Opt, RecObj, Ref, RowView, Rope, SetObj, StrSort, ValSort, fresh_name,
                     is_strterm, lit, norm_str, to_z3)


class RangeVal:
    __slots__ = ("start", "stop", "step")

    def __init__(self, start, stop, step=1):
        self.start, self.stop, self.step = start, stop, step


class EnumVal:
    __slots__ = ("inner", "start")

    def __init__(self, inner, start=0):
        self.inner, self.start = inner, start


class ZipVal:
    __slots__ = ("inners", "strict")

    def __init__(self, inners, strict=False):
        self.inners, self.strict = inners, strict


class Guarded:
    """Iteration item that exists only when `cond` holds (conditionally present dict key)."""
    __slots__ = ("cond", "value")

    def __init__(self, cond, value):
        self.cond, self.value = cond, value


def mk_list(st, items):
    return st.alloc(ListObj(items=list(items)))


def mk_symlist(st, length, get, elem=None, fresh=True):
    return st.alloc(ListObj(length=length, get=get, elem=elem, fresh=fresh))


def seq_view(st, v):
    """(length term, getter) of a list-like value (ListObj ref, MatrixObj ref, RowView), else None."""
    if isinstance(v, RowView):
        m = st.obj(v.matrix)
        return m.cols, (lambda c, v=v: st.obj(v.matrix).cell(to_z3(v.r), to_z3(c)))
    if isinstance(v, Ref):
        o = st.obj(v)
        if isinstance(o, ListObj):
            return as_symlist(st, o)
        if isinstance(o, MatrixObj):
            return o.rows, (lambda r, v=v: RowView(v, to_z3(r)))
    return None


def safe_view(st, o, default):
    """(length, getter) for invariants: reading an empty concrete list yields `default` (only ever under a vacuous range)."""
    if isinstance(o, ListObj) and o.concrete and not o.items:
        return z3.IntVal(0), (lambda j: default)
    return as_symlist(st, o)


def as_symlist(st, o):
    """(length term, getter) view of any ListObj."""
    if isinstance(o, MatrixObj):
        raise OutOfSubset("as_symlist on a matrix object (use seq_view)")
    if not o.concrete:
        return o.length, o.get
    items = list(o.items)
    n = len(items)

    def get(i, items=items):
        ci = concrete_int(i)
        if ci is not None:
            return items[ci]
        if not items:
            raise OutOfSubset("index into empty list")
        return ite_chain(st, [(i == k, items[k]) for k in range(n - 1)], items[n - 1])
    return z3.IntVal(n), get


def ite_chain(st, cases, default):
    """Value-level if/elif chain; all values must be mergeable scalars."""
    res = default
    for c, v in reversed(cases):
        res = ite(st, c, v, res)
    return res


def ite(st, c, a, b):
    cb = c if isinstance(c, bool) else concrete_bool(c)
    if cb is True:
        return a
    if cb is False:
        return b
    if a is b:
        return a
    a, b = norm_str(a), norm_str(b)
    if isinstance(a, Opt) or isinstance(b, Opt) or a is None or b is None:
        oa = a if isinstance(a, Opt) else Opt(z3.BoolVal(a is None), a)
        ob = b if isinstance(b, Opt) else Opt(z3.BoolVal(b is None), b)
        if a is None:
            payload = ob.payload
        elif b is None:
            payload = oa.payload
        else:
            payload = ite(st, c, oa.payload, ob.payload)
        return Opt(z3.If(c, oa.isnone, ob.isnone), payload)
    if isinstance(a, Ref) and isinstance(b, Ref) and a.oid == b.oid:
        return a
    if isinstance(a, Cursor) and isinstance(b, Cursor) and a.frame == b.frame:
        return Cursor(a.frame, z3.If(c, to_z3(a.idx), to_z3(b.idx)))
    if isinstance(a, RowView) and isinstance(b, RowView) and a.matrix == b.matrix:
        return RowView(a.matrix, z3.If(c, to_z3(a.r), to_z3(b.r)))
    if isinstance(a, (Ref, RowView)) and isinstance(b, (Ref, RowView)) and st is not None:
        va, vb = seq_view(st, a), seq_view(st, b)
        if va is not None and vb is not None:
            (la, ga), (lb, gb) = va, vb
            fa = st.obj(a).fresh if isinstance(a, Ref) else True
            fb = st.obj(b).fresh if isinstance(b, Ref) else True
            return st.alloc(ListObj(length=z3.If(c, to_z3(la), to_z3(lb)), get=lambda j, c=c, ga=ga, gb=gb: ite(st, c, ga(j), gb(j)), fresh=fa and fb))
    if isinstance(a, tuple) and isinstance(b, tuple) and len(a) == len(b):
        return tuple(ite(st, c, x, y) for x, y in zip(a, b))
    try:
        za, zb = to_z3(_unfrac(a)), to_z3(_unfrac(b))
    except TypeError:
        raise OutOfSubset(f"cannot merge values {a!r} / {b!r}")
    if za.sort() != zb.sort():
        if (z3.is_int(za) or z3.is_real(za)) and (z3.is_int(zb) or z3.is_real(zb)):
            za, zb = ops.to_real(za), ops.to_real(zb)
        else:
            raise OutOfSubset(f"cannot merge values of sorts {za.sort()} / {zb.sort()}")
    if za.eq(zb):
        return a
    return z3.If(c, za, zb)


def _unfrac(v):
    return ops._unfrac(v)


# ----------------------------------------------------------------------------------------------
def get_item(I, st, base, key, node):
    site = getattr(node, "lineno", None)
    base = norm_str(base)
    if isinstance(base, Opt):
        I.check(st, z3.Not(base.isnone), "TypeError", "subscript.not_none", site)
        base = base.payload
    if base is None:
        raise SymRaise(ClassVal("TypeError", TypeError), st, "subscript of None", site)
    hook = I.ctx.lib_get_item(I, st, base, key, node)
    if hook is not NotImplemented:
        return hook
    if isinstance(base, tuple):
        if isinstance(key, slice):
            return base[_cslice(key)]
        ci = concrete_int(key)
        if ci is None:
            I.check(st, z3.And(key >= 0, key < len(base)), "IndexError", "tuple.index", site)
            return ite_chain(st, [(key == k, base[k]) for k in range(len(base) - 1)], base[-1])
        if not -len(base) <= ci < len(base):
            raise SymRaise(ClassVal("IndexError", IndexError), st, "tuple index", site)
        return base[ci]
    if isinstance(base, str):
        if isinstance(key, slice):
            return base[_cslice(key)]
        ci = concrete_int(key)
        if ci is not None:
            if not -len(base) <= ci < len(base):
                raise SymRaise(ClassVal("IndexError", IndexError), st, "string index", site)
            return base[ci]
        raise OutOfSubset("symbolic index into a literal string")
    if isinstance(base, Cursor):
        fr = st.obj(base.frame)
        k = norm_str(key)
        if not isinstance(k, str) or k not in fr.cols:
            raise OutOfSubset(f"row key {key!r}")
        return z3.Select(fr.cols[k], to_z3(base.idx))
    if isinstance(base, RowView) or (isinstance(base, Ref) and isinstance(st.obj(base), MatrixObj)):
        n, g = seq_view(st, base)
        tmp = ListObj(length=n, get=g)
        return list_get(I, st, tmp, key, site)
    if isinstance(base, Ref):
        o = st.obj(base)
        if isinstance(o, ListObj):
            return list_get(I, st, o, key, site)
        if isinstance(o, DictObj):
            return dict_get(I, st, o, key, site, strict=True)
        if isinstance(o, RecObj):
            raise OutOfSubset(f"subscript of object {o.cls}")
    raise OutOfSubset(f"subscript of {base!r}")


def _cslice(sl):
    def c(x):
        if x is None:
            return None
        ci = concrete_int(x)
        if ci is None:
            raise OutOfSubset("symbolic slice bound on a concrete sequence")
        return ci
    return slice(c(sl.start), c(sl.stop), c(sl.step))


def list_get(I, st, o: ListObj, key, site):
    if isinstance(key, slice):
        return list_slice(I, st, o, key, site)
    if isinstance(key, Opt) or key is None or isinstance(key, (str, Rope)):
        raise SymRaise(ClassVal("TypeError", TypeError), st, "list index type", site)
    ci = concrete_int(key)
    if o.concrete:
        n = len(o.items)
        if ci is not None:
            if not -n <= ci < n:
                raise SymRaise(ClassVal("IndexError", IndexError), st, f"list index {ci} out of range {n}", site)
            return o.items[ci]
        I.check(st, z3.And(key >= 0, key < n), "IndexError", "list.index", site)
        if n == 0:
            raise SymRaise(ClassVal("IndexError", IndexError), st, "index into empty list", site)
        return ite_chain(st, [(key == k, o.items[k]) for k in range(n - 1)], o.items[n - 1])
    if ci is not None and ci < 0:
        I.check(st, o.length >= -ci, "IndexError", "list.index", site)
        return o.get(o.length + ci)
    idx = to_z3(key)
    I.check(st, z3.And(idx >= 0, idx < o.length), "IndexError", "list.index", site)
    return o.get(idx)


def list_slice(I, st, o: ListObj, sl, site):
    if sl.step is not None and concrete_int(sl.step) != 1:
        raise OutOfSubset("slice with step")
    if o.concrete:
        try:
            cs = _cslice(sl)
            return mk_list(st, o.items[cs])
        except OutOfSubset:
            pass
    length, get = as_symlist(st, o)

    def bound(x, default):
        if x is None:
            return default
        ci = concrete_int(x)
        if ci is not None and ci < 0:
            v = length + ci
            return z3.If(v < 0, 0, v)
        xv = to_z3(x)
        if ci is None:
            xv = z3.If(xv < 0, z3.If(length + xv < 0, 0, length + xv), xv)
        return z3.If(xv > length, length, xv)
    lo = bound(sl.start, z3.IntVal(0))
    hi = bound(sl.stop, length)
    n = z3.simplify(z3.If(hi - lo < 0, 0, hi - lo))
    lo_s = z3.simplify(lo)
    cn = concrete_int(n)
    clo = concrete_int(lo_s)
    if cn is not None and clo is not None and cn <= 64:
        return mk_list(st, [get(z3.IntVal(clo + k)) for k in range(cn)])
    return mk_symlist(st, n, lambda j, lo_s=lo_s, get=get: get(lo_s + j), elem=o.elem)


def dict_get(I, st, o: DictObj, key, site, strict=True, default=None):
    key = norm_str(key)
    if is_strterm(key):
        nm = I.ctx.key_name(st, key)
        if nm is not None:
            key = nm
    if isinstance(key, (str, int, bool, tuple)) or key is None:
        if key in o.items:
            pres = o.present.get(key, True)
            if pres is True:
                return o.items[key]
            if strict:
                I.check(st, to_z3(pres), "KeyError", "dict.key", site)
                return o.items[key]
            return ite(st, to_z3(pres), o.items[key], default)
        if strict:
            raise SymRaise(ClassVal("KeyError", KeyError), st, f"key {key!r}", site)
        return default
    from .values import Chr
    if isinstance(key, Rope) and len(key.pieces) == 1 and isinstance(key.pieces[0], Chr):
        cp = key.pieces[0].cp
        keys = [k for k in o.items if isinstance(k, str) and len(k) == 1]
        conds = [z3.And(cp == ord(k), to_z3(o.present.get(k, True))) for k in keys]
        if strict:
            I.check(st, z3.Or(*conds) if conds else False, "KeyError", "dict.key", site)
            return ite_chain(st, [(conds[i], o.items[keys[i]]) for i in range(len(keys) - 1)], o.items[keys[-1]])
        return ite_chain(st, [(conds[i], o.items[keys[i]]) for i in range(len(keys))], default)
    if z3.is_expr(key) and z3.is_int(key):
        keys = [k for k in o.items if isinstance(k, int) and not isinstance(k, bool)]
        conds = [z3.And(key == k, to_z3(o.present.get(k, True))) for k in keys]
        if strict:
            I.check(st, z3.Or(*conds) if conds else False, "KeyError", "dict.key", site)
            if not keys:
                raise SymRaise(ClassVal("KeyError", KeyError), st, "empty dict", site)
            return ite_chain(st, [(conds[i], o.items[keys[i]]) for i in range(len(keys) - 1)], o.items[keys[-1]])
        return ite_chain(st, [(conds[i], o.items[keys[i]]) for i in range(len(keys))], default)
    if is_strterm(key):
        keys = [k for k in o.items if isinstance(k, str)]
        conds = [z3.And(key == lit(k), to_z3(o.present.get(k, True))) for k in keys]
        if strict:
            I.check(st, z3.Or(*conds) if conds else False, "KeyError", "dict.key", site)
            if not keys:
                raise SymRaise(ClassVal("KeyError", KeyError), st, "empty dict", site)
            return ite_chain(st, [(conds[i], o.items[keys[i]]) for i in range(len(keys) - 1)], o.items[keys[-1]])
        return ite_chain(st, [(conds[i], o.items[keys[i]]) for i in range(len(keys))], default)
    raise OutOfSubset(f"dict lookup with key {key!r}")


def set_item(I, st, base, key, v, node):
    site = getattr(node, "lineno", None)
    if isinstance(base, Opt):
        I.check(st, z3.Not(base.isnone), "TypeError", "store.not_none", site)
        base = base.payload
    hook = I.ctx.lib_set_item(I, st, base, key, v, node)
    if hook is not NotImplemented:
        return
    if isinstance(base, Cursor):
        fr = st.obj(base.frame)
        k = norm_str(key)
        if not isinstance(k, str):
            raise OutOfSubset("row key")
        I.ctx.frame_store(I, st, base.frame, node)
        if k not in fr.cols:
            raise OutOfSubset(f"new row key {k}")
        fr.cols[k] = z3.Store(fr.cols[k], to_z3(base.idx), to_z3(v))
        return
    if isinstance(base, RowView):
        m = st.obj(base.matrix)
        I.ctx.frame_store(I, st, base.matrix, node)
        ci = concrete_int(key)
        idx = to_z3(key)
        if ci is not None and ci < 0:
            idx = m.cols + ci
        I.check(st, z3.And(idx >= 0, idx < m.cols), "IndexError", "row.store", site)
        old, r0, c0 = m.cell, z3.simplify(to_z3(base.r)), z3.simplify(idx)
        m.cell = lambda r, c, old=old, r0=r0, c0=c0, v=v: ite(st, z3.And(to_z3(r) == r0, to_z3(c) == c0), v, old(r, c))
        return
    if isinstance(base, Ref) and isinstance(st.obj(base), MatrixObj):
        m = st.obj(base)
        I.ctx.frame_store(I, st, base, node)
        ci = concrete_int(key)
        idx = to_z3(key)
        if ci is not None and ci < 0:
            idx = m.rows + ci
        I.check(st, z3.And(idx >= 0, idx < m.rows), "IndexError", "matrix.store", site)
        sv = seq_view(st, v)
        if sv is None:
            raise OutOfSubset("matrix row assignment with a non-list value")
        ln, lg = sv
        I.oblige(st, f"matrix.row_store.rectangular@L{site}", ln == m.cols, "safety", site)
        st.assume(ln == m.cols)
        old, r0 = m.cell, z3.simplify(idx)
        m.cell = lambda r, c, old=old, r0=r0, lg=lg: ite(st, to_z3(r) == r0, lg(c), old(r, c))
        return
    if isinstance(base, Ref):
        o = st.obj(base)
        I.ctx.frame_store(I, st, base, node)
        if isinstance(o, ListObj):
            ci = concrete_int(key)
            if o.concrete and ci is not None:
                n = len(o.items)
                if not -n <= ci < n:
                    raise SymRaise(ClassVal("IndexError", IndexError), st, "list assignment index", site)
                o.items[ci] = v
                return
            length, get = as_symlist(st, o)
            idx = to_z3(key)
            if ci is not None and ci < 0:
                idx = length + ci
            I.check(st, z3.And(idx >= 0, idx < length), "IndexError", "list.store", site)
            idx = z3.simplify(idx)
            o.items = None
            o.arr = None
            o.length = length
            o.get = lambda j, idx=idx, v=v, get=get: ite(st, to_z3(j) == idx, v, get(j))
            return
        if isinstance(o, DictObj):
            k = I.dict_key(st, key)
            o.items[k] = v
            o.present.pop(k, None)
            return
    raise OutOfSubset(f"item assignment on {base!r}")


# ----------------------------------------------------------------------------------------------
def contains(I, st, container, x, node):
    container = norm_str(container)
    x = norm_str(x)
    hook = I.ctx.lib_contains(I, st, container, x, node)
    if hook is not NotImplemented:
        return hook
    if isinstance(container, Opt):
        I.check(st, z3.Not(container.isnone), "TypeError", "in.not_none", getattr(node, "lineno", None))
        container = container.payload
    if isinstance(container, str) and isinstance(x, str):
        return x in container
    if isinstance(container, tuple):
        return _any_eq(st, x, list(container))
    if isinstance(container, RowView):
        n, g = seq_view(st, container)
        j = z3.Int(fresh_name("j"))
        return z3.Exists([j], z3.And(j >= 0, j < n, to_z3(same_kind_eq(st, x, g(j)))))
    if isinstance(container, Ref):
        o = st.obj(container)
        if isinstance(o, ListObj):
            if o.concrete:
                return _any_eq(st, x, o.items)
            j = z3.Int(fresh_name("j"))
            e = o.get(j)
            eq = same_kind_eq(st, x, e)
            return z3.Exists([j], z3.And(j >= 0, j < o.length, to_z3(eq)))
        if isinstance(o, DictObj):
            keys = list(o.items.keys())
            cs = []
            for k in keys:
                e = same_kind_eq(st, x, k)
                p = o.present.get(k, True)
                if isinstance(e, bool) and isinstance(p, bool):
                    if e and p:
                        return True
                    continue
                cs.append(z3.And(to_z3(e), to_z3(p)))
            return z3.Or(*cs) if cs else False
        if isinstance(o, SetObj):
            if o.items is not None:
                return _any_eq(st, x, o.items)
            return o.member(x)
    raise OutOfSubset(f"membership test in {container!r}")


def _any_eq(st, x, items):
    cs = []
    for it in items:
        try:
            e = same_kind_eq(st, x, it)
        except OutOfSubset:
            raise
        if isinstance(e, bool):
            if e:
                return True
            continue
        cs.append(e)
    if not cs:
        return False
    return z3.Or(*cs)


# ----------------------------------------------------------------------------------------------
def iter_values(I, st, it, node):
    it = norm_str(it)
    if isinstance(it, Opt):
        I.check(st, z3.Not(it.isnone), "TypeError", "iter.not_none", getattr(node, "lineno", None))
        it = it.payload
    if it is None:
        raise SymRaise(ClassVal("TypeError", TypeError), st, "'NoneType' object is not iterable", getattr(node, "lineno", None))
    if isinstance(it, tuple):
        return list(it)
    if isinstance(it, str):
        return list(it)
    if isinstance(it, RangeVal):
        a, b, c = concrete_int(it.start), concrete_int(it.stop), concrete_int(it.step)
        if None not in (a, b, c):
            return list(range(a, b, c))
        return None
    if isinstance(it, EnumVal):
        inner = iter_values(I, st, it.inner, node)
        if inner is None:
            return None
        return [(it.start + k, v) if not isinstance(v, Guarded) else Guarded(v.cond, (it.start + k, v.value)) for k, v in enumerate(inner)]
    if isinstance(it, ZipVal):
        inners = [iter_values(I, st, x, node) for x in it.inners]
        if any(x is None for x in inners):
            if all(x is None for x in inners):
                return None
            raise OutOfSubset("zip of concrete and symbolic sequences")
        if it.strict and len({len(x) for x in inners}) > 1:
            raise SymRaise(ClassVal("ValueError", ValueError), st, "zip() strict length mismatch", getattr(node, "lineno", None))
        return [tuple(t) for t in zip(*inners)]
    if isinstance(it, RowView):
        return None
    if isinstance(it, Ref):
        o = st.obj(it)
        if isinstance(o, MatrixObj):
            return None
        if isinstance(o, ListObj):
            return list(o.items) if o.concrete else None
        if isinstance(o, DictObj):
            return [k if o.present.get(k, True) is True else Guarded(o.present[k], k) for k in o.items]
        if isinstance(o, SetObj) and o.items is not None:
            return list(o.items)
        if isinstance(o, SetObj):
            return None              # symbolic set: only a library / contract model can iterate it (hook `set_comprehension`)
        if isinstance(o, FrameObj):
            return None
    hook = I.ctx.lib_iter(I, st, it, node)
    if hook is not NotImplemented:
        return hook
    raise OutOfSubset(f"iteration over {it!r}")


def sym_iter_view(I, st, it):
    """(length term, getter(idx)->item) for a symbolic iteration space."""
    if isinstance(it, Opt):
        it = it.payload
    if isinstance(it, RangeVal):
        step = concrete_int(it.step)
        if step is None or step <= 0:
            raise OutOfSubset("range with symbolic or non-positive step")
        start, stop = to_z3(it.start), to_z3(it.stop)
        if step == 1:
            n = z3.If(stop - start < 0, 0, stop - start)
        else:
            n = z3.If(stop - start <= 0, 0, (stop - start + step - 1) / step)
        return z3.simplify(n), (lambda j: z3.simplify(start + step * to_z3(j)))
    if isinstance(it, EnumVal):
        n, g = sym_iter_view(I, st, it.inner)
        return n, (lambda j: (z3.simplify(to_z3(j) + it.start), g(j)))
    if isinstance(it, ZipVal):
        views = [sym_iter_view(I, st, x) for x in it.inners]
        n = views[0][0]
        for v in views[1:]:
            if it.strict:
                I.check(st, v[0] == n, "ValueError", "zip.strict", None)
            else:
                n = z3.If(v[0] < n, v[0], n)
        return n, (lambda j: tuple(v[1](j) for v in views))
    sv = seq_view(st, it)
    if sv is not None:
        return sv
    if isinstance(it, Ref):
        o = st.obj(it)
        if isinstance(o, FrameObj):
            return o.n, (lambda j, it=it: Cursor(it, j))
    hook = I.ctx.lib_sym_iter(I, st, it)
    if hook is not NotImplemented:
        return hook
    raise OutOfSubset(f"symbolic iteration over {it!r}")


# ----------------------------------------------------------------------------------------------
def comprehension(I, st, e, kind):
    """List/set/dict comprehension or generator expression."""
    k = I.ctx.loop_ordinal(e)
    spec = I.ctx.loop_spec(k)
    gens = e.generators
    for g in gens:
        if g.is_async:
            raise OutOfSubset("async comprehension")
    # evaluate the outermost iterable in the enclosing scope
    first = I.eval(st, gens[0].iter)
    seq = iter_values(I, st, first, e)
    inner = dict(st.env)
    inner["__parent__"] = st.env
    saved_env = st.env

    def finish(res):
        st.env = saved_env
        return res

    if seq is not None and spec is None:
        st.env = {"__parent__": saved_env, "__module__": saved_env.get("__module__")}
        try:
            out_items = []
            out_dict = {}
            out_present = {}

            def rec(gi, guard):
                g = gens[gi]
                items = seq if gi == 0 else iter_values(I, st, I.eval(st, g.iter), e)
                if items is None:
                    raise OutOfSubset("nested comprehension over a symbolic sequence")
                for item in items:
                    gcond = guard
                    if isinstance(item, Guarded):
                        gcond = _and(gcond, item.cond)
                        item = item.value
                    I.assign(st, g.target, item)
                    ok = True
                    for c in g.ifs:
                        t = I.eval_cond(st, c)
                        cb = t if isinstance(t, bool) else concrete_bool(t)
                        if cb is False:
                            ok = False
                            break
                        if cb is None:
                            if kind == "dict":
                                gcond = _and(gcond, t)
                            else:
                                if not I.decide(st, t, f"comp.if@{e.lineno}"):
                                    ok = False
                                    break
                    if not ok:
                        continue
                    if gi + 1 < len(gens):
                        rec(gi + 1, gcond)
                    else:
                        if kind == "dict":
                            kk = I.dict_key(st, I.eval(st, e.key))
                            out_dict[kk] = I.eval(st, e.value)
                            if gcond is not True:
                                out_present[kk] = gcond
                            else:
                                out_present.pop(kk, None)
                        else:
                            if gcond is not True:
                                if not I.decide(st, to_z3(gcond), f"comp.guard@{e.lineno}"):
                                    continue
                            out_items.append(I.eval(st, e.elt))
            rec(0, True)
        finally:
            st.env = saved_env
        if kind == "dict":
            return st.alloc(DictObj(items=out_dict, present=out_present))
        if kind == "set":
            return st.alloc(SetObj(items=_dedupe(st, out_items)))
        return mk_list(st, out_items)

    if spec is not None and spec.inv is not None:
        # stateful / filtered comprehension over a symbolic sequence: desugar to a loop cut at its invariant
        from .loops import comprehension_as_loop
        return comprehension_as_loop(I, st, e, kind, k, spec, first)

    if seq is None and len(gens) == 1 and not gens[0].ifs and kind == "list" and isinstance(first, Ref) and isinstance(st.obj(first), SetObj):
        r = I.ctx._hook("set_comprehension", I, st, e, first)
        if r is not NotImplemented:
            return r
    if seq is None and len(gens) == 1 and not gens[0].ifs and kind == "list":
        # pure map over a symbolic sequence: functional list, no invariant needed
        n, getter = sym_iter_view(I, st, first)
        g = gens[0]
        j0 = z3.Int(fresh_name("cj"))
        probe = st.fork()
        probe.assume(j0 >= 0, j0 < n)
        probe.env = {"__parent__": probe.env, "__module__": probe.env.get("__module__")}
        I.assign(probe, g.target, getter(j0))
        before = len(I.ctx.obligations)
        v0 = I.eval(probe, e.elt)
        for ob in I.ctx.obligations[before:]:
            ob.meta["quantified_index"] = str(j0)
        base_state = st.fork()
        base_oids = set(base_state.heap)
        elems_fresh = isinstance(v0, Ref) and v0.oid not in base_oids

        def get(j, g=g, e=e, getter=getter):
            from .state import LAZY
            s2 = base_state.fork()
            s2.env = {"__parent__": s2.env, "__module__": s2.env.get("__module__")}
            I.assign(s2, g.target, getter(j))
            I.ctx.mute += 1
            try:
                r = I.eval(s2, e.elt)
            finally:
                I.ctx.mute -= 1
            for oid, ob in s2.heap.items():
                if oid not in base_oids and oid not in LAZY:
                    LAZY[oid] = ob
            return r
        ref = mk_symlist(st, n, get)
        st.obj(ref).elems_fresh = elems_fresh
        return ref
    if seq is None and len(gens) == 1 and gens[0].ifs and kind == "list":
        r = I.ctx._hook("filter_comprehension", I, st, e, first)
        if r is not NotImplemented:
            return r
    raise OutOfSubset(f"comprehension #{k} at line {e.lineno} over a symbolic sequence needs a loop specification")


def _and(a, b):
    if a is True:
        return b
    if b is True:
        return a
    return z3.And(to_z3(a), to_z3(b))


def _dedupe(st, items):
    out = []
    for x in items:
        dup = False
        for y in out:
            try:
                e = same_kind_eq(st, x, y)
            except OutOfSubset:
                e = False
            if e is True:
                dup = True
                break
        if not dup:
            out.append(x)
    return out


# ----------------------------------------------------------------------------------------------
def list_concat(I, st, a, b, node):
    oa = st.obj(a) if isinstance(a, Ref) else None
    ob = st.obj(b) if isinstance(b, Ref) else None
    if isinstance(oa, ListObj) and isinstance(ob, ListObj) and oa.concrete and ob.concrete:
        return mk_list(st, oa.items + ob.items)
    va, vb = seq_view(st, a), seq_view(st, b)
    if va is None or vb is None:
        raise OutOfSubset("+ on non-lists")
    la, ga = va
    lb, gb = vb
    return mk_symlist(st, z3.simplify(la + lb), lambda j: ite(st, to_z3(j) < la, ga(j), gb(to_z3(j) - la)))


def list_repeat(I, st, lst, n, node):
    o = st.obj(lst) if isinstance(lst, Ref) else None
    cn = concrete_int(n)
    if isinstance(o, ListObj) and o.concrete and cn is not None:
        return mk_list(st, o.items * cn)
    sv = seq_view(st, lst)
    if sv is None:
        raise OutOfSubset("* on non-list")
    length, get = sv
    o = o if isinstance(o, ListObj) else ListObj(length=length, get=get)
    nn = to_z3(n)
    nn = z3.If(nn < 0, 0, nn)
    cl = concrete_int(length)
    if cl == 1:
        return mk_symlist(st, z3.simplify(nn), lambda j: get(z3.IntVal(0)), elem=o.elem)
    total = z3.simplify(length * nn)
    return mk_symlist(st, total, lambda j: get(z3.simplify(to_z3(j) % length)), elem=o.elem)


def set_binop(I, st, op, a, b, node):
    oa, ob = st.obj(a), st.obj(b)
    if not (isinstance(oa, SetObj) and isinstance(ob, SetObj) and oa.items is not None and ob.items is not None):
        raise OutOfSubset("set operator on symbolic sets")
    res = []
    for x in oa.items:
        inb = _any_eq(st, x, ob.items)
        if not isinstance(inb, bool):
            raise OutOfSubset("set operator with symbolic membership")
        if isinstance(op, ast.BitAnd) and inb:
            res.append(x)
        if isinstance(op, ast.Sub) and not inb:
            res.append(x)
        if isinstance(op, ast.BitOr):
            res.append(x)
    if isinstance(op, ast.BitOr):
        for y in ob.items:
            ina = _any_eq(st, y, oa.items)
            if not isinstance(ina, bool):
                raise OutOfSubset("set operator with symbolic membership")
            if not ina:
                res.append(y)
    return st.alloc(SetObj(items=res))
