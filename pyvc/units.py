"""Verification units a property check is made of.

ContractUnit   real function + sidecar contract -> VCs (deductive, unbounded)
LemmaUnit      composition lemma / inductive lemma: formulas over the carriers' contract vocabulary -> VCs
TableUnit      exhaustive evaluation of a finite table taken from the real module (complete: finite domain)
ScanUnit       syntactic frame/effect scan of the real AST (sound over-approximation, each finding an obligation)
BoundedUnit    bounded stand-in (labelled bounded, never counted as discharged)
"""
from __future__ import annotations

import time
import traceback

import z3

from .contract import Contract, UnitResult, verify_unit
from .state import Obligation


class Unit:
    kind = "unit"
    name = ""
    deductive = True

    def run(self, index, tier, seed) -> list[UnitResult]:
        raise NotImplementedError


class ContractUnit(Unit):
    kind = "contract"

    def __init__(self, contract: Contract, variants=None, thorough_variants=None):
        self.contract = contract
        self.name = contract.target
        self.variant_names = list(variants) if variants else None      # restrict the unit to these variants of the contract
        self.thorough_variant_names = list(thorough_variants) if thorough_variants else None     # variants run in addition in the thorough tier

    only = None      # index of the single variant to run (set by the parallel driver)

    def variant_indices(self, tier="quick"):
        vs = list(self.contract.variants)
        if self.variant_names is None:
            return list(range(len(vs)))
        names = list(self.variant_names)
        if tier == "thorough" and self.thorough_variant_names:
            names += [n for n in self.thorough_variant_names if n not in names]
        return [vs.index(n) for n in names]

    def run(self, index, tier, seed):
        if self.only is None and self.variant_names is not None:
            out = []
            for vi in self.variant_indices(tier):
                out += verify_unit(index, self.contract, only=vi)
            return out
        return verify_unit(index, self.contract, only=self.only)


class LemmaUnit(Unit):
    """`build(index) -> list[(name, hyps, goal)]`; every entry is an obligation discharged by the solvers."""
    kind = "lemma"

    def __init__(self, name, build, cites=()):
        self.name, self.build, self.cites = name, build, list(cites)

    def run(self, index, tier, seed):
        res = UnitResult(f"lemma::{self.name}")
        t0 = time.time()
        try:
            for nm, hyps, goal, *rest in self.build(index):
                kind = rest[0] if rest else "lemma"
                res.obligations.append(Obligation(f"lemma::{self.name}#{nm}", hyps, goal, kind, None, res.unit))
        except Exception as e:
            res.status, res.detail = "engine-error", f"{type(e).__name__}: {e}\n{traceback.format_exc()}"
        res.gen_time = time.time() - t0
        res.info = {"cites": self.cites}
        return [res]


class TableUnit(Unit):
    """`check(index) -> iterable[(name, ok: bool, detail)]` over a finite table of the real module.
    Complete for that table (the table is re-read from the tree on every run)."""
    kind = "table"

    def __init__(self, name, check):
        self.name, self.check = name, check

    def run(self, index, tier, seed):
        res = UnitResult(f"table::{self.name}")
        t0 = time.time()
        try:
            for nm, ok, detail in self.check(index):
                ob = Obligation(f"table::{self.name}#{nm}", [], z3.BoolVal(bool(ok)), "table", None, res.unit, {"detail": detail})
                ob.verdict = "discharged" if ok else "refuted"
                ob.backend = "enumeration"
                ob.model = None if ok else {"witness": detail}
                res.obligations.append(ob)
        except Exception as e:
            res.status, res.detail = "engine-error", f"{type(e).__name__}: {e}\n{traceback.format_exc()}"
        res.gen_time = time.time() - t0
        return [res]


class ScanUnit(TableUnit):
    kind = "scan"


class BoundedUnit(Unit):
    """`run_bounded(index, tier, seed) -> dict(bound=..., cases=int, failures=[...])`; labelled bounded."""
    kind = "bounded"
    deductive = False

    def __init__(self, name, run_bounded):
        self.name, self.run_bounded = name, run_bounded

    def run(self, index, tier, seed):
        res = UnitResult(f"bounded::{self.name}")
        t0 = time.time()
        try:
            r = self.run_bounded(index, tier, seed)
            res.info = {"bounded": r}
            for k, fail in enumerate(r.get("failures", [])):
                ob = Obligation(f"bounded::{self.name}#{fail.get('name', 'case')}", [], z3.BoolVal(False), "bounded", None, res.unit, {"detail": fail})
                ob.verdict, ob.backend, ob.model = "refuted", "bounded-execution", {"witness": fail}
                res.obligations.append(ob)
        except Exception as e:
            res.status, res.detail = "engine-error", f"{type(e).__name__}: {e}\n{traceback.format_exc()}"
        res.gen_time = time.time() - t0
        return [res]


class Property:
    def __init__(self, pid, units, level="proof", technique="", trusted_base=(), assumptions=(), replayers=None, design_ref=""):
        self.pid, self.units, self.level, self.technique = pid, list(units), level, technique
        self.trusted_base, self.assumptions = list(trusted_base), list(assumptions)
        self.replayers = replayers or {}
        self.design_ref = design_ref
