"""Frame (modifies) analysis over the encode call graph (DESIGN 1.6): enumerate every store / mutator site of the real
AST reachable from rtf_encode and classify it.  Used by contracts/frames.py (C14, C15)."""
from __future__ import annotations

import ast

MUTATORS = {"append", "extend", "insert", "sort", "pop", "remove", "clear", "reverse", "update", "add", "setdefault",
            "popitem", "discard", "appendleft", "write", "writelines", "write_text", "write_bytes", "mkdir", "unlink", "rename"}
FS_CALLS = {"open", "mkdir", "write_text", "write_bytes", "unlink", "rmtree", "move", "copy", "copyfile", "makedirs", "remove",
            "rename", "TemporaryDirectory", "NamedTemporaryFile", "mkstemp", "mkdtemp", "system", "run", "Popen"}


class FuncInfo:
    def __init__(self, modname, qualname, node, cls):
        self.modname, self.qualname, self.node, self.cls = modname, qualname, node, cls
        self.key = f"{modname.replace('rtflite.', '')}::{qualname}"


def all_functions(index):
    out = {}
    for modname, mod in index.modules.items():
        def walk(body, prefix, cls):
            for n in body:
                if isinstance(n, ast.FunctionDef):
                    fi = FuncInfo(modname, prefix + n.name, n, cls)
                    out[fi.key] = fi
                    walk(n.body, prefix + n.name + ".", cls)
                elif isinstance(n, ast.ClassDef):
                    walk(n.body, prefix + n.name + ".", n.name)
                elif isinstance(n, (ast.If, ast.Try)):
                    walk(getattr(n, "body", []), prefix, cls)
        walk(mod.body, "", None)
    return out


def called_names(fn):
    names = set()
    for n in ast.walk(fn):
        if isinstance(n, ast.Call):
            f = n.func
            if isinstance(f, ast.Attribute):
                names.add(f.attr)
            elif isinstance(f, ast.Name):
                names.add(f.id)
        elif isinstance(n, ast.Attribute):
            names.add(n.attr)          # properties, bound methods passed around
    return names


def reachable(index, roots, funcs=None):
    """Over-approximate call graph: a function is reachable if its (method) name is mentioned in a reachable function;
    a class name mentioned makes its __init__ / validators / model hooks reachable."""
    funcs = funcs or all_functions(index)
    by_name = {}
    for fi in funcs.values():
        by_name.setdefault(fi.node.name, []).append(fi)
    by_class = {}
    for fi in funcs.values():
        if fi.cls:
            by_class.setdefault(fi.cls, []).append(fi)
    seen, work = {}, [funcs[r] for r in roots if r in funcs]
    while work:
        fi = work.pop()
        if fi.key in seen:
            continue
        seen[fi.key] = fi
        for nm in called_names(fi.node):
            for g in by_name.get(nm, []):
                if g.key not in seen:
                    work.append(g)
            for g in by_class.get(nm, []):
                if g.node.name in ("__init__", "model_post_init") and g.key not in seen:
                    work.append(g)
    return seen


def root_name(n):
    while isinstance(n, (ast.Subscript, ast.Attribute)):
        n = n.value
    if isinstance(n, ast.Call):
        return None, n
    return (n.id if isinstance(n, ast.Name) else None), n


class Site:
    def __init__(self, fi, node, kind, target, root, depth):
        self.fi, self.node, self.kind, self.target, self.root, self.depth = fi, node, kind, target, root, depth
        self.lineno = node.lineno

    @property
    def ident(self):
        return f"{self.fi.key}|{self.kind}|{self.target}"


def store_sites(fi):
    """Every store through an attribute/subscript and every mutating method call in the function (nested defs included)."""
    sites = []

    def depth_of(t):
        d = 0
        while isinstance(t, (ast.Subscript, ast.Attribute)):
            d += 1
            t = t.value
        return d

    def add_target(t, stmt):
        if isinstance(t, (ast.Tuple, ast.List)):
            for x in t.elts:
                add_target(x, stmt)
        elif isinstance(t, (ast.Attribute, ast.Subscript)):
            r, _ = root_name(t)
            sites.append(Site(fi, stmt, "store", ast.unparse(t), r, depth_of(t)))
        elif isinstance(t, ast.Starred):
            add_target(t.value, stmt)

    for n in ast.walk(fi.node):
        if isinstance(n, ast.Assign):
            for t in n.targets:
                add_target(t, n)
        elif isinstance(n, (ast.AugAssign, ast.AnnAssign)):
            if isinstance(n.target, (ast.Attribute, ast.Subscript)):
                add_target(n.target, n)
        elif isinstance(n, ast.Delete):
            for t in n.targets:
                if isinstance(t, (ast.Attribute, ast.Subscript)):
                    r, _ = root_name(t)
                    sites.append(Site(fi, n, "del", ast.unparse(t), r, depth_of(t)))
        elif isinstance(n, (ast.Global, ast.Nonlocal)):
            sites.append(Site(fi, n, "global", ",".join(n.names), n.names[0], 0))
        elif isinstance(n, ast.Call):
            f = n.func
            if isinstance(f, ast.Attribute) and f.attr in MUTATORS:
                r, _ = root_name(f.value)
                sites.append(Site(fi, n, "mutate." + f.attr, ast.unparse(f.value), r, depth_of(f.value)))
            elif isinstance(f, ast.Name) and f.id == "setattr" and n.args:
                r, _ = root_name(n.args[0])
                sites.append(Site(fi, n, "setattr", ast.unparse(n.args[0]), r, depth_of(n.args[0]) + 1))
            elif isinstance(f, ast.Attribute) and f.attr == "set" and isinstance(f.value, ast.Name) and f.value.id.isupper():
                sites.append(Site(fi, n, "ctxvar.set", ast.unparse(f.value), f.value.id, 0))
    return sites


FRESH_CALLS = {"deepcopy", "list", "dict", "set", "tuple", "sorted", "to_list", "to_dicts", "clone", "copy", "model_copy",
               "DataFrame", "defaultdict", "OrderedDict"}


def is_fresh_expr(e, fresh_vars=()):
    """Expression that yields an object created in this activation."""
    if isinstance(e, (ast.List, ast.Dict, ast.Set, ast.ListComp, ast.DictComp, ast.SetComp, ast.GeneratorExp, ast.Tuple, ast.JoinedStr)):
        return True
    if isinstance(e, ast.Constant):
        return True
    if isinstance(e, ast.BinOp):
        return is_fresh_expr(e.left, fresh_vars) or is_fresh_expr(e.right, fresh_vars)
    if isinstance(e, ast.IfExp):
        return is_fresh_expr(e.body, fresh_vars) and is_fresh_expr(e.orelse, fresh_vars)
    if isinstance(e, ast.Call):
        f = e.func
        nm = f.attr if isinstance(f, ast.Attribute) else (f.id if isinstance(f, ast.Name) else None)
        if nm in FRESH_CALLS:
            return True
        if nm and nm[:1].isupper():          # constructor
            return True
        return False
    if isinstance(e, ast.Name):
        return e.id in fresh_vars
    if isinstance(e, ast.Subscript) and isinstance(e.slice, ast.Slice):
        return True
    return False


def local_bindings(fn):
    """name -> list of value expressions bound to it in `fn` (None for bindings we cannot see: params, loops, with, imports)."""
    b = {}
    args = fn.args
    for a in args.posonlyargs + args.args + args.kwonlyargs + ([args.vararg] if args.vararg else []) + ([args.kwarg] if args.kwarg else []):
        b.setdefault(a.arg, []).append("PARAM")
    for n in ast.walk(fn):
        if isinstance(n, ast.Assign):
            for t in n.targets:
                if isinstance(t, ast.Name):
                    b.setdefault(t.id, []).append(n.value)
                elif isinstance(t, (ast.Tuple, ast.List)):
                    for x in t.elts:
                        if isinstance(x, ast.Name):
                            b.setdefault(x.id, []).append("UNPACK")
        elif isinstance(n, ast.AnnAssign) and isinstance(n.target, ast.Name) and n.value is not None:
            b.setdefault(n.target.id, []).append(n.value)
        elif isinstance(n, ast.AugAssign) and isinstance(n.target, ast.Name):
            b.setdefault(n.target.id, []).append("AUG")
        elif isinstance(n, ast.NamedExpr) and isinstance(n.target, ast.Name):
            b.setdefault(n.target.id, []).append(n.value)
        elif isinstance(n, (ast.For, ast.comprehension)):
            for x in ast.walk(n.target):
                if isinstance(x, ast.Name):
                    b.setdefault(x.id, []).append(("ITER", n.iter))
        elif isinstance(n, ast.With):
            for it in n.items:
                if it.optional_vars is not None:
                    for x in ast.walk(it.optional_vars):
                        if isinstance(x, ast.Name):
                            b.setdefault(x.id, []).append("WITH")
        elif isinstance(n, ast.ExceptHandler) and n.name:
            b.setdefault(n.name, []).append("EXC")
    return b


def fresh_locals(fn):
    """Names all of whose bindings are fresh expressions (fixpoint over aliases of fresh names)."""
    b = local_bindings(fn)
    fresh = set()
    changed = True
    while changed:
        changed = False
        for name, vals in b.items():
            if name in fresh:
                continue
            ok = True
            for v in vals:
                if isinstance(v, str):
                    if v in ("AUG",):
                        continue
                    ok = False
                    break
                if isinstance(v, tuple) and v[0] == "ITER":
                    # elements of a fresh container that was built from fresh elements are not tracked: not fresh
                    ok = False
                    break
                if not is_fresh_expr(v, fresh):
                    ok = False
                    break
            if ok and vals:
                fresh.add(name)
                changed = True
    return fresh, b
