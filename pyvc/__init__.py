"""pyvc - a small deductive verifier for the Python subset rtflite's decision-carrying
functions are written in.  See /verif/DESIGN.md sections 1 and Appendix D/E.

The executor (interp.py) walks the *real* AST of a function under /repo/src/rtflite (re-read on
every run), cuts loops at sidecar invariants, applies contracts / assumed library models at
calls, and emits one verification condition per (path, obligation).  solve.py discharges them with
z3 5.1 (API) and, on `unknown`, /usr/bin/cvc5 and /usr/bin/z3 4.8 on the SMT-LIB dump.
"""
