"""./check <property id> [--tier quick|thorough] [--repo PATH] [--replay FILE] [--list]

exit 0  every obligation discharged (or only known findings fail)
exit 1  an obligation not listed in known_findings.json is refuted -> VIOLATION line
exit 2  undecided (solver unknown on all back ends, out-of-subset code, contract does not bind)
exit 3  checker fault (engine error, vacuous precondition, zero obligations, solver disagreement)
"""
from __future__ import annotations

import argparse
import fnmatch
import importlib
import json
import os
import re
import sys
import time

VERIF = os.path.dirname(os.path.dirname(os.path.abspath(__file__)))


def norm_ob_name(name: str) -> str:
    """Stable part of an obligation name: strip path tags, line numbers and duplicate counters."""
    name = re.sub(r"~\d+$", "", name)
    name = re.sub(r"@L\d+|@None", "", name)
    name = re.sub(r"@(if|ifexp|boolop|call|comp|guard|getattr)[^#]*", "", name)
    name = re.sub(r"@[A-Za-z_.=@\d]*$", "", name)
    return name


def load_known():
    p = os.path.join(VERIF, "known_findings.json")
    if not os.path.exists(p):
        return []
    return json.load(open(p)).get("findings", [])



_REPLAY_CACHE = {}


def replay_any(prop, index, name, ob, seed):
    """Try every replayer whose key matches `name` (prefix or glob), most specific key first; return the first hit, else the last miss."""
    last = None
    keys = [k for k in prop.replayers if name.startswith(k) or fnmatch.fnmatch(name, k)]
    for k in sorted(keys, key=len, reverse=True):
        fn = prop.replayers[k]
        ck = (getattr(fn, "__name__", None) or id(fn), seed)
        if ck in _REPLAY_CACHE:
            r = _REPLAY_CACHE[ck]          # the native replayers search the real code of this tree for this seed: one run per check is enough
        else:
            try:
                r = fn(index, ob, seed)
            except Exception as e:
                r = {"found": False, "error": f"{type(e).__name__}: {e}"}
            _REPLAY_CACHE[ck] = r
        last = r
        if r and r.get("found"):
            return r
    return last


def main(argv=None):
    ap = argparse.ArgumentParser()
    ap.add_argument("pid")
    ap.add_argument("--tier", default=os.environ.get("VERIF_TIER", "quick"))
    ap.add_argument("--repo", default=os.environ.get("VERIF_REPO", "/repo"))
    ap.add_argument("--replay")
    ap.add_argument("--evidence-dir", default=os.path.join(VERIF, "evidence"))
    ap.add_argument("--verbose", "-v", action="store_true")
    args = ap.parse_args(argv)
    seed = int(os.environ.get("VERIF_SEED", "0") or 0)
    tier = "thorough" if args.tier.startswith("t") else "quick"
    sys.path.insert(0, VERIF)
    t0 = time.time()

    from pyvc.repoindex import RepoIndex
    index = RepoIndex(args.repo)
    props = importlib.import_module("contracts.properties")
    if args.pid not in props.PROPERTIES:
        print(f"unknown or unclaimed property {args.pid}")
        return 3
    prop = props.PROPERTIES[args.pid]()

    if args.replay:
        return do_replay(index, prop, args.replay)

    # every unit (and every variant of a contract unit) is generated AND discharged in its own worker process
    jobs = []
    for ui, u in enumerate(prop.units):
        nvar = len(getattr(getattr(u, "contract", None), "variants", [None])) if hasattr(u, "contract") else 1
        if getattr(u, "kind", "") in ("contract",) and hasattr(u, "contract") and nvar > 1:
            for vi in (u.variant_indices(tier) if hasattr(u, "variant_indices") else range(nvar)):
                jobs.append((args.pid, ui, vi, args.repo, tier, seed))
        else:
            jobs.append((args.pid, ui, None, args.repo, tier, seed))
    inner = max(1, 12 // max(1, len(jobs)))
    jobs = [j + (inner,) for j in jobs]
    results = run_jobs(jobs)

    # a unit may serve several properties: a listed finding of ANOTHER property that shows up in a shared unit is reported under its
    # own property id and is not a violation of this one
    known = [k for k in load_known() if k.get("status") == "known"]
    exit_code = 0
    lines = []
    violations = []
    known_hits = []
    undecided = []
    faults = []
    by_backend: dict = {}
    n_obl = n_dis = 0
    bounded_info = []
    undecided_obs = []
    for r in results:
        if r.status == "engine-error":
            faults.append(f"{r.unit}: {r.detail}")
        elif r.status != "ok":
            # the code left the verifiable subset / the contract no longer binds: undecided for the deductive check.  The bounded
            # native replay of this unit (labelled bounded) may still exhibit a failing input on the real code.
            hit = replay_any(prop, index, r.unit, None, seed)
            if hit and hit.get("found"):
                from .state import Obligation
                import z3 as _z3
                ob = Obligation(f"{r.unit}#bounded-replay-after-{r.status}", [], _z3.BoolVal(False), "bounded", None, r.unit,
                                {"detail": r.detail[:400], "replay": hit, "note": "unit undecided deductively; bounded native replay found a failing input"})
                ob.verdict, ob.backend, ob.model = "refuted", "bounded-execution", {"witness": hit.get("input")}
                ob.meta["prefound"] = hit
                r.obligations.append(ob)
            undecided.append(f"{r.unit}: {r.status}: {r.detail}")
        if getattr(r, "unit_kind", "") == "bounded":
            bounded_info.append({"unit": r.unit, **(r.info.get("bounded") or {})})
        if r.status == "ok" and getattr(r, "deductive", True) and not r.obligations:
            faults.append(f"{r.unit}: zero obligations generated")
        for ob in r.obligations:
            if ob.meta.get("solver_disagreement"):
                faults.append(f"{ob.name}: solvers disagree {ob.meta['solver_disagreement']}")
            if ob.kind == "cover":
                if ob.verdict == "vacuous":
                    faults.append(f"{ob.name}: precondition / cover unsatisfiable (vacuous contract)")
                # `undecided`: the solver found neither a model nor a contradiction of the (quantified) precondition within its
                # budget; the vacuity guard is then inconclusive for this unit (recorded in the evidence), not a failed obligation
                continue
            counted = getattr(r, "deductive", True)
            if ob.verdict == "discharged":
                if counted:
                    n_obl += 1
                    n_dis += 1
                    b = by_backend.setdefault(ob.backend or "?", {"count": 0, "seconds": 0.0})
                    b["count"] += 1
                    b["seconds"] = round(b["seconds"] + ob.time, 3)
            elif ob.verdict == "refuted":
                nn = norm_ob_name(ob.name)
                hit = None
                for k in known:
                    if fnmatch.fnmatch(nn, k["obligation"]) or fnmatch.fnmatch(ob.name, k["obligation"]):
                        hit = k
                        break
                if hit is not None:
                    known_hits.append((hit, ob))
                else:
                    if counted:
                        n_obl += 1
                    violations.append(ob)
            else:
                nn = norm_ob_name(ob.name)
                hit = next((k for k in known if fnmatch.fnmatch(nn, k["obligation"]) or fnmatch.fnmatch(ob.name, k["obligation"])), None)
                if hit is not None:
                    # an instance of a clause already recorded as a known finding that the short attempt could not decide: it belongs
                    # to that finding (other instances of the same clause are refuted), it is not a new, undecided obligation
                    known_hits.append((hit, ob))
                    continue
                if counted:
                    n_obl += 1
                undecided.append(f"{ob.name}: undecided ({ob.meta.get('tried')})")
                undecided_obs.append(ob)

    # --- proof scaffolding vs. property clauses ----------------------------------------------------------------------------------
    # A refuted loop-invariant clause that is not itself a property clause (no "Cnn." label) means "the inductive argument written for
    # the pinned version does not go through for this version" - a refactoring does that without breaking the property, and every
    # later obligation of the unit is then judged from a havoc-ed state.  In such a unit nothing is reported as a violation unless the
    # bounded native replay of the unit exhibits a failing input on the real code; otherwise the unit is undecided.
    def _is_scaffolding(ob):
        if ob.kind not in ("inv-init", "inv-preserve", "variant"):
            return False
        m = re.search(r"#(?:init|preserve)#([^@~]*)", ob.name)
        clause = m.group(1) if m else ""
        return not re.match(r"(records\.)?C\d\d\.", clause)
    by_unit = {}
    for ob in violations:
        by_unit.setdefault(ob.name.split("#", 1)[0], []).append(ob)
    kept = []
    for unit, obs in by_unit.items():
        if not any(_is_scaffolding(ob) for ob in obs):
            kept.extend(obs)
            continue
        hit = None
        for ob in obs:
            if ob.meta.get("prefound"):
                hit = ob.meta["prefound"]
                break
            h = replay_any(prop, index, norm_ob_name(ob.name), ob, seed)
            if h and h.get("found"):
                hit = h
                break
        if hit:
            for ob in obs:
                ob.meta["prefound"] = hit
            kept.extend(obs)
        else:
            n_obl -= sum(1 for ob in obs if getattr(next((r for r in results if r.unit == unit), None), "deductive", True))
            undecided.append(f"{unit}: the inductive argument no longer goes through for this version of the function "
                             f"({len(obs)} obligation(s) refuted, first: {obs[0].name.split('#', 1)[1][:90]}); the bounded native replay found no "
                             "failing input, so this is reported as undecided, not as a violation")
    violations = kept

    # an obligation the solvers could not decide is never a violation by itself; but the property's bounded native replay of that unit
    # is tried once per unit, and a failing input found on the real code IS reported (labelled bounded)
    tried_units = set()
    for ob in undecided_obs:
        unit = ob.name.split("#", 1)[0]
        if unit in tried_units:
            continue
        tried_units.add(unit)
        nn = norm_ob_name(ob.name)
        hit = replay_any(prop, index, nn, ob, seed)
        if hit and hit.get("found"):
            from .state import Obligation
            import z3 as _z3
            vb = Obligation(f"{unit}#bounded-replay-after-undecided", [], _z3.BoolVal(False), "bounded", None, unit,
                            {"detail": f"undecided: {ob.name}", "replay": hit, "note": "obligation undecided deductively; bounded native replay found a failing input"})
            vb.verdict, vb.backend, vb.model = "refuted", "bounded-execution", {"witness": hit.get("input")}
            vb.meta["prefound"] = hit
            violations.append(vb)

    # known findings: one line per listed finding that still fails; residual obligations must hold
    seen_known = {}
    for k, ob in known_hits:
        seen_known.setdefault(k["obligation"], (k, []))[1].append(ob)
    for key, (k, obs) in seen_known.items():
        lines.append(f"KNOWN-FINDING: property={k.get('property', args.pid)} {k['obligation']} {k.get('what', '')}")

    replay_dir = os.path.join(args.evidence_dir, "replays")
    viol_records = []
    # group violations by normalised obligation name
    groups: dict = {}
    for ob in violations:
        groups.setdefault(norm_ob_name(ob.name), []).append(ob)
    for nn, obs in groups.items():
        os.makedirs(replay_dir, exist_ok=True)
        ob = obs[0]
        rec = {"property": args.pid, "obligation": nn, "instances": [o.name for o in obs], "kind": ob.kind, "site": ob.site,
               "solver": ob.backend, "solver_output": ob.meta.get("tried"),
               "model": {k: (v if len(str(v)) < 300 else str(v)[:300] + "...") for k, v in (ob.model or {}).items()}, "meta": _jsonable(ob.meta),
               "repo": index.repo}
        replay = ob.meta.get("prefound")
        if not replay and ob.kind == "bounded" and isinstance(ob.meta.get("detail"), dict) and ob.meta["detail"].get("input") is not None:
            # a bounded stand-in fails on a concrete input it executed on the real code: that input is the replay
            replay = {"found": True, "input": ob.meta["detail"]["input"], "observed": ob.meta["detail"].get("observed"),
                      "how": "bounded execution of the real function on this input"}
        if not replay:
            replay = replay_any(prop, index, nn, ob, seed)
        rec["replay"] = replay
        fname = re.sub(r"[^A-Za-z0-9_.-]+", "_", f"{args.pid}-{nn}")[:150] + ".json"
        path = os.path.join(replay_dir, fname)
        json.dump(rec, open(path, "w"), indent=1, default=str)
        suffix = "" if (replay and replay.get("found")) else " no-failing-input-found"
        lines.append(f"VIOLATION property={args.pid} replay={path}{suffix}")
        viol_records.append({"obligation": nn, "replay": path, "input_found": bool(replay and replay.get("found"))})

    if violations:
        exit_code = 1
    elif faults:
        exit_code = 3
    elif undecided:
        exit_code = 2

    # ---- evidence
    distinct = set()
    for r in results:
        if not getattr(r, "deductive", True):
            continue
        for ob in r.obligations:
            if ob.kind != "cover" and ob.backend != "z3-simplify":
                distinct.add(ob.meta.get("vc_sha") or ob.name)
    level = prop.level
    samples = []
    for r in results:
        for ob in r.obligations[:2]:
            samples.append({"obligation": ob.name, "kind": ob.kind, "verdict": ob.verdict, "backend": ob.backend,
                            "seconds": round(ob.time, 3), "hypotheses": len(ob.hyps)})
    functions = []
    assumed = list(prop.assumptions)
    for r in results:
        if r.info.get("function"):
            functions.append({**r.info["function"], "unit": r.unit, "status": r.status,
                              "obligations": sum(1 for o in r.obligations if o.kind != "cover"),
                              "inlined": [f["qualname"] for f in r.info.get("inlined", [])],
                              "summaries_used": r.info.get("summaries_used", []),
                              "dropped": r.info.get("dropped", {}), "trivially_true": r.info.get("trivially_true", 0)})
        for a in r.info.get("assumed", []):
            if a not in assumed:
                assumed.append(a)
    ev = {
        "property_id": args.pid, "tier": tier, "seed": seed, "level": level,
        "coverage": {
            "obligations": n_obl, "discharged": n_dis,
            "checker_cmd": f"./check {args.pid} --tier {tier}",
            "trusted_base": prop.trusted_base,
            "by_backend": by_backend,
            "units": [{"unit": r.unit, "kind": getattr(r, "unit_kind", "?"), "status": r.status,
                       "obligations": len(r.obligations), "gen_seconds": round(r.gen_time, 2),
                       "detail": r.detail[:500] if r.status != "ok" else ""} for r in results],
            "functions_under_contract": functions,
            "samples": samples[:12],
            "bounded": bounded_info,
            "cover_checks": sum(1 for r in results for ob in r.obligations if ob.kind == "cover"),
            "disagreements_checked": sum(1 for r in results for ob in r.obligations
                                         if len([a for a in (ob.meta.get("tried") or []) if a[1] in ("sat", "unsat")]) >= 2),
            "cover_undecided": [ob.name for r in results for ob in r.obligations if ob.kind == "cover" and ob.verdict == "undecided"][:20],
            "known_findings": [{"obligation": k["obligation"], "instances": len(obs)} for k, obs in seen_known.values()],
            "violations": viol_records,
            "undecided": undecided[:20], "faults": faults[:20],
            "explanation": f"{prop.technique}. {n_dis}/{n_obl} obligations discharged; bounded stand-ins are listed under "
                           "'bounded' and are not counted; known findings are listed separately and not counted.",
            "evaluations": n_obl, "distinct_nontrivial": len(distinct),
            "rule": "one evaluation = one verification condition (or one table entry / scanned site) generated from the current source of the "
                    "functions under contract; distinct = different SMT-LIB text (sha1 of the full query) or different table/site name; "
                    "non-trivial = not already closed by z3's simplifier at generation time (those are counted under by_backend['z3-simplify'])",
            "repo": index.repo,
        },
        "assumptions": assumed,
        "wall_s": round(time.time() - t0, 2),
        "violations": len(groups),
    }
    if exit_code in (2, 3) and level == "proof":
        ev["level"] = "other"      # an incomplete run is not a proof
    os.makedirs(args.evidence_dir, exist_ok=True)
    json.dump(ev, open(os.path.join(args.evidence_dir, f"{args.pid}.json"), "w"), indent=1, default=str)

    for ln in lines:
        print(ln)
    for u in undecided[:10]:
        print("UNDECIDED", u[:600])
    for f in faults[:10]:
        print("FAULT", f[:2000])
    print(f"{args.pid}: obligations={n_obl} discharged={n_dis} known={len(seen_known)} violations={len(groups)} "
          f"undecided={len(undecided)} faults={len(faults)} wall={ev['wall_s']}s exit={exit_code}")
    return exit_code


class _Res:
    pass


def _worker(job):
    """Generate and discharge one unit (variant) in a fresh process; returns picklable summaries."""
    pid, ui, vi, repo, tier, seed = job[:6]
    inner = job[6] if len(job) > 6 else 1
    import importlib
    sys.path.insert(0, VERIF)
    from pyvc.repoindex import RepoIndex
    from pyvc.solve import discharge
    index = RepoIndex(repo)
    props = importlib.import_module("contracts.properties")
    prop = props.PROPERTIES[pid]()
    u = prop.units[ui]
    if vi is not None:
        u.only = vi
    out = []
    try:
        rs = u.run(index, tier, seed)
    except Exception as e:
        import traceback
        r = _Res()
        r.unit, r.status, r.detail, r.obligations, r.gen_time, r.info = getattr(u, "name", str(ui)), "engine-error", f"{type(e).__name__}: {e}\n{traceback.format_exc()}", [], 0.0, {}
        rs = [r]
    known_pats = [k["obligation"] for k in load_known() if k.get("status") == "known"]
    for r in rs:
        for ob in r.obligations:
            nn = norm_ob_name(ob.name)
            if any(fnmatch.fnmatch(nn, pat) or fnmatch.fnmatch(ob.name, pat) for pat in known_pats):
                ob.meta["known_pattern"] = True
        todo = [ob for ob in r.obligations if ob.verdict is None]
        discharge(todo, thorough=(tier == "thorough"), workers=inner)
        obs = []
        for ob in r.obligations:
            obs.append({"name": ob.name, "kind": ob.kind, "site": ob.site, "verdict": ob.verdict, "backend": ob.backend, "time": ob.time,
                        "model": ob.model, "meta": _jsonable(ob.meta), "nhyps": len(ob.hyps)})
        out.append({"unit": r.unit, "status": r.status, "detail": r.detail, "gen_time": r.gen_time, "info": _jsonable_deep(r.info),
                    "obligations": obs, "unit_kind": u.kind, "deductive": u.deductive})
    return out


def _jsonable_deep(x):
    try:
        json.dumps(x)
        return x
    except TypeError:
        if isinstance(x, dict):
            return {str(k): _jsonable_deep(v) for k, v in x.items()}
        if isinstance(x, (list, tuple)):
            return [_jsonable_deep(v) for v in x]
        return str(x)


class _Ob:
    def __init__(self, d):
        self.__dict__.update(d)
        self.hyps = [None] * d.get("nhyps", 0)


def run_jobs(jobs):
    from concurrent.futures import ProcessPoolExecutor
    nproc = int(os.environ.get("PYVC_WORKERS", "12"))
    outs = []
    if len(jobs) == 1 or nproc <= 1:
        raw = [_worker(j) for j in jobs]
    else:
        # one fresh process per job: module-level tables (interned literals, axioms, lazily allocated objects) never leak from one
        # unit into the next, so what a unit generates does not depend on how jobs happen to be scheduled
        with ProcessPoolExecutor(max_workers=min(nproc, len(jobs)), max_tasks_per_child=1) as ex:
            raw = list(ex.map(_worker, jobs))
    for lst in raw:
        for d in lst:
            r = _Res()
            r.unit, r.status, r.detail, r.gen_time, r.info = d["unit"], d["status"], d["detail"], d["gen_time"], d["info"]
            r.unit_kind, r.deductive = d["unit_kind"], d["deductive"]
            r.obligations = [_Ob(o) for o in d["obligations"]]
            outs.append(r)
    return outs


def _jsonable(d):
    out = {}
    for k, v in (d or {}).items():
        try:
            json.dumps(v)
            out[k] = v
        except TypeError:
            out[k] = str(v)
    return out


def do_replay(index, prop, path):
    rec = json.load(open(path))
    nn = rec["obligation"]
    for prefix, fn in prop.replayers.items():
        if nn.startswith(prefix) or fnmatch.fnmatch(nn, prefix):
            class _Ob:
                name = rec["instances"][0]
                model = rec.get("model")
                meta = rec.get("meta", {})
                site = rec.get("site")
                kind = rec.get("kind")
            r = fn(index, _Ob, 0, saved=rec.get("replay"))
            print(json.dumps(r, indent=1, default=str))
            return 1 if r.get("found") else 0
    print("no replayer for", nn)
    return 2


if __name__ == "__main__":
    sys.exit(main())
