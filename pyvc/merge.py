"""State merging at if-joins (DESIGN 1.4 'Splitting vs merging')."""
from __future__ import annotations

import z3

from .seqs import ite
from .state import OutOfSubset
from .values import DictObj, ListObj, RecObj, Ref, to_z3


def merge_states(I, base, c, a, b):
    """Merge the normal-exit states of the two branches of `if c:`; returns None if not mergeable."""
    m = base.fork()
    try:
        names = set(a.env) | set(b.env)
        for n in names:
            if n.startswith("__"):
                continue
            if n not in a.env or n not in b.env:
                # bound on one side only: keep it bound (use is guarded by the program's own logic)
                m.env[n] = a.env.get(n, b.env.get(n))
                continue
            va, vb = a.env[n], b.env[n]
            m.env[n] = va if va is vb else ite(m, c, va, vb)
        for oid in set(a.heap) | set(b.heap):
            oa, ob = a.heap.get(oid), b.heap.get(oid)
            if oa is None or ob is None:
                m.heap[oid] = (oa or ob).clone()
                continue
            m.heap[oid] = merge_obj(m, c, oa, ob)
        for g in set(a.ghost) | set(b.ghost):
            ga, gb = a.ghost.get(g), b.ghost.get(g)
            if ga is gb:
                m.ghost[g] = ga
            elif g in a.ghost and g in b.ghost and z3.is_expr(ga) and z3.is_expr(gb):
                m.ghost[g] = z3.If(c, ga, gb)
            else:
                return None
        # path conditions: common prefix is base.pc; branch-local assumptions become implications
        la, lb = a.pc[len(base.pc) + 1:], b.pc[len(base.pc) + 1:]
        m.pc = list(base.pc) + [z3.Implies(c, x) for x in la] + [z3.Implies(z3.Not(c), x) for x in lb]
        if len(a.effects) != len(base.effects) or len(b.effects) != len(base.effects):
            return None
        return m
    except OutOfSubset:
        return None


def merge_obj(m, c, oa, ob):
    if type(oa) is not type(ob):
        raise OutOfSubset("merge of different object kinds")
    if isinstance(oa, ListObj):
        if oa.concrete and ob.concrete:
            if len(oa.items) == len(ob.items):
                return ListObj(items=[x if x is y else ite(m, c, x, y) for x, y in zip(oa.items, ob.items)], fresh=oa.fresh, elem=oa.elem)
            # guarded suffixes after the common prefix
            k = 0
            while k < min(len(oa.items), len(ob.items)) and oa.items[k] is ob.items[k]:
                k += 1
            from .seqs import as_symlist
        from .seqs import as_symlist
        la, ga = as_symlist(m, oa)
        lb, gb = as_symlist(m, ob)
        return ListObj(length=z3.If(c, la, lb), get=lambda j: ite(m, c, ga(j), gb(j)), fresh=oa.fresh, elem=oa.elem)
    if isinstance(oa, RecObj):
        fields = {}
        for f in set(oa.fields) | set(ob.fields):
            if f not in oa.fields or f not in ob.fields:
                raise OutOfSubset("merge of records with different fields")
            x, y = oa.fields[f], ob.fields[f]
            fields[f] = x if x is y else ite(m, c, x, y)
        r = oa.clone()
        r.fields = fields
        return r
    if isinstance(oa, DictObj):
        keys = list(oa.items) + [k for k in ob.items if k not in oa.items]
        items, present = {}, {}
        for k in keys:
            pa = oa.present.get(k, True) if k in oa.items else False
            pb = ob.present.get(k, True) if k in ob.items else False
            if k in oa.items and k in ob.items:
                x, y = oa.items[k], ob.items[k]
                items[k] = x if x is y else ite(m, c, x, y)
            else:
                items[k] = oa.items.get(k, ob.items.get(k))
            if pa is True and pb is True:
                continue
            present[k] = z3.If(c, to_z3(pa), to_z3(pb))
        return DictObj(items=items, present=present, fresh=oa.fresh)
    from .values import FrameObj, SetObj
    if isinstance(oa, FrameObj):
        r = oa.clone()
        for col in r.cols:
            if not oa.cols[col].eq(ob.cols[col]):
                r.cols[col] = z3.If(c, oa.cols[col], ob.cols[col])
        return r
    if isinstance(oa, SetObj):
        if oa.items is not None and ob.items is not None and len(oa.items) == len(ob.items) and all(x is y for x, y in zip(oa.items, ob.items)):
            return oa.clone()
        raise OutOfSubset("merge of sets")
    raise OutOfSubset("merge of objects")


def merge_outcomes(I, base, outs):
    """Join the normal outcomes of one statement (contract option `merge_calls`) into a single state whose values are ite terms
    over the outcomes' local path conditions; exceptional outcomes are kept as they are.  Returns None when not mergeable
    (different effects / ghost kinds / object kinds), in which case the caller keeps the separate paths."""
    normals = [o for o in outs if o.kind == "normal"]
    rest = [o for o in outs if o.kind != "normal"]
    if len(normals) < 2:
        return None
    nb = len(base.pc)

    def local(s):
        loc = [x for x in s.pc[nb:]]
        return z3.And(*loc) if loc else z3.BoolVal(True)
    try:
        cur = normals[0].state
        for o in normals[1:]:
            b = o.state
            if len(cur.effects) != len(base.effects) or len(b.effects) != len(base.effects) or cur.guards != b.guards:
                return None
            ca, cb = local(cur), local(b)
            m = base.fork()
            for n in set(cur.env) | set(b.env):
                if n not in cur.env or n not in b.env:
                    m.env[n] = cur.env.get(n, b.env.get(n))
                    continue
                va, vb = cur.env[n], b.env[n]
                m.env[n] = va if va is vb else ite(m, ca, va, vb)
            for oid in set(cur.heap) | set(b.heap):
                oa, ob = cur.heap.get(oid), b.heap.get(oid)
                if oa is None or ob is None:
                    m.heap[oid] = (oa or ob).clone()
                else:
                    m.heap[oid] = merge_obj(m, ca, oa, ob)
            for g in set(cur.ghost) | set(b.ghost):
                ga, gb = cur.ghost.get(g), b.ghost.get(g)
                if ga is gb or (z3.is_expr(ga) and z3.is_expr(gb) and ga.eq(gb)):
                    m.ghost[g] = ga
                elif g in cur.ghost and g in b.ghost and z3.is_expr(ga) and z3.is_expr(gb):
                    m.ghost[g] = z3.If(ca, ga, gb)
                else:
                    return None
            m.pc = list(base.pc) + [z3.Or(ca, cb)]
            m.path = list(cur.path)
            cur = m
        from .state import Outcome
        return rest + [Outcome("normal", cur)]
    except OutOfSubset:
        return None
