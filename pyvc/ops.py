"""Scalar operations on symbolic values: truthiness, arithmetic, comparison, string building."""
from __future__ import annotations

import math
from fractions import Fraction

import z3

from .state import OutOfSubset
from .values import (Chr, ClassVal, Cursor, Dec, DictObj, Fmt, FrameObj, ListObj, Opt, RecObj, Ref, Rope, SetObj, Tok,
                     StrSort, ValSort, is_strterm, is_stringy, lit, norm_str, rope_of, str_len, to_z3, val_null,
                     val_str, FuncVal, BoundMethod, ModuleVal, Unknown)


def simp(t):
    return z3.simplify(t) if z3.is_expr(t) else t


def concrete_bool(t):
    """Python bool if the z3 Bool term is syntactically decided, else None."""
    if isinstance(t, bool):
        return t
    t = z3.simplify(t)
    if z3.is_true(t):
        return True
    if z3.is_false(t):
        return False
    return None


def concrete_int(t):
    if isinstance(t, bool):
        return int(t)
    if isinstance(t, int):
        return t
    if z3.is_expr(t):
        t = z3.simplify(t)
        if z3.is_int_value(t):
            return t.as_long()
    return None


def truth(state, v):
    """Python truthiness of a value as a z3 Bool or Python bool."""
    if v is None:
        return False
    if isinstance(v, (bool, int, float, str, tuple)):
        return bool(v)
    if isinstance(v, Opt):
        t = truth(state, v.payload)
        return z3.And(z3.Not(v.isnone), to_z3(t))
    if z3.is_expr(v):
        if z3.is_bool(v):
            return v
        if z3.is_int(v) or z3.is_real(v):
            return v != 0
        if v.sort() == StrSort:
            return v != lit("")
        if v.sort() == ValSort:
            from .values import val_truthy
            return z3.And(z3.Not(val_null(v)), val_truthy(v))
    if isinstance(v, Rope):
        if any(isinstance(p, str) and p for p in v.pieces) or any(isinstance(p, (Chr, Dec, Fmt, Tok)) for p in v.pieces):
            return True
        return z3.Or(*[p != lit("") for p in v.pieces]) if v.pieces else False
    from .values import MatrixObj, RowView
    if isinstance(v, RowView):
        return state.obj(v.matrix).cols > 0
    if isinstance(v, Ref):
        o = state.obj(v)
        if isinstance(o, MatrixObj):
            return o.rows > 0
        if isinstance(o, ListObj):
            return len(o.items) > 0 if o.concrete else o.length > 0
        if isinstance(o, DictObj):
            if not o.present:
                return len(o.items) > 0
            conds = [o.present.get(k, True) for k in o.items]
            if any(c is True for c in conds):
                return True
            return z3.Or(*[to_z3(c) for c in conds]) if conds else False
        if isinstance(o, SetObj):
            if o.items is not None:
                return len(o.items) > 0
            ne = getattr(o, "nonempty", None)
            if ne is None:
                raise OutOfSubset("truthiness of a symbolic set")
            return ne
        if isinstance(o, FrameObj):
            return o.n > 0
        return True
    if isinstance(v, (ClassVal, FuncVal, BoundMethod, ModuleVal, Cursor)):
        return True
    raise OutOfSubset(f"truthiness of {v!r}")


def is_real_valued(v):
    return isinstance(v, float) or (z3.is_expr(v) and z3.is_real(v))


def num(v):
    if isinstance(v, bool):
        return z3.IntVal(int(v))
    if z3.is_expr(v) and z3.is_bool(v):
        return z3.If(v, 1, 0)
    return to_z3(v)


def arith(op: str, a, b):
    """Binary arithmetic with Python semantics on int/real (floats treated as exact reals)."""
    if isinstance(a, (int, float)) and isinstance(b, (int, float)) and not (isinstance(a, float) or isinstance(b, float)):
        try:
            return {"+": lambda: a + b, "-": lambda: a - b, "*": lambda: a * b, "//": lambda: a // b,
                    "%": lambda: a % b, "/": lambda: Fraction(a, b), "**": lambda: a ** b}[op]()
        except ZeroDivisionError:
            raise
    if isinstance(a, (int, float, Fraction)) and isinstance(b, (int, float, Fraction)):
        fa, fb = _frac(a), _frac(b)
        r = {"+": lambda: fa + fb, "-": lambda: fa - fb, "*": lambda: fa * fb, "/": lambda: fa / fb}.get(op)
        if r is not None:
            return r()
    za, zb = num(_unfrac(a)), num(_unfrac(b))
    if za.sort() != zb.sort() or op == "/":
        za, zb = to_real(za), to_real(zb)
    if op == "+":
        return za + zb
    if op == "-":
        return za - zb
    if op == "*":
        return za * zb
    if op == "/":
        if ABSTRACT_DIV and not z3.is_rational_value(z3.simplify(zb)):
            # contract option `abstract_division`: x / y with a symbolic divisor is the uninterpreted quotient rdiv(x, y) (only
            # congruence is used); keeps nonlinear real division out of proofs that do not depend on its arithmetic
            return RDIV(za, zb)
        return za / zb
    if op == "//":
        if z3.is_int(za) and z3.is_int(zb):
            # Python floor division == z3 div for positive divisor; for negative divisor adjust
            return _floordiv(za, zb)
        raise OutOfSubset("floor division on reals")
    if op == "%":
        if z3.is_int(za) and z3.is_int(zb):
            return _pymod(za, zb)
        raise OutOfSubset("modulo on reals")
    raise OutOfSubset(f"arithmetic operator {op}")


def _floordiv(a, b):
    # z3 integer div rounds so that remainder is non-negative: a = b*q + r, 0 <= r < |b|.
    # Python floors.  They agree when b > 0.  For b < 0: python q = -( (-a) floordiv (-b) ) ... use definition.
    return z3.If(b > 0, a / b, z3.If(a % b == 0, a / b, a / b - 1))


def _pymod(a, b):
    # python: a - b*floor(a/b); for b > 0 equals z3 mod.
    return z3.If(b > 0, a % b, a - b * _floordiv(a, b))


def _frac(v):
    if isinstance(v, Fraction):
        return v
    if isinstance(v, float):
        return Fraction(v).limit_denominator(10 ** 12)
    return Fraction(v)


def _unfrac(v):
    if isinstance(v, Fraction):
        if v.denominator == 1:
            return int(v)
        return z3.RealVal(str(v))
    return v


def to_real(v):
    v = _unfrac(v)
    z = num(v)
    return z3.ToReal(z) if z3.is_int(z) else z


def py_int(v):
    """int(x): truncation toward zero of a real; identity on ints."""
    if isinstance(v, Fraction):
        return int(v)
    if isinstance(v, bool):
        return int(v)
    if isinstance(v, (int, float)):
        return int(v)
    if z3.is_expr(v) and z3.is_int(v):
        return v
    if z3.is_expr(v) and z3.is_real(v):
        fl = z3.ToInt(v)                       # floor
        return z3.If(v >= 0, fl, z3.If(z3.ToReal(fl) == v, fl, fl + 1))
    if z3.is_expr(v) and z3.is_bool(v):
        return z3.If(v, 1, 0)
    raise OutOfSubset(f"int() of {v!r}")


PYROUND = z3.Function("pyround", z3.RealSort(), z3.IntSort())
RDIV = z3.Function("real_quotient", z3.RealSort(), z3.RealSort(), z3.RealSort())
ABSTRACT_DIV = False


def py_round(v, fresh=None):
    """round(x) to an integer: a deterministic function `pyround` with |pyround(x) - x| <= 1/2 (covers banker's
    rounding; two calls on equal arguments give equal results)."""
    if isinstance(v, Fraction):
        return round(v), []
    if isinstance(v, (int, float)) and not isinstance(v, bool):
        return round(v), []
    if z3.is_expr(v) and z3.is_int(v):
        return v, []
    if z3.is_expr(v) and z3.is_real(v):
        r = PYROUND(v)
        two = z3.RealVal(2)
        ax = [two * (z3.ToReal(r) - v) <= 1, two * (v - z3.ToReal(r)) <= 1]
        return r, ax
    raise OutOfSubset(f"round() of {v!r}")


def py_ceil(v):
    if isinstance(v, Fraction):
        return math.ceil(v)
    if isinstance(v, (int, float)):
        return math.ceil(v)
    if z3.is_expr(v) and z3.is_int(v):
        return v
    if z3.is_expr(v) and z3.is_real(v):
        fl = z3.ToInt(v)
        return z3.If(z3.ToReal(fl) == v, fl, fl + 1)
    raise OutOfSubset(f"ceil() of {v!r}")


def same_kind_eq(state, a, b):
    """a == b as z3 Bool / Python bool."""
    a, b = norm_str(a), norm_str(b)
    a, b = _unfrac(a) if isinstance(a, Fraction) else a, _unfrac(b) if isinstance(b, Fraction) else b
    if a is None or b is None:
        if isinstance(a, Opt):
            return a.isnone
        if isinstance(b, Opt):
            return b.isnone
        return a is None and b is None
    if isinstance(a, Opt) or isinstance(b, Opt):
        if isinstance(a, Opt) and isinstance(b, Opt):
            return z3.Or(z3.And(a.isnone, b.isnone),
                         z3.And(z3.Not(a.isnone), z3.Not(b.isnone), to_z3(same_kind_eq(state, a.payload, b.payload))))
        o, x = (a, b) if isinstance(a, Opt) else (b, a)
        return z3.And(z3.Not(o.isnone), to_z3(same_kind_eq(state, o.payload, x)))
    if isinstance(a, (bool, int, float, str)) and isinstance(b, (bool, int, float, str)) and not z3.is_expr(a) and not z3.is_expr(b):
        return a == b
    if is_stringy(a) and is_stringy(b):
        if isinstance(a, Rope) or isinstance(b, Rope):
            ra, rb = rope_of(a), rope_of(b)
            # a single symbolic character against a literal
            for x, y in ((ra, rb), (rb, ra)):
                if len(x.pieces) == 1 and isinstance(x.pieces[0], Chr) and y.is_concrete():
                    yl = y.concrete()
                    return (x.pieces[0].cp == ord(yl)) if len(yl) == 1 else False
            if len(ra.pieces) == len(rb.pieces) and all(_piece_same(p, q) for p, q in zip(ra.pieces, rb.pieces)):
                return True
            raise OutOfSubset("equality of built strings")
        return to_z3(a) == to_z3(b)
    if is_stringy(a) != is_stringy(b):
        if z3.is_expr(a) and a.sort() == ValSort or z3.is_expr(b) and b.sort() == ValSort:
            raise OutOfSubset("comparison of opaque value with string")
        return False
    if z3.is_expr(a) or z3.is_expr(b):
        za, zb = to_z3(a), to_z3(b)
        if z3.is_bool(za) != z3.is_bool(zb):
            za, zb = num(za), num(zb)
        if za.sort() != zb.sort():
            if (z3.is_int(za) or z3.is_real(za)) and (z3.is_int(zb) or z3.is_real(zb)):
                za, zb = to_real(za), to_real(zb)
            else:
                return False
        return za == zb
    if isinstance(a, tuple) and isinstance(b, tuple):
        if len(a) != len(b):
            return False
        cs = [same_kind_eq(state, x, y) for x, y in zip(a, b)]
        if all(isinstance(c, bool) for c in cs):
            return all(cs)
        return z3.And(*[to_z3(c) for c in cs])
    if isinstance(a, Ref) and isinstance(b, Ref):
        oa, ob = state.obj(a), state.obj(b)
        if isinstance(oa, DictObj) and isinstance(ob, DictObj) and not oa.present and not ob.present:
            if list(oa.items.keys()) != list(ob.items.keys()) and set(oa.items) != set(ob.items):
                return False
            cs = [same_kind_eq(state, oa.items[k], ob.items[k]) for k in oa.items]
            if all(isinstance(c, bool) for c in cs):
                return all(cs)
            return z3.And(*[to_z3(c) for c in cs])
        if isinstance(oa, ListObj) and isinstance(ob, ListObj) and oa.concrete and ob.concrete:
            if len(oa.items) != len(ob.items):
                return False
            cs = [same_kind_eq(state, x, y) for x, y in zip(oa.items, ob.items)]
            if all(isinstance(c, bool) for c in cs):
                return all(cs)
            return z3.And(*[to_z3(c) for c in cs])
        if a.oid == b.oid:
            return True
        if isinstance(oa, ListObj) and isinstance(ob, ListObj):
            from .seqs import as_symlist
            la, ga = as_symlist(state, oa)
            lb, gb = as_symlist(state, ob)
            conc = oa if oa.concrete else (ob if ob.concrete else None)
            if conc is not None:
                n = len(conc.items)
                return z3.And(la == lb, *[to_z3(same_kind_eq(state, ga(z3.IntVal(k)), gb(z3.IntVal(k)))) for k in range(n)])
            from .values import fresh_name
            j = z3.Int(fresh_name("eqj"))
            return z3.And(la == lb, z3.ForAll([j], z3.Implies(z3.And(j >= 0, j < la), to_z3(same_kind_eq(state, ga(j), gb(j))))))
        raise OutOfSubset("equality of symbolic containers")
    if isinstance(a, ClassVal) and isinstance(b, ClassVal):
        return a.name == b.name
    if type(a) != type(b):
        return False
    raise OutOfSubset(f"equality of {a!r} and {b!r}")


def _piece_same(p, q):
    if isinstance(p, str) and isinstance(q, str):
        return p == q
    if z3.is_expr(p) and z3.is_expr(q):
        return p.eq(q)
    if isinstance(p, Chr) and isinstance(q, Chr):
        return z3.is_expr(p.cp) and z3.is_expr(q.cp) and p.cp.eq(q.cp)
    if isinstance(p, Dec) and isinstance(q, Dec):
        return z3.is_expr(p.n) and z3.is_expr(q.n) and p.n.eq(q.n)
    return False


def compare(state, op: str, a, b):
    if op == "==":
        return same_kind_eq(state, a, b)
    if op == "!=":
        e = same_kind_eq(state, a, b)
        return (not e) if isinstance(e, bool) else z3.Not(e)
    if isinstance(a, Fraction):
        a = _unfrac(a)
    if isinstance(b, Fraction):
        b = _unfrac(b)
    if isinstance(a, (int, float)) and isinstance(b, (int, float)):
        return {"<": a < b, "<=": a <= b, ">": a > b, ">=": a >= b}[op]
    if isinstance(a, Opt) or isinstance(b, Opt) or a is None or b is None:
        raise OutOfSubset("ordering comparison with None")
    za, zb = num(a), num(b)
    if za.sort() != zb.sort():
        za, zb = to_real(za), to_real(zb)
    return {"<": za < zb, "<=": za <= zb, ">": za > zb, ">=": za >= zb}[op]


def str_of(state, v):
    """str(v) as a string value (python str | Rope | Str term)."""
    v = norm_str(v)
    if isinstance(v, (str, Rope)) or is_strterm(v):
        return v
    if isinstance(v, Fraction):
        v = _unfrac(v)
    if isinstance(v, bool):
        return str(v)
    if isinstance(v, int):
        return str(v)
    if isinstance(v, float):
        return str(v)
    if v is None:
        return "None"
    if z3.is_expr(v):
        if z3.is_int(v):
            c = concrete_int(v)
            return str(c) if c is not None else Rope((Dec(v),))
        if z3.is_real(v):
            return Rope((Fmt(v),))
        if z3.is_bool(v):
            return z3.If(v, lit("True"), lit("False"))
        if v.sort() == ValSort:
            return val_str(v)
    if isinstance(v, Opt):
        inner = str_of(state, v.payload)
        if isinstance(inner, (str,)) or is_strterm(inner):
            return z3.If(v.isnone, lit("None"), to_z3(inner))
        raise OutOfSubset("str() of optional built string")
    if isinstance(v, (Tok, Chr, Dec, Fmt)):
        return Rope((v,))
    if isinstance(v, ClassVal) or isinstance(v, Ref):
        from .values import fresh_name
        return z3.Const(fresh_name("str.of.object"), StrSort)     # message text: opaque
    raise OutOfSubset(f"str() of {v!r}")


def concat(a, b):
    a, b = norm_str(a), norm_str(b)
    if isinstance(a, str) and isinstance(b, str):
        return a + b
    return norm_str(Rope((rope_of(a), rope_of(b))))
