"""Execution state, outcomes and control signals of the symbolic executor."""
from __future__ import annotations

import itertools
import z3

from .values import Ref, HeapObj

_oid = itertools.count(1)
LAZY: dict = {}     # oid -> HeapObj: objects created lazily by symbolic getters (state independent initial content)


def lazy_alloc(obj) -> Ref:
    oid = next(_oid)
    LAZY[oid] = obj
    return Ref(oid)


CONTRACT_ASSUMES = set()      # (contracts file, line, function) of every State.assume executed from contract code in this process


class OutOfSubset(Exception):
    """The function uses something the executor does not implement -> verdict UNDECIDED (exit 2)."""


class ContractError(Exception):
    """The sidecar contract cannot be bound to the code (renamed variable, missing loop, ...) -> exit 2."""


class ForkRequest(Exception):
    def __init__(self, cond):
        self.cond = cond


class Infeasible(Exception):
    pass


class SymRaise(Exception):
    """Evaluation definitely raises `exc` (a ClassVal) in `state`."""

    def __init__(self, exc, state, msg=None, site=None):
        self.exc, self.state, self.msg, self.site = exc, state, msg, site


class Outcome:
    __slots__ = ("kind", "state", "value", "site")

    def __init__(self, kind, state, value=None, site=None):
        self.kind, self.state, self.value, self.site = kind, state, value, site   # kind: normal|return|raise|break|continue

    def __repr__(self):
        return f"Outcome({self.kind}, {self.value!r})"


class Obligation:
    """One verification condition: hyps |- goal.  kind: safety | pre | inv-init | inv-preserve | post |
    raises | frame | lemma | cover (cover obligations expect SAT of hyps)."""
    __slots__ = ("name", "hyps", "goal", "kind", "site", "unit", "meta", "verdict", "backend", "time", "model")

    def __init__(self, name, hyps, goal, kind="post", site=None, unit=None, meta=None):
        self.name, self.hyps, self.goal, self.kind, self.site, self.unit = name, list(hyps), goal, kind, site, unit
        self.meta = meta or {}
        self.verdict = None
        self.backend = None
        self.time = 0.0
        self.model = None


class State:
    def __init__(self):
        self.env: dict = {}
        self.heap: dict[int, HeapObj] = {}
        self.pc: list = []
        self.guards: list = []        # temporary short-circuit guards while evaluating `a and b` / `a or b`
        self.ghost: dict = {}
        self.effects: list = []
        self.handlers: list = []       # stack of tuples of python exception classes handled by enclosing try blocks
        self.choices: list = []
        self.choice_pos: int = 0
        self.path: list = []           # human readable branch trail

    def fork(self) -> "State":
        s = State()
        s.env = dict(self.env)
        s.heap = {k: v.clone() for k, v in self.heap.items()}
        s.pc = list(self.pc)
        s.guards = list(self.guards)
        s.ghost = dict(self.ghost)
        s.effects = list(self.effects)
        s.handlers = list(self.handlers)
        s.choices = list(self.choices)
        s.choice_pos = self.choice_pos
        s.path = list(self.path)
        return s

    def alloc(self, obj: HeapObj) -> Ref:
        oid = next(_oid)
        self.heap[oid] = obj
        return Ref(oid)

    def obj(self, ref: Ref) -> HeapObj:
        o = self.heap.get(ref.oid)
        if o is None:
            o = LAZY[ref.oid].clone()
            self.heap[ref.oid] = o
        return o

    def assume(self, *conds):
        # an assumption stated by a sidecar contract (summary / handler / setup code) is recorded with its source location, so that the
        # evidence lists every assumed fact mechanically (assumed callee contracts, domain hygiene), not only the ones a contract author names
        import sys as _sys
        fr = _sys._getframe(1)
        fn = fr.f_code.co_filename.replace("\\", "/")
        if "/contracts/" in fn:
            CONTRACT_ASSUMES.add((fn.split("/contracts/")[-1], fr.f_lineno, fr.f_code.co_name))
        for c in conds:
            if c is True:
                continue
            if z3.is_expr(c) and z3.is_true(c):
                continue
            if self.guards:
                c = z3.Implies(z3.And(*self.guards), c)
            self.pc.append(c)
