"""Symbolic value domain of the executor.

Scalars are z3 terms (Int / Real / Bool) or plain Python constants.  Symbolic strings are terms of
the uninterpreted sort `Str`; Python string literals are interned as distinct constants of that sort
on demand.  Built text is a `Rope` (tuple of pieces).  Mutable objects live in the state's heap and
are referenced through `Ref`.
"""
from __future__ import annotations

import itertools
import z3

StrSort = z3.DeclareSort("Str")
ValSort = z3.DeclareSort("Val")          # opaque data values (DataFrame cells, dict payloads)

_counter = itertools.count()


def fresh_name(prefix: str) -> str:
    return f"{prefix}!{next(_counter)}"


# ----------------------------------------------------------------------------------------------
# string literals
class _Interner:
    def __init__(self):
        self.table: dict[str, z3.ExprRef] = {}

    def lit(self, s: str) -> z3.ExprRef:
        if s not in self.table:
            self.table[s] = z3.Const("lit_" + "".join(f"{ord(c):02x}" for c in s[:40]) + f"_{len(self.table)}", StrSort)
        return self.table[s]

    def axioms(self) -> list:
        cs = list(self.table.values())
        return [z3.Distinct(*cs)] if len(cs) > 1 else []

    def name_of(self, term) -> str | None:
        for k, v in self.table.items():
            if v.eq(term):
                return k
        return None


INTERN = _Interner()
AXIOMS: list = []     # global well-formedness facts about uninterpreted functions introduced by the value model


def lit(s: str):
    return INTERN.lit(s)


# measure functions on Str terms (uninterpreted; laws for concatenation are applied structurally on Ropes)
str_len = z3.Function("str_len", StrSort, z3.IntSort())
m_bal = z3.Function("m_bal", StrSort, z3.IntSort())        # #'{' - #'}' (unescaped)
m_low = z3.Function("m_low", StrSort, z3.IntSort())        # minimal prefix balance (<= 0)
m_ascii = z3.Function("m_ascii", StrSort, z3.BoolSort())   # all characters <= 0x7f
val_str = z3.Function("val_str", ValSort, StrSort)         # str(v) for an opaque data value
val_null = z3.Function("val_null", ValSort, z3.BoolSort())
val_truthy = z3.Function("val_truthy", ValSort, z3.BoolSort())      # bool(v): unconstrained for non-null values (0, '' are falsy)


# ----------------------------------------------------------------------------------------------
class Ref:
    """Reference to a heap object."""
    __slots__ = ("oid",)

    def __init__(self, oid: int):
        self.oid = oid

    def __repr__(self):
        return f"Ref({self.oid})"

    def __eq__(self, other):
        return isinstance(other, Ref) and other.oid == self.oid

    def __hash__(self):
        return hash(("Ref", self.oid))


class Opt:
    """Optional value: `isnone` is a z3 Bool; payload is meaningful when not none."""
    __slots__ = ("isnone", "payload")

    def __init__(self, isnone, payload):
        self.isnone, self.payload = isnone, payload

    def __repr__(self):
        return f"Opt({self.isnone}, {self.payload!r})"


class Chr:
    """Rope piece: the single character with code point `cp` (z3 Int)."""
    __slots__ = ("cp",)

    def __init__(self, cp):
        self.cp = cp

    def __repr__(self):
        return f"Chr({self.cp})"


class Dec:
    """Rope piece: decimal rendering str(n) of an integer term."""
    __slots__ = ("n",)

    def __init__(self, n):
        self.n = n

    def __repr__(self):
        return f"Dec({self.n})"


class Fmt:
    """Rope piece: str() of a non-integer scalar (a Real) - lexically NOT a valid RTF numeric parameter."""
    __slots__ = ("v",)

    def __init__(self, v):
        self.v = v

    def __repr__(self):
        return f"Fmt({self.v})"


class Tok:
    """Rope piece / list element: an abstract tagged chunk (token view of DESIGN 1.5)."""
    __slots__ = ("tag", "fields")

    def __init__(self, tag, **fields):
        self.tag, self.fields = tag, fields

    def __repr__(self):
        return f"Tok({self.tag}, {self.fields})"


class Rope:
    """Immutable concatenation of pieces: str literal | Chr | Dec | Fmt | Tok | z3 Str term."""
    __slots__ = ("pieces",)

    def __init__(self, pieces=()):
        flat = []
        for p in pieces:
            if isinstance(p, Rope):
                flat.extend(p.pieces)
            else:
                flat.append(p)
        out = []
        for p in flat:
            if isinstance(p, str):
                if p == "":
                    continue
                if out and isinstance(out[-1], str):
                    out[-1] = out[-1] + p
                else:
                    out.append(p)
            else:
                out.append(p)
        self.pieces = tuple(out)

    def __repr__(self):
        return f"Rope{self.pieces!r}"

    def is_concrete(self):
        return all(isinstance(p, str) for p in self.pieces)

    def concrete(self):
        return "".join(self.pieces)


def rope_of(v):
    if isinstance(v, Rope):
        return v
    if isinstance(v, str):
        return Rope((v,))
    if isinstance(v, (Chr, Dec, Fmt, Tok)):
        return Rope((v,))
    if z3.is_expr(v) and v.sort() == StrSort:
        return Rope((v,))
    raise TypeError(f"not a string value: {v!r}")


def norm_str(v):
    """Collapse a fully concrete Rope to a Python str."""
    if isinstance(v, Rope) and v.is_concrete():
        return v.concrete()
    if isinstance(v, Rope) and len(v.pieces) == 1 and z3.is_expr(v.pieces[0]):
        return v.pieces[0]
    return v


# ---- measures of literal text -------------------------------------------------------------------
def lit_bal_low(s: str):
    """(bal, low) of a literal: counts unescaped braces; `\\{`, `\\}` and `\\\\` are escapes."""
    bal = 0
    low = 0
    i = 0
    while i < len(s):
        c = s[i]
        if c == "\\" and i + 1 < len(s) and s[i + 1] in "{}\\":
            i += 2
            continue
        if c == "{":
            bal += 1
        elif c == "}":
            bal -= 1
            low = min(low, bal)
        i += 1
    return bal, low


def _term_measure(t, lit_fn, unint_fn):
    """Measure of a Str term: literals concretely, if-then-else structurally, anything else uninterpreted."""
    if z3.is_app_of(t, z3.Z3_OP_ITE):
        c, a, b = t.children()
        return z3.If(c, _term_measure(a, lit_fn, unint_fn), _term_measure(b, lit_fn, unint_fn))
    nm = INTERN.name_of(t)
    if nm is not None:
        return lit_fn(nm)
    return unint_fn(t)


def _tok_measure(p, which):
    """A token's measure: what its creator stated, otherwise an UNKNOWN (fresh, unconstrained) value - never a silent default."""
    if which not in p.fields:
        nm = fresh_name(f"tok_{p.tag}_{which}")
        p.fields[which] = z3.Bool(nm) if which == "ascii" else z3.Int(nm)
        if which == "low":
            pass
    return p.fields[which]


def rope_bal_low(r):
    """(bal, low) of a rope as z3 terms, by the homomorphism laws."""
    bal = z3.IntVal(0)
    low = z3.IntVal(0)
    for p in rope_of(r).pieces:
        if isinstance(p, str):
            b, l = lit_bal_low(p)
            pb, pl = z3.IntVal(b), z3.IntVal(l)
        elif isinstance(p, (Dec, Fmt)):
            pb, pl = z3.IntVal(0), z3.IntVal(0)
        elif isinstance(p, Chr):
            pb = z3.If(p.cp == 123, 1, z3.If(p.cp == 125, -1, 0))
            pl = z3.If(p.cp == 125, -1, 0)
        elif isinstance(p, Tok):
            pb, pl = _tok_measure(p, "bal"), _tok_measure(p, "low")
        else:
            pb = _term_measure(p, lambda x: z3.IntVal(lit_bal_low(x)[0]), m_bal)
            pl = _term_measure(p, lambda x: z3.IntVal(lit_bal_low(x)[1]), m_low)
        low = z3.If(low <= bal + pl, low, bal + pl)
        bal = bal + pb
    return z3.simplify(bal), z3.simplify(low)


def rope_ascii(r):
    cs = []
    for p in rope_of(r).pieces:
        if isinstance(p, str):
            if not all(ord(c) < 128 for c in p):
                return z3.BoolVal(False)
        elif isinstance(p, (Dec, Fmt)):
            pass
        elif isinstance(p, Chr):
            cs.append(z3.And(p.cp >= 0, p.cp <= 127))
        elif isinstance(p, Tok):
            cs.append(_tok_measure(p, "ascii"))
        else:
            cs.append(_term_measure(p, lambda x: z3.BoolVal(all(ord(ch) < 128 for ch in x)), m_ascii))
    return z3.And(*cs) if cs else z3.BoolVal(True)


# ----------------------------------------------------------------------------------------------
# heap objects
class HeapObj:
    kind = "obj"

    def clone(self):
        raise NotImplementedError


class ListObj(HeapObj):
    """A Python list.  Concrete shape: `items` is a Python list of values.  Symbolic shape:
    `length` is a z3 Int term and `get(idx_term)` returns the element value."""
    kind = "list"

    def __init__(self, items=None, length=None, get=None, fresh=True, elem=None):
        self.items = items
        self.length = length
        self.get = get
        self.fresh = fresh       # constructed in this activation (frame analysis)
        self.elem = elem         # element descriptor used when the list has to be havoc'ed
        self.tag = None           # free slot for contracts (e.g. the row index of a lazily created row list)
        self.arr = None           # z3 Array term when the list is array backed and unmodified (identity for list functions)
        self.elems_fresh = False  # every element is a distinct object created for this list (comprehension of fresh values)

    @property
    def concrete(self):
        return self.items is not None

    def clone(self):
        c = ListObj(None if self.items is None else list(self.items), self.length, self.get, self.fresh, self.elem)
        c.elems_fresh = self.elems_fresh
        c.arr = self.arr
        c.tag = self.tag
        mo = getattr(self, "member_override", None)
        if mo is not None:
            c.member_override = mo            # "bag" lists of a library / contract model: only membership is defined
        return c

    def len_term(self):
        return len(self.items) if self.concrete else self.length


class DictObj(HeapObj):
    """A dict with concrete (hashable Python) keys, insertion ordered.  `present[k]` may be a z3 Bool when a
    key is only conditionally present (merge of branches / filtered comprehension)."""
    kind = "dict"

    def __init__(self, items=None, present=None, fresh=True):
        self.items = dict(items or {})
        self.present = dict(present or {})
        self.fresh = fresh

    def clone(self):
        return DictObj(self.items, self.present, self.fresh)


class RecObj(HeapObj):
    """A plain object / pydantic model: named fields."""
    kind = "rec"

    def __init__(self, cls: str, fields=None, pyclass=None, fresh=True, origin=None):
        self.cls = cls
        self.fields = dict(fields or {})
        self.pyclass = pyclass
        self.fresh = fresh
        self.origin = origin     # 'CALLER' | 'GLOBAL' | 'FRESH' | 'SHALLOW' (frame analysis)

    def clone(self):
        return RecObj(self.cls, self.fields, self.pyclass, self.fresh, self.origin)


class FrameObj(HeapObj):
    """Struct-of-arrays view of a list of row records (`DataFrame.to_dicts()`): one z3 Array per column."""
    kind = "frame"

    def __init__(self, n, cols, fresh=True):
        self.n = n
        self.cols = dict(cols)
        self.fresh = fresh

    def clone(self):
        return FrameObj(self.n, self.cols, self.fresh)


class MatrixObj(HeapObj):
    """Rectangular nested list (list of equally long row lists) with place semantics: `cell(r, c)` gives the element;
    rows are accessed through `RowView` values so that stores through a symbolic row index are seen by all reads."""
    kind = "matrix"

    def __init__(self, rows, cols, cell, fresh=True, elem=None):
        self.rows, self.cols, self.cell, self.fresh, self.elem = rows, cols, cell, fresh, elem

    def clone(self):
        return MatrixObj(self.rows, self.cols, self.cell, self.fresh, self.elem)


class RowView:
    """Row `r` of a MatrixObj (a list value aliasing the matrix)."""
    __slots__ = ("matrix", "r")

    def __init__(self, matrix: Ref, r):
        self.matrix, self.r = matrix, r

    def __repr__(self):
        return f"RowView({self.matrix}, {self.r})"


class Cursor:
    """Element of a FrameObj's row list: (frame ref, row index)."""
    __slots__ = ("frame", "idx")

    def __init__(self, frame: Ref, idx):
        self.frame, self.idx = frame, idx

    def __repr__(self):
        return f"Cursor({self.frame}, {self.idx})"


class SetObj(HeapObj):
    kind = "set"

    def __init__(self, items=None, member=None, fresh=True, nonempty=None):
        self.items = None if items is None else list(items)   # concrete elements
        self.member = member                                   # symbolic: callable(value)->z3 Bool
        self.fresh = fresh
        self.nonempty = nonempty                               # symbolic sets: z3 Bool "has at least one element"

    def clone(self):
        return SetObj(self.items, self.member, self.fresh, self.nonempty)


class ClassVal:
    """A class object (`cls` in validators, exception classes, repo classes)."""
    __slots__ = ("name", "pyclass")

    def __init__(self, name, pyclass=None):
        self.name, self.pyclass = name, pyclass

    def __repr__(self):
        return f"ClassVal({self.name})"


class FuncVal:
    """Nested def / lambda closure, or a repo function to be inlined."""
    __slots__ = ("node", "env", "self_val", "qualname", "module")

    def __init__(self, node, env=None, self_val=None, qualname=None, module=None):
        self.node, self.env, self.self_val, self.qualname, self.module = node, env, self_val, qualname, module

    def __repr__(self):
        return f"FuncVal({self.qualname or getattr(self.node, 'name', 'lambda')})"


class BoundMethod:
    __slots__ = ("recv", "name")

    def __init__(self, recv, name):
        self.recv, self.name = recv, name

    def __repr__(self):
        return f"BoundMethod({self.recv!r}.{self.name})"


class ModuleVal:
    __slots__ = ("name",)

    def __init__(self, name):
        self.name = name

    def __repr__(self):
        return f"ModuleVal({self.name})"


class Unknown:
    """A value the executor cannot interpret further (kept opaque; any use is out-of-subset)."""
    __slots__ = ("why",)

    def __init__(self, why):
        self.why = why

    def __repr__(self):
        return f"Unknown({self.why})"


# ----------------------------------------------------------------------------------------------
def is_z3(v):
    return z3.is_expr(v)


def is_bool(v):
    return isinstance(v, bool) or (z3.is_expr(v) and z3.is_bool(v))


def is_num(v):
    return (isinstance(v, (int, float)) and not isinstance(v, bool)) or (z3.is_expr(v) and (z3.is_int(v) or z3.is_real(v)))


def is_strterm(v):
    return z3.is_expr(v) and v.sort() == StrSort


def is_stringy(v):
    return isinstance(v, (str, Rope)) or is_strterm(v)


str_cat = z3.Function("str_cat", StrSort, StrSort, StrSort)
str_dec = z3.Function("str_dec", z3.IntSort(), StrSort)
str_chr = z3.Function("str_chr", z3.IntSort(), StrSort)
str_real = z3.Function("str_real", z3.RealSort(), StrSort)


def rope_term(r):
    """A built string as a single Str term (uninterpreted concatenation) - used when text is stored in symbolic containers."""
    ps = rope_of(r).pieces
    if not ps:
        return lit("")
    def one(p):
        if isinstance(p, str):
            return lit(p)
        if isinstance(p, Dec):
            return str_dec(p.n)
        if isinstance(p, Chr):
            return str_chr(p.cp)
        if isinstance(p, Fmt):
            return str_real(p.v)
        if z3.is_expr(p):
            return p
        raise TypeError(f"piece {p!r} has no term form")
    t = one(ps[0])
    for p in ps[1:]:
        t = str_cat(t, one(p))
    return t


def to_z3(v):
    """Coerce a scalar to a z3 term."""
    if z3.is_expr(v):
        return v
    if isinstance(v, Rope):
        return rope_term(v)
    if isinstance(v, bool):
        return z3.BoolVal(v)
    if isinstance(v, int):
        return z3.IntVal(v)
    if isinstance(v, float):
        from fractions import Fraction
        fr = Fraction(v).limit_denominator(10**12) if v == v else None
        return z3.RealVal(str(fr))
    if isinstance(v, str):
        return lit(v)
    from fractions import Fraction as _Fr
    if isinstance(v, _Fr):
        return z3.RealVal(str(v))
    raise TypeError(f"cannot coerce {v!r} to z3")
