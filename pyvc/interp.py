"""Statement-level symbolic executor (DESIGN Appendix D)."""
from __future__ import annotations

import ast

import z3

from .expr import ExprMixin
from .ops import concrete_bool, concrete_int, simp, truth
from .state import (ContractError, ForkRequest, Infeasible, Obligation, Outcome, OutOfSubset, State, SymRaise)
from .values import (ClassVal, Cursor, DictObj, FrameObj, FuncVal, ListObj, Opt, RecObj, Ref, Rope, SetObj, StrSort, ValSort,
                     fresh_name, is_strterm, lit, to_z3, INTERN)

FEAS_TIMEOUT_MS = 10000
FEAS_RLIMIT = 2000000


_QCACHE: dict = {}


def _has_quantifier(e):
    if not z3.is_expr(e):
        return False
    k = e.get_id()
    if k in _QCACHE:
        return _QCACHE[k]
    r = False
    if z3.is_quantifier(e):
        r = True
    else:
        for ch in e.children():
            if _has_quantifier(ch):
                r = True
                break
    _QCACHE[k] = r
    return r


class LoopSpec:
    """Sidecar specification of one loop (or comprehension) of the target function.

    inv(v)      -> dict clause name -> z3 Bool; `v` is a LoopView (index `v.i`, variables `v.<name>`)
    havoc       -> dict var name -> sort/desc override for variables modified by the body
    index       -> name used for the iteration counter in the view (default 'i')
    unroll      -> if an int N: the loop is known to run at most N times for the property's domain; executed N times
    """

    def __init__(self, inv=None, havoc=None, unroll=None, ghost_iter=None, variant=None, after=None, before=None,
                 on_break=None, ghost_vars=None, writes=None):
        self.writes = list(writes or [])
        self.inv, self.havoc, self.unroll, self.ghost_iter, self.variant, self.after = inv, dict(havoc or {}), unroll, ghost_iter, variant, after
        self.before, self.on_break, self.ghost_vars = before, on_break, ghost_vars


class LoopView:
    """What an invariant sees: the symbolic iteration index and the current values of program variables."""

    def __init__(self, interp, state, i, extra=None):
        self._interp, self._state, self.i = interp, state, i
        self._extra = extra or {}

    def __getattr__(self, name):
        if name.startswith("_"):
            raise AttributeError(name)
        if name in self._extra:
            return self._extra[name]
        st = self._state
        if name == "result" and "__comp_result__" in st.env:
            return st.env["__comp_result__"]
        if name in st.ghost:
            return st.ghost[name]
        try:
            return self._interp.lookup(st, name)
        except KeyError:
            raise ContractError(f"contract mentions variable '{name}' that is not bound at the loop")

    def obj(self, v):
        return self._state.obj(v)

    @property
    def state(self):
        return self._state


class Interp(ExprMixin):
    def __init__(self, ctx):
        self.ctx = ctx                      # VerifyCtx (contract, repo index, obligations)
        self.loop_counter = 0
        self.depth = 0

    # ------------------------------------------------------------------------------------------
    # bookkeeping
    def fresh(self, prefix, sort):
        return z3.Const(fresh_name(prefix), sort)

    def oblige(self, state, name, goal, kind="safety", site=None, meta=None):
        if isinstance(goal, bool):
            goal = z3.BoolVal(goal)
        if self.ctx.mute:
            return
        g = z3.simplify(goal)
        if z3.is_true(g):
            self.ctx.trivial += 1
            if kind in ("post", "inv-init", "inv-preserve", "raises", "pre"):
                ob = Obligation(f"{self.ctx.unit}#{name}", [], z3.BoolVal(True), kind, site, self.ctx.unit, meta)
                ob.verdict, ob.backend = "discharged", "z3-simplify"
                self.ctx.obligations.append(ob)
            return
        ob = Obligation(f"{self.ctx.unit}#{name}", list(state.pc) + list(state.guards), goal, kind, site, self.ctx.unit, meta)
        ob.meta.setdefault("path", list(state.path))
        self.ctx.obligations.append(ob)

    def feasible(self, state):
        """Over-approximate path feasibility: only the quantifier-free part of the path condition is consulted (dropping
        hypotheses can only make an infeasible path look feasible, never the converse), so the check stays cheap."""
        s = z3.Solver()
        # a deterministic resource limit (not wall-clock time) decides when the check gives up, so the explored path set does not
        # depend on machine load; the generous time limit is only a safety net
        s.set("rlimit", FEAS_RLIMIT)
        s.set("timeout", FEAS_TIMEOUT_MS)
        for a in INTERN.axioms():
            s.add(a)
        for h in list(state.pc) + list(state.guards):
            if not _has_quantifier(h):
                s.add(h)
        r = s.check()
        return r != z3.unsat

    def decide(self, state, cond, tag=""):
        """Branch on a condition.  Concrete -> python bool; symbolic -> fork through the decision oracle."""
        if isinstance(cond, bool):
            return cond
        cb = concrete_bool(cond)
        if cb is not None:
            return cb
        if state.choice_pos < len(state.choices):
            b = state.choices[state.choice_pos]
            state.choice_pos += 1
            state.pc.append(cond if b else z3.Not(cond))
            state.path.append(f"{tag}={'T' if b else 'F'}")
            if state.choice_pos == len(state.choices) and not self.feasible(state):
                raise Infeasible()
            return b
        raise ForkRequest(cond)

    def check(self, state, cond, exc_name, name, site=None):
        """Implicit-exception check: `cond` must hold or `exc_name` is raised here."""
        if isinstance(cond, bool) and cond:
            return
        exc = self.ctx.exc_class(exc_name)
        if self.handled(state, exc) or self.ctx.contract_allows(exc):
            if not self.decide(state, to_z3(cond), f"{name}"):
                raise SymRaise(ClassVal(exc_name, exc), state, msg=name, site=site)
            return
        self.oblige(state, f"safety.{name}@L{site}", cond, "safety", site)
        state.assume(to_z3(cond))

    def handled(self, state, exc):
        for hs in state.handlers:
            for h in hs:
                if h is None or issubclass(exc, h):
                    return True
        return False

    # ------------------------------------------------------------------------------------------
    # name lookup with closures
    def lookup(self, state, name):
        env = state.env
        while env is not None:
            if name in env:
                return env[name]
            env = env.get("__parent__")
        return self.ctx.resolve_global(state, state.env.get("__module__") or self.ctx.modname, name)

    # ------------------------------------------------------------------------------------------
    # statements
    def exec_block(self, state, stmts):
        """-> list[Outcome]"""
        outs = []
        work = [(state, 0)]
        while work:
            st, idx = work.pop()
            if idx >= len(stmts):
                outs.append(Outcome("normal", st))
                continue
            for o in self.exec_stmt(st, stmts[idx]):
                if o.kind == "normal":
                    work.append((o.state, idx + 1))
                else:
                    outs.append(o)
            if len(outs) + len(work) > self.ctx.max_paths:
                raise OutOfSubset(f"path explosion (> {self.ctx.max_paths} paths) at line {getattr(stmts[idx], 'lineno', '?')}")
        return outs

    def exec_stmt(self, st0, stmt):
        outs = self.exec_atomic(st0, lambda st: self._exec_stmt(st, stmt), getattr(stmt, "lineno", None))
        mc = getattr(self.ctx, "merge_calls", None)
        if mc and len(outs) > 1 and isinstance(stmt, ast.Assign) and isinstance(stmt.value, ast.Call) \
                and isinstance(stmt.value.func, ast.Name) and stmt.value.func.id in mc:
            from .merge import merge_outcomes
            merged = merge_outcomes(self, st0, outs)
            if merged is not None:
                return merged
        return outs

    def exec_atomic(self, st0, fn, site=None):
        """Run `fn(state) -> list[Outcome] | None` under the decision oracle: every symbolic branch taken through
        `decide` inside `fn` (outside nested statements) forks the whole atomic step."""
        pending = [[]]
        outs = []
        while pending:
            ch = pending.pop()
            st = st0.fork()
            st.choices, st.choice_pos = ch, 0
            try:
                res = fn(st)
                if res is None:
                    res = [Outcome("normal", st)]
                for o in res:
                    o.state.choices, o.state.choice_pos = [], 0
                outs.extend(res)
            except ForkRequest:
                pending.append(ch + [False])
                pending.append(ch + [True])
            except Infeasible:
                continue
            except SymRaise as r:
                r.state.choices, r.state.choice_pos = [], 0
                outs.append(Outcome("raise", r.state, r.exc, site=r.site or site))
        return outs

    def _exec_stmt(self, st, s):
        self.ctx.count_node(s)
        m = getattr(self, "st_" + type(s).__name__, None)
        if m is None:
            raise OutOfSubset(f"statement {type(s).__name__} at line {s.lineno}")
        res = m(st, s)
        if res is None:
            res = [Outcome("normal", st)]
        # ghost statements anchored after this statement
        if self.ctx.ghost_after:
            try:
                src = ast.unparse(s) if not isinstance(s, (ast.If, ast.For, ast.While, ast.Try, ast.With, ast.FunctionDef)) else None
            except Exception:
                src = None
            if src is not None:
                for pat, fn in self.ctx.ghost_after:
                    if src == pat:
                        for o in res:
                            if o.kind == "normal":
                                fn(self, o.state)
                        self.ctx.ghost_hits[pat] = self.ctx.ghost_hits.get(pat, 0) + 1
        return res

    # -- simple statements
    def st_Expr(self, st, s):
        if isinstance(s.value, ast.Constant):
            self.ctx.dropped("docstring/constant expression")
            return None
        self.eval(st, s.value)
        return None

    def st_Pass(self, st, s):
        return None

    def st_Import(self, st, s):
        for a in s.names:
            st.env[(a.asname or a.name).split(".")[0]] = self.ctx.import_name(a.name, None)
        self.ctx.dropped("function-local import (name bound through the real module)")
        return None

    def st_ImportFrom(self, st, s):
        mod = self.ctx.abs_module(st.env.get("__module__") or self.ctx.modname, s.module, s.level)
        for a in s.names:
            try:
                st.env[a.asname or a.name] = self.ctx.import_name(mod, a.name)
            except OutOfSubset as e:
                # a library function without a model: importing it is harmless, CALLING it needs a contract handler / library model
                st.env[a.asname or a.name] = ("library-function", mod, a.name, str(e))
        self.ctx.dropped("function-local import (name bound through the real module)")
        return None

    def st_Assign(self, st, s):
        tv = getattr(self.ctx.contract, "truth_vars", None)
        if tv and isinstance(s.value, ast.BoolOp) and len(s.targets) == 1 and isinstance(s.targets[0], ast.Name) and s.targets[0].id in tv:
            # contract option: this flag variable is only ever used as a truth value (listed in `truth_vars`, reported in
            # the evidence); bind it to the truth formula instead of forking on every operand
            self.ctx.note(f"truth-valued flag variable: {s.targets[0].id}")
            st.env[s.targets[0].id] = self.eval_cond(st, s.value)
            return None
        v = self.eval(st, s.value)
        for t in s.targets:
            self.assign(st, t, v)
        return None

    def st_AnnAssign(self, st, s):
        if s.value is not None:
            self.assign(st, s.target, self.eval(st, s.value))
        return None

    def st_AugAssign(self, st, s):
        cur = self.eval(st, s.target if not isinstance(s.target, ast.Name) else ast.Name(id=s.target.id, ctx=ast.Load()))
        rhs = self.eval(st, s.value)
        # list += list mutates in place
        if isinstance(cur, Ref) and isinstance(st.obj(cur), ListObj) and isinstance(s.op, ast.Add):
            self.call_method(st, cur, "extend", [rhs], {}, s)
            return None
        val = self.binop(st, s.op, cur, rhs, s)
        self.assign(st, s.target, val)
        return None

    def st_Return(self, st, s):
        v = self.eval(st, s.value) if s.value is not None else None
        return [Outcome("return", st, v, site=s.lineno)]

    def st_Raise(self, st, s):
        if s.exc is None:
            exc = st.env.get("__active_exc__")
            if exc is None:
                raise OutOfSubset("bare raise outside handler")
            return [Outcome("raise", st, exc, site=s.lineno)]
        v = self.eval(st, s.exc)
        if isinstance(v, ClassVal):
            exc = v
        elif isinstance(v, Ref) and isinstance(st.obj(v), RecObj) and st.obj(v).pyclass is not None:
            exc = ClassVal(st.obj(v).cls, st.obj(v).pyclass)
        else:
            raise OutOfSubset(f"raise of {v!r}")
        return [Outcome("raise", st, exc, site=s.lineno)]

    def st_Assert(self, st, s):
        c = self.eval_cond(st, s.test)
        self.check(st, c, "AssertionError", "assert", s.lineno)
        return None

    def st_Break(self, st, s):
        return [Outcome("break", st)]

    def st_Continue(self, st, s):
        return [Outcome("continue", st)]

    def st_FunctionDef(self, st, s):
        outer = st.env.get("__func__")
        st.env[s.name] = FuncVal(s, env=st.env, module=st.env.get("__module__"), qualname=(f"{outer}.{s.name}" if outer else None))
        return None

    def st_Delete(self, st, s):
        raise OutOfSubset("del statement")

    def st_Global(self, st, s):
        raise OutOfSubset("global statement")

    # -- if
    def st_If(self, st, s):
        c = self.eval_cond(st, s.test)
        if self.ctx.merge_ifs and isinstance(c, z3.BoolRef) and concrete_bool(c) is None and self._mergeable(s):
            return self._merged_if(st, s, c)
        b = self.decide(st, c, f"if@{s.lineno}")
        self.ctx.cover(s.lineno, b)
        self.refine_optional(st, s.test, b)
        return self.exec_block(st, s.body if b else s.orelse)

    def refine_optional(self, st, test, outcome):
        """After branching on `x is None` / `x is not None` / `x` / `not x` for a local name bound to an Opt value,
        rebind the name to the payload (or None) in the chosen branch."""
        neg = False
        t = test
        while isinstance(t, ast.UnaryOp) and isinstance(t.op, ast.Not):
            neg = not neg
            t = t.operand
        if isinstance(t, ast.BoolOp) and isinstance(t.op, ast.And) and outcome != neg and not neg:
            for v in t.values:
                self.refine_optional(st, v, True)
            return
        place, mode = None, None
        if isinstance(t, (ast.Name, ast.Attribute)):
            place, mode = t, "truthy"
        elif isinstance(t, ast.Compare) and len(t.ops) == 1 and isinstance(t.left, (ast.Name, ast.Attribute)) \
                and isinstance(t.comparators[0], ast.Constant) and t.comparators[0].value is None:
            if isinstance(t.ops[0], ast.Is):
                place, mode = t.left, "isnone"
            elif isinstance(t.ops[0], ast.IsNot):
                place, mode = t.left, "notnone"
        if place is None:
            return
        # locate the storage of the place: a local name, or a field of a record reached through names/attributes
        if isinstance(place, ast.Name):
            if place.id not in st.env or not isinstance(st.env[place.id], Opt):
                return
            get = lambda: st.env[place.id]
            put = lambda v: st.env.__setitem__(place.id, v)
        else:
            try:
                self.ctx.mute += 1
                base = self.eval(st, place.value)
            except Exception:
                return
            finally:
                self.ctx.mute -= 1
            if not (isinstance(base, Ref) and isinstance(st.obj(base), RecObj) and isinstance(st.obj(base).fields.get(place.attr), Opt)):
                return
            rec = st.obj(base)
            get = lambda: rec.fields[place.attr]
            put = lambda v: rec.fields.__setitem__(place.attr, v)
        val = outcome != neg
        o = get()
        if mode == "isnone":
            put(None if val else o.payload)
        elif mode == "notnone":
            put(o.payload if val else None)
        elif mode == "truthy" and val:
            put(o.payload)

    def _mergeable(self, s):
        for n in ast.walk(s):
            if isinstance(n, (ast.Return, ast.Raise, ast.Break, ast.Continue, ast.For, ast.While, ast.Try)) and n is not s:
                return False
        return True

    def _merged_if(self, st, s, c):
        from .merge import merge_states
        a, b = st.fork(), st.fork()
        a.pc.append(c)
        b.pc.append(z3.Not(c))
        oa = self.exec_block(a, s.body) if self.feasible(a) else []
        ob = self.exec_block(b, s.orelse) if self.feasible(b) else []
        na = [o for o in oa if o.kind == "normal"]
        nb = [o for o in ob if o.kind == "normal"]
        rest = [o for o in oa + ob if o.kind != "normal"]
        if len(na) == 1 and len(nb) == 1:
            merged = merge_states(self, st, c, na[0].state, nb[0].state)
            if merged is not None:
                return rest + [Outcome("normal", merged)]
        return oa + ob

    # -- loops
    def st_While(self, st, s):
        k = self.next_loop_ordinal(s)
        spec = self.ctx.loop_spec(k)
        if spec is None or spec.inv is None:
            raise OutOfSubset(f"while loop #{k} at line {s.lineno} has no invariant")
        return self.cut_loop(st, s, k, spec, kind="while")

    def next_loop_ordinal(self, node):
        return self.ctx.loop_ordinal(node)

    def st_For(self, st, s):
        it = self.eval(st, s.iter)
        k = self.next_loop_ordinal(s)
        seq = self.iter_values(st, it, s)
        if seq is not None:           # concrete iteration space -> unroll completely
            return self.unroll_for(st, s, seq)
        spec = self.ctx.loop_spec(k)
        if spec is None or spec.inv is None:
            raise OutOfSubset(f"for loop #{k} at line {s.lineno} over a symbolic sequence has no invariant")
        return self.cut_loop(st, s, k, spec, kind="for", iterable=it)

    def unroll_for(self, st, s, seq):
        outs = []
        states = [st]
        for item in seq:
            nxt = []
            for cur in states:
                def step(c, item=item):
                    from .seqs import Guarded
                    if isinstance(item, Guarded):
                        if not self.decide(c, to_z3(item.cond), f"guard@{s.lineno}"):
                            return [Outcome("normal", c)]
                        item = item.value
                    self.assign(c, s.target, item)
                    return self.exec_block(c, s.body)
                for o in self.exec_atomic(cur, step, s.lineno):
                    if o.kind in ("normal", "continue"):
                        nxt.append(o.state)
                    elif o.kind == "break":
                        outs.append(Outcome("normal", o.state))
                    else:
                        outs.append(o)
            states = nxt
            if len(states) > self.ctx.max_paths:
                raise OutOfSubset("path explosion in unrolled loop")
        for cur in states:
            if s.orelse:
                outs.extend(self.exec_block(cur, s.orelse))
            else:
                outs.append(Outcome("normal", cur))
        return outs

    def cut_loop(self, st, s, k, spec, kind, iterable=None):
        """Cut a loop at its invariant: init obligations, one arbitrary iteration, continue after the loop."""
        from .loops import cut_loop
        return cut_loop(self, st, s, k, spec, kind, iterable)

    # -- try / with
    def st_Try(self, st, s):
        hs = []
        for h in s.handlers:
            if h.type is None:
                hs.append(None)
            else:
                names = h.type.elts if isinstance(h.type, ast.Tuple) else [h.type]
                for n in names:
                    v = self.eval(st, n)
                    if not isinstance(v, ClassVal) or v.pyclass is None:
                        raise OutOfSubset(f"except clause type {ast.unparse(n)}")
                    hs.append(v.pyclass)
        st.handlers.append(tuple(hs))
        body_outs = self.exec_block(st, s.body)
        outs = []
        for o in body_outs:
            o.state.handlers.pop() if o.state.handlers else None
            if o.kind == "raise":
                exc = o.value
                target = None
                for h in s.handlers:
                    if h.type is None:
                        target = h
                        break
                    names = h.type.elts if isinstance(h.type, ast.Tuple) else [h.type]
                    if any(issubclass(exc.pyclass, self.eval(o.state, n).pyclass) for n in names):
                        target = h
                        break
                if target is not None:
                    hst = o.state
                    if target.name:
                        hst.env[target.name] = exc
                    hst.env["__active_exc__"] = exc
                    self.ctx.cover(target.lineno, True)
                    outs.extend(self.exec_block(hst, target.body))
                    continue
                outs.append(o)
            elif o.kind == "normal" and s.orelse:
                outs.extend(self.exec_block(o.state, s.orelse))
            else:
                outs.append(o)
        if s.finalbody:
            final = []
            for o in outs:
                for fo in self.exec_block(o.state, s.finalbody):
                    if fo.kind == "normal":
                        final.append(Outcome(o.kind, fo.state, o.value, o.site))
                    else:
                        final.append(fo)
            outs = final
        return outs

    def st_With(self, st, s):
        from .effects import exec_with
        return exec_with(self, st, s)

    # ------------------------------------------------------------------------------------------
    # assignment to targets
    def assign(self, st, target, v):
        if isinstance(target, ast.Name):
            st.env[target.id] = v
            return
        if isinstance(target, (ast.Tuple, ast.List)):
            items = self.unpack(st, v, len(target.elts), target)
            for t, x in zip(target.elts, items):
                self.assign(st, t, x)
            return
        if isinstance(target, ast.Attribute):
            base = self.eval(st, target.value)
            self.set_attr(st, base, target.attr, v, target)
            return
        if isinstance(target, ast.Subscript):
            base = self.eval(st, target.value)
            key = self.eval_slice(st, target.slice)
            self.set_item(st, base, key, v, target)
            return
        raise OutOfSubset(f"assignment target {type(target).__name__}")

    def unpack(self, st, v, n, node):
        if isinstance(v, tuple):
            if len(v) != n:
                raise OutOfSubset("tuple unpacking arity")
            return list(v)
        if isinstance(v, Ref):
            o = st.obj(v)
            if isinstance(o, ListObj) and o.concrete:
                if len(o.items) != n:
                    raise OutOfSubset("list unpacking arity")
                return list(o.items)
            if isinstance(o, ListObj):
                self.check(st, o.length == n, "ValueError", "unpack.arity", getattr(node, "lineno", None))
                return [o.get(z3.IntVal(i)) for i in range(n)]
        raise OutOfSubset(f"unpacking of {v!r}")
