"""Calls: contract handlers, builtins, methods of builtin types, inlining of repo functions, constructors."""
from __future__ import annotations

import ast
from fractions import Fraction

import z3

from . import ops
from .ops import concat, concrete_bool, concrete_int, py_ceil, py_int, py_round, same_kind_eq, str_of, truth
from .seqs import (EnumVal, Guarded, RangeVal, ZipVal, as_symlist, dict_get, ite, iter_values, mk_list, mk_symlist,
                   sym_iter_view, _any_eq, _dedupe)
from .state import Outcome, OutOfSubset, SymRaise
from .values import (BoundMethod, Chr, ClassVal, Cursor, Dec, DictObj, FrameObj, FuncVal, ListObj, ModuleVal, Opt, RecObj, Ref,
                     Rope, SetObj, StrSort, ValSort, fresh_name, is_strterm, is_stringy, lit, norm_str, rope_of, to_z3)

BUILTIN_NAMES = {"len", "range", "enumerate", "zip", "max", "min", "sum", "int", "float", "str", "round", "abs", "isinstance",
                 "getattr", "hasattr", "setattr", "sorted", "list", "tuple", "set", "dict", "any", "all", "ord", "chr", "print",
                 "bool", "type", "callable", "cast", "repr", "reversed", "map", "open", "dir", "issubclass", "frozenset"}

MAX_DEPTH = 14


def eval_args(I, st, e):
    args = []
    for a in e.args:
        if isinstance(a, ast.Starred):
            args.extend(I.concrete_items(st, I.eval(st, a.value), a))
        else:
            args.append(I.eval(st, a))
    kwargs = {}
    for k in e.keywords:
        if k.arg is None:
            raise OutOfSubset("**kwargs in a call")
        kwargs[k.arg] = I.eval(st, k.value)
    return args, kwargs


def eval_call(I, st, e):
    fsrc = ast.unparse(e.func)
    h = I.ctx.call_handler(fsrc)
    if h is not None:
        if getattr(h, "raw", False):
            return h(I, st, None, None, e)          # the handler does not look at the arguments (e.g. super().__init__(**data))
        args, kwargs = eval_args(I, st, e)
        return h(I, st, args, kwargs, e)
    # quantifier forms: any(<genexp>) / all(<genexp>) over symbolic sequences
    if isinstance(e.func, ast.Name) and e.func.id in ("any", "all") and len(e.args) == 1 \
            and isinstance(e.args[0], (ast.GeneratorExp, ast.ListComp)) and not _bound_locally(I, st, e.func.id):
        q = quantify_genexp(I, st, e.args[0], e.func.id)
        if q is not NotImplemented:
            return q
    if isinstance(e.func, ast.Name) and e.func.id in BUILTIN_NAMES and not _bound_locally(I, st, e.func.id):
        args, kwargs = eval_args(I, st, e)
        return call_builtin(I, st, e.func.id, args, kwargs, e)
    if isinstance(e.func, ast.Attribute):
        recv = I.eval(st, e.func.value)
        args, kwargs = eval_args(I, st, e)
        # library / contract hook on the receiver first
        hk = I.ctx.lib_call_method(I, st, recv, e.func.attr, args, kwargs, e)
        if hk is not NotImplemented:
            return hk
        target = I.get_attr(st, recv, e.func.attr, e.func)
        return call_value(I, st, target, args, kwargs, e)
    fv = I.eval(st, e.func)
    args, kwargs = eval_args(I, st, e)
    return call_value(I, st, fv, args, kwargs, e)


def _bound_locally(I, st, name):
    env = st.env
    while env is not None:
        if name in env:
            return True
        env = env.get("__parent__")
    return False


def call_value(I, st, fv, args, kwargs, node):
    if isinstance(fv, BoundMethod):
        return call_method(I, st, fv.recv, fv.name, args, kwargs, node)
    if isinstance(fv, FuncVal):
        return call_function(I, st, fv, args, kwargs, node)
    if isinstance(fv, ClassVal):
        return construct(I, st, fv, args, kwargs, node)
    if callable(fv) and getattr(fv, "_pyvc_handler", False):
        return fv(I, st, args, kwargs, node)
    raise OutOfSubset(f"call of {fv!r} at line {getattr(node, 'lineno', '?')}")


# ----------------------------------------------------------------------------------------------
def call_function(I, st, fv: FuncVal, args, kwargs, node):
    """Modular call if the callee has a summary contract, else inline its real AST."""
    if fv.qualname:
        summ = I.ctx.summary_for(fv.qualname)
        if summ is not None:
            a = ([fv.self_val] if fv.self_val is not None else []) + list(args)
            return summ(I, st, a, kwargs, node)
    fn = fv.node
    if I.depth >= MAX_DEPTH:
        raise OutOfSubset("inlining depth limit (recursion?)")
    env = {"__parent__": fv.env, "__module__": fv.module or (fv.env or {}).get("__module__") or st.env.get("__module__"),
           "__func__": fv.qualname or getattr(fn, "name", "<lambda>")}
    a = fn.args
    params = [p.arg for p in a.posonlyargs + a.args]
    pos = list(args)
    if fv.self_val is not None:
        pos = [fv.self_val] + pos
    if len(pos) > len(params) and a.vararg is None:
        raise SymRaise(ClassVal("TypeError", TypeError), st, "too many positional arguments", getattr(node, "lineno", None))
    for name, v in zip(params, pos):
        env[name] = v
    if a.vararg is not None:
        env[a.vararg.arg] = tuple(pos[len(params):])
    defaults = a.defaults
    dstart = len(params) - len(defaults)
    kw = dict(kwargs)
    for i, name in enumerate(params):
        if name in env and i < len(pos):
            if name in kw:
                raise SymRaise(ClassVal("TypeError", TypeError), st, f"multiple values for '{name}'", getattr(node, "lineno", None))
            continue
        if name in kw:
            env[name] = kw.pop(name)
        elif i >= dstart:
            env[name] = _eval_default(I, st, fv, defaults[i - dstart])
        else:
            raise SymRaise(ClassVal("TypeError", TypeError), st, f"missing argument '{name}'", getattr(node, "lineno", None))
    for p, d in zip(a.kwonlyargs, a.kw_defaults):
        if p.arg in kw:
            env[p.arg] = kw.pop(p.arg)
        elif d is not None:
            env[p.arg] = _eval_default(I, st, fv, d)
        else:
            raise SymRaise(ClassVal("TypeError", TypeError), st, f"missing keyword argument '{p.arg}'", getattr(node, "lineno", None))
    if kw:
        if a.kwarg is not None:
            env[a.kwarg.arg] = st.alloc(DictObj(items=kw))
        else:
            raise SymRaise(ClassVal("TypeError", TypeError), st, f"unexpected keyword {list(kw)}", getattr(node, "lineno", None))
    elif a.kwarg is not None:
        env[a.kwarg.arg] = st.alloc(DictObj(items={}))

    if isinstance(fn, ast.Lambda):
        saved = st.env
        st.env = env
        try:
            return I.eval(st, fn.body)
        finally:
            st.env = saved

    if fv.qualname and fv.env is None:
        I.ctx.note_inlined(fv)
    saved_env = st.env
    saved_handlers = None
    callee = st.fork()
    callee.env = env
    callee.choices, callee.choice_pos = [], 0
    I.depth += 1
    I.ctx.push_func(fv)
    try:
        outs = I.exec_block(callee, fn.body)
    finally:
        I.ctx.pop_func()
        I.depth -= 1
    if not outs:
        from .state import Infeasible
        raise Infeasible()
    # select one outcome through the decision oracle
    base_len = len(st.pc)
    chosen = None
    for idx, o in enumerate(outs):
        if idx == len(outs) - 1:
            chosen = o
            break
        extra = o.state.pc[base_len:]
        cond = z3.And(*extra) if extra else z3.BoolVal(True)
        if I.decide(st, cond, f"call.{getattr(fn, 'name', '')}.path{idx}"):
            chosen = o
            break
    os_ = chosen.state
    keep_choices, keep_pos = st.choices, st.choice_pos
    st.heap, st.pc, st.ghost, st.effects, st.path = os_.heap, os_.pc, os_.ghost, os_.effects, os_.path
    st.env = saved_env
    st.choices, st.choice_pos = keep_choices, keep_pos
    if chosen.kind == "raise":
        raise SymRaise(chosen.value, st, site=chosen.site)
    if chosen.kind == "return":
        return chosen.value
    if chosen.kind == "normal":
        return None
    raise OutOfSubset(f"callee ended with {chosen.kind}")


def _eval_default(I, st, fv, d):
    tmp = st.fork()
    tmp.env = {"__parent__": fv.env, "__module__": fv.module or st.env.get("__module__")}
    return I.eval(tmp, d)


# ----------------------------------------------------------------------------------------------
def construct(I, st, cv: ClassVal, args, kwargs, node):
    h = I.ctx.constructor_handler(cv)
    if h is not None:
        return h(I, st, cv, args, kwargs, node)
    pc = cv.pyclass
    if pc is not None and isinstance(pc, type) and issubclass(pc, BaseException):
        return st.alloc(RecObj(cv.name, {"args": tuple(args)}, pyclass=pc))
    if pc is not None and hasattr(pc, "model_fields"):
        return construct_model(I, st, cv, args, kwargs, node)
    if pc is not None:
        found = I.ctx.index.find_method(pc, "__init__")
        if found is not None:
            ref = st.alloc(RecObj(cv.name, {}, pyclass=pc))
            modname, qual, fn = found
            call_function(I, st, FuncVal(fn, env=None, self_val=ref, qualname=qual, module=modname), args, kwargs, node)
            return ref
        if not args and not kwargs:
            return st.alloc(RecObj(cv.name, {}, pyclass=pc))
    raise OutOfSubset(f"constructor of {cv.name}")


def construct_model(I, st, cv, args, kwargs, node):
    """pydantic model construction = record construction after declared-type coercion (assumed contract,
    DESIGN 1.7): an `int` field given a non-integral real raises ValidationError (a ValueError)."""
    pc = cv.pyclass
    if args:
        raise OutOfSubset("positional arguments to a pydantic model")
    fields = {}
    site = getattr(node, "lineno", None)
    for name, fi in pc.model_fields.items():
        if name in kwargs:
            v = kwargs[name]
            ann = fi.annotation
            if ann is int:
                v = coerce_int_field(I, st, v, f"{cv.name}.{name}", site)
            elif ann is float and isinstance(v, Opt):
                I.check(st, z3.Not(v.isnone), "ValueError", f"field.{cv.name}.{name}.not_none", site)
                v = v.payload
            fields[name] = v
        else:
            if fi.is_required():
                raise SymRaise(ClassVal("ValidationError", I.ctx.exc_class("ValidationError")), st, f"missing field {name}", site)
            if fi.default_factory is not None:
                fields[name] = I.ctx.convert_global(st, fi.default_factory(), f"{cv.name}.{name}", fresh=True)
            else:
                fields[name] = I.ctx.convert_global(st, fi.default, f"{cv.name}.{name}", fresh=True)
    extra = set(kwargs) - set(pc.model_fields)
    if extra:
        I.ctx.note(f"model {cv.name}: extra keyword(s) {sorted(extra)} ignored (pydantic default extra='ignore')")
    return st.alloc(RecObj(cv.name, fields, pyclass=pc))


def coerce_int_field(I, st, v, what, site):
    if isinstance(v, Fraction):
        if v.denominator != 1:
            raise SymRaise(ClassVal("ValidationError", I.ctx.exc_class("ValidationError")), st, f"{what}: non-integral", site)
        return int(v)
    if isinstance(v, Opt):
        I.check(st, z3.Not(v.isnone), "ValueError", f"field.{what}.not_none", site)
        v = v.payload
    if v is None:
        raise SymRaise(ClassVal("ValidationError", I.ctx.exc_class("ValidationError")), st, f"{what}: None for int field", site)
    if z3.is_expr(v) and z3.is_real(v):
        I.check(st, z3.IsInt(v), "ValueError", f"field.{what}.integral", site)
        return z3.ToInt(v)
    return v


# ----------------------------------------------------------------------------------------------
def quantify_genexp(I, st, ge, mode):
    """any()/all() over generators with symbolic iteration spaces -> quantified formula."""
    gens = ge.generators
    if any(g.is_async for g in gens):
        return NotImplemented
    # the outermost iterable is evaluated once, in the caller's state: branch decisions taken while evaluating it (e.g. `xs or []`)
    # belong to the path condition of the statement, not to a scratch copy
    it0 = I.eval(st, gens[0].iter)
    tmp = st.fork()
    tmp.env = {"__parent__": tmp.env, "__module__": tmp.env.get("__module__")}
    bound = []
    guards = []
    symbolic = False
    concrete_layers = []

    def build(gi, s):
        nonlocal symbolic
        if gi == len(gens):
            t = I.eval_cond(s, ge.elt)
            return to_z3(t)
        g = gens[gi]
        it = it0 if gi == 0 else I.eval(s, g.iter)
        seq = iter_values(I, s, it, ge)
        if seq is not None:
            parts = []
            for item in seq:
                s2 = s.fork()
                gd = True
                if isinstance(item, Guarded):
                    gd, item = item.cond, item.value
                I.assign(s2, g.target, item)
                conds = [to_z3(gd)] if gd is not True else []
                for c in g.ifs:
                    conds.append(to_z3(I.eval_cond(s2, c)))
                    s2.assume(conds[-1])
                body = build(gi + 1, s2)
                if mode == "any":
                    parts.append(z3.And(*conds, body) if conds else body)
                else:
                    parts.append(z3.Implies(z3.And(*conds), body) if conds else body)
            if not parts:
                return z3.BoolVal(mode == "all")
            return z3.Or(*parts) if mode == "any" else z3.And(*parts)
        symbolic = True
        n, getter = sym_iter_view(I, s, it)
        j = z3.Int(fresh_name("q"))
        s2 = s.fork()
        s2.assume(j >= 0, j < n)
        I.assign(s2, g.target, getter(j))
        conds = [j >= 0, j < n]
        for c in g.ifs:
            conds.append(to_z3(I.eval_cond(s2, c)))
            s2.assume(conds[-1])
        body = build(gi + 1, s2)
        if mode == "any":
            return z3.Exists([j], z3.And(*conds, body))
        return z3.ForAll([j], z3.Implies(z3.And(*conds), body))

    res = build(0, tmp)
    return z3.simplify(res) if not symbolic else res


# ----------------------------------------------------------------------------------------------
def call_builtin(I, st, name, args, kwargs, node):
    site = getattr(node, "lineno", None)
    if name == "len":
        return py_len(I, st, args[0], node)
    if name == "range":
        a = [x for x in args]
        if len(a) == 1:
            return RangeVal(0, a[0], 1)
        if len(a) == 2:
            return RangeVal(a[0], a[1], 1)
        return RangeVal(a[0], a[1], a[2])
    if name == "enumerate":
        return EnumVal(args[0], concrete_int(args[1]) if len(args) > 1 else concrete_int(kwargs.get("start", 0)))
    if name == "zip":
        strict = kwargs.get("strict", False)
        return ZipVal(list(args), strict is True)
    if name in ("max", "min"):
        return py_maxmin(I, st, name, args, kwargs, node)
    if name == "sum":
        return py_sum(I, st, args, node)
    if name == "int":
        v = args[0]
        if isinstance(v, Opt):
            I.check(st, z3.Not(v.isnone), "TypeError", "int.not_none", site)
            v = v.payload
        if is_stringy(norm_str(v)):
            return I.ctx.lib_int_of_str(I, st, norm_str(v), node)
        return py_int(v)
    if name == "float":
        v = args[0]
        if is_stringy(norm_str(v)):
            raise OutOfSubset("float() of a string")
        return ops.to_real(v) if z3.is_expr(v) else v
    if name == "str":
        if args:
            hk = I.ctx._hook("to_str", I, st, args[0])
            if hk is not NotImplemented:
                return hk
        return str_of(st, args[0]) if args else ""
    if name == "repr":
        return I.ctx.opaque_str(st, "repr")
    if name == "round":
        if len(args) > 1:
            raise OutOfSubset("round with ndigits")
        r, ax = py_round(args[0], I.fresh)
        st.assume(*ax)
        return r
    if name == "abs":
        v = args[0]
        if isinstance(v, (int, Fraction)):
            return abs(v)
        z = ops.num(v)
        return z3.If(z >= 0, z, -z)
    if name == "bool":
        return truth(st, args[0]) if args else False
    if name == "ord":
        return I.ctx.lib_ord(I, st, norm_str(args[0]), node)
    if name == "chr":
        ci = concrete_int(args[0])
        return chr(ci) if ci is not None else Rope((Chr(to_z3(args[0])),))
    if name == "print":
        I.ctx.dropped("print(...) (benign effect)")
        st.effects.append(("print", site))
        return None
    if name == "cast":
        I.ctx.dropped("typing.cast (identity)")
        return args[1]
    if name == "isinstance":
        return py_isinstance(I, st, args[0], args[1], node)
    if name == "issubclass":
        a, b = args
        if isinstance(a, ClassVal) and isinstance(b, ClassVal) and a.pyclass and b.pyclass:
            return issubclass(a.pyclass, b.pyclass)
        raise OutOfSubset("issubclass")
    if name == "callable":
        return isinstance(args[0], (FuncVal, BoundMethod, ClassVal))
    if name == "type":
        a0 = args[0]
        if isinstance(a0, Ref) and isinstance(st.obj(a0), RecObj) and st.obj(a0).pyclass is not None:
            return ClassVal(st.obj(a0).cls, st.obj(a0).pyclass)
        return I.ctx.type_of(I, st, a0, node)
    if name == "hasattr":
        return py_hasattr(I, st, args[0], args[1], node)
    if name == "getattr":
        return py_getattr(I, st, args, node)
    if name == "setattr":
        nm = norm_str(args[1])
        if not isinstance(nm, str):
            raise OutOfSubset("setattr with symbolic name")
        I.set_attr(st, args[0], nm, args[2], node)
        return None
    if name in ("list", "tuple"):
        if not args:
            return mk_list(st, []) if name == "list" else ()
        seq = iter_values(I, st, args[0], node)
        if seq is not None:
            seq = _force_guarded(I, st, seq, node)
            return mk_list(st, seq) if name == "list" else tuple(seq)
        n, g = sym_iter_view(I, st, args[0])
        if name == "tuple":
            raise OutOfSubset("tuple() of symbolic sequence")
        return mk_symlist(st, n, g)
    if name in ("set", "frozenset"):
        if not args:
            return st.alloc(SetObj(items=[]))
        seq = iter_values(I, st, args[0], node)
        if seq is not None:
            return st.alloc(SetObj(items=_dedupe(st, _force_guarded(I, st, seq, node))))
        n, g = sym_iter_view(I, st, args[0])

        def member(x, n=n, g=g):
            j = z3.Int(fresh_name("sj"))
            return z3.Exists([j], z3.And(j >= 0, j < n, to_z3(same_kind_eq(st, x, g(j)))))
        return st.alloc(SetObj(items=None, member=member))
    if name == "dict":
        if not args:
            return st.alloc(DictObj(items=dict(kwargs)))
        if isinstance(args[0], Ref) and isinstance(st.obj(args[0]), DictObj):
            o = st.obj(args[0])
            return st.alloc(DictObj(items=o.items, present=o.present))
        raise OutOfSubset("dict() of non-dict")
    if name == "sorted":
        return I.ctx.lib_sorted(I, st, args, kwargs, node)
    if name == "reversed":
        seq = iter_values(I, st, args[0], node)
        if seq is None:
            raise OutOfSubset("reversed of symbolic sequence")
        return mk_list(st, list(reversed(seq)))
    if name in ("any", "all"):
        seq = iter_values(I, st, args[0], node)
        if seq is not None:
            ts = [truth(st, x) for x in _force_guarded(I, st, seq, node)]
            if all(isinstance(t, bool) for t in ts):
                return any(ts) if name == "any" else all(ts)
            zs = [to_z3(t) for t in ts]
            return z3.Or(*zs) if name == "any" else z3.And(*zs)
        n, g = sym_iter_view(I, st, args[0])
        j = z3.Int(fresh_name("q"))
        t = to_z3(truth(st, g(j)))
        if name == "any":
            return z3.Exists([j], z3.And(j >= 0, j < n, t))
        return z3.ForAll([j], z3.Implies(z3.And(j >= 0, j < n), t))
    if name == "open":
        return I.ctx.lib_open(I, st, args, kwargs, node)
    if name == "dir":
        raise OutOfSubset("dir()")
    if name == "map":
        raise OutOfSubset("map()")
    raise OutOfSubset(f"builtin {name}")


def _force_guarded(I, st, seq, node):
    out = []
    for x in seq:
        if isinstance(x, Guarded):
            if I.decide(st, to_z3(x.cond), f"guard@{getattr(node, 'lineno', '?')}"):
                out.append(x.value)
        else:
            out.append(x)
    return out


def py_len(I, st, v, node):
    v = norm_str(v)
    site = getattr(node, "lineno", None)
    if isinstance(v, Opt):
        I.check(st, z3.Not(v.isnone), "TypeError", "len.not_none", site)
        v = v.payload
    if v is None:
        raise SymRaise(ClassVal("TypeError", TypeError), st, "len(None)", site)
    if isinstance(v, (str, tuple)):
        return len(v)
    hook = I.ctx.lib_len(I, st, v, node)
    if hook is not NotImplemented:
        return hook
    from .values import MatrixObj, RowView
    if isinstance(v, RowView):
        return st.obj(v.matrix).cols
    if isinstance(v, Ref) and isinstance(st.obj(v), MatrixObj):
        return st.obj(v).rows
    if isinstance(v, Ref):
        o = st.obj(v)
        if isinstance(o, ListObj):
            return len(o.items) if o.concrete else o.length
        if isinstance(o, DictObj):
            if o.present:
                raise OutOfSubset("len of dict with conditional keys")
            return len(o.items)
        if isinstance(o, SetObj) and o.items is not None:
            return len(o.items)
        if isinstance(o, FrameObj):
            return o.n
    if is_strterm(v):
        from .values import str_len
        st.assume(str_len(v) >= 0)
        return str_len(v)
    raise OutOfSubset(f"len of {v!r}")


def py_maxmin(I, st, name, args, kwargs, node):
    if "key" in kwargs or "default" in kwargs:
        raise OutOfSubset("max/min with key/default")
    if len(args) == 1:
        seq = iter_values(I, st, args[0], node)
        if seq is None:
            raise OutOfSubset("max/min of a symbolic sequence")
        if not seq:
            raise SymRaise(ClassVal("ValueError", ValueError), st, "max() of empty sequence", getattr(node, "lineno", None))
        vals = seq
    else:
        vals = list(args)
    acc = vals[0]
    for v in vals[1:]:
        if all(isinstance(x, (int, Fraction)) and not isinstance(x, bool) for x in (acc, v)):
            acc = max(acc, v) if name == "max" else min(acc, v)
            continue
        a, b = ops.num(ops._unfrac(acc)), ops.num(ops._unfrac(v))
        if a.sort() != b.sort():
            a, b = ops.to_real(a), ops.to_real(b)
        acc = z3.If(a >= b, a, b) if name == "max" else z3.If(a <= b, a, b)
    return acc


def py_sum(I, st, args, node):
    seq = iter_values(I, st, args[0], node)
    start = args[1] if len(args) > 1 else 0
    if seq is not None:
        acc = start
        for v in seq:
            acc = ops.arith("+", acc, v)
        return acc
    n, g = sym_iter_view(I, st, args[0])
    return I.ctx.prefix_sum(I, st, n, g, start)


def py_isinstance(I, st, v, t, node):
    ts = t if isinstance(t, tuple) else (t,)
    v = norm_str(v)
    res = []
    for c in ts:
        if not isinstance(c, ClassVal):
            raise OutOfSubset(f"isinstance against {c!r}")
        res.append(_isinstance1(I, st, v, c, node))
    if any(r is True for r in res):
        return True
    sym = [r for r in res if not isinstance(r, bool)]
    if sym:
        return z3.Or(*sym)
    return False


def _isinstance1(I, st, v, c: ClassVal, node):
    name = c.name
    if isinstance(v, Opt):
        inner = _isinstance1(I, st, v.payload, c, node)
        if inner is False:
            return False
        return z3.And(z3.Not(v.isnone), to_z3(inner))
    hook = I.ctx.lib_isinstance(I, st, v, c, node)
    if hook is not NotImplemented:
        return hook
    if v is None:
        return name in ("NoneType", "object")
    if isinstance(v, bool) or (z3.is_expr(v) and z3.is_bool(v)):
        return name in ("bool", "int", "object")
    if isinstance(v, int) or (z3.is_expr(v) and z3.is_int(v)):
        return name in ("int", "object")
    if isinstance(v, (float, Fraction)) or (z3.is_expr(v) and z3.is_real(v)):
        return name in ("float", "object")
    if isinstance(v, (str, Rope)) or is_strterm(v):
        return name in ("str", "Sequence", "object")
    if isinstance(v, tuple):
        return name in ("tuple", "Sequence", "object")
    from .values import MatrixObj, RowView
    if isinstance(v, RowView) or (isinstance(v, Ref) and isinstance(st.obj(v), MatrixObj)):
        return name in ("list", "Sequence", "MutableSequence", "object")
    if isinstance(v, Ref):
        o = st.obj(v)
        if isinstance(o, ListObj):
            return name in ("list", "Sequence", "MutableSequence", "object")
        if isinstance(o, DictObj):
            return name in ("dict", "Mapping", "object")
        if isinstance(o, SetObj):
            return name in ("set", "object")
        if isinstance(o, RecObj):
            if o.pyclass is not None and c.pyclass is not None and isinstance(c.pyclass, type):
                return issubclass(o.pyclass, c.pyclass)
            return o.cls == name
    if z3.is_expr(v) and v.sort() == ValSort:
        raise OutOfSubset("isinstance of an opaque data value")
    return False


def py_hasattr(I, st, obj, name, node):
    nm = norm_str(name)
    if not isinstance(nm, str):
        raise OutOfSubset("hasattr with symbolic name")
    hook = I.ctx.lib_hasattr(I, st, obj, nm, node)
    if hook is not NotImplemented:
        return hook
    if isinstance(obj, Opt):
        inner = py_hasattr(I, st, obj.payload, nm, node)
        if inner is False:
            return False
        return z3.And(z3.Not(obj.isnone), to_z3(inner))
    if isinstance(obj, Ref):
        o = st.obj(obj)
        if isinstance(o, RecObj):
            if nm in o.fields:
                return True
            if o.pyclass is not None:
                return hasattr(o.pyclass, nm) or nm in getattr(o.pyclass, "model_fields", {})
            return False
        if isinstance(o, ListObj):
            return hasattr(list, nm)
        if isinstance(o, DictObj):
            return hasattr(dict, nm)
        from .values import MatrixObj as _MatrixObj
        if isinstance(o, _MatrixObj):
            return hasattr(list, nm)                  # a nested list
        if isinstance(o, SetObj):
            return hasattr(set, nm)
    if obj is None:
        return hasattr(None, nm)
    if isinstance(obj, (str, int, tuple, Fraction)):
        return hasattr(obj, nm)
    if is_strterm(obj) or isinstance(obj, Rope):
        return hasattr("", nm)
    if isinstance(obj, ClassVal) and obj.pyclass is not None:
        return hasattr(obj.pyclass, nm)
    raise OutOfSubset(f"hasattr on {obj!r}")


def py_getattr(I, st, args, node):
    obj, name = args[0], norm_str(args[1])
    if not isinstance(name, str):
        raise OutOfSubset("getattr with symbolic name")
    if len(args) == 2:
        return I.get_attr(st, obj, name, node)
    default = args[2]
    h = py_hasattr(I, st, obj, name, node)
    hb = h if isinstance(h, bool) else concrete_bool(h)
    if hb is True:
        return I.get_attr(st, obj, name, node)
    if hb is False:
        return default
    if I.decide(st, h, f"getattr.{name}"):
        return I.get_attr(st, obj, name, node)
    return default


# ----------------------------------------------------------------------------------------------
def call_method(I, st, recv, name, args, kwargs, node):
    site = getattr(node, "lineno", None)
    recv = norm_str(recv)
    if isinstance(recv, Opt):
        I.check(st, z3.Not(recv.isnone), "AttributeError", f"method.{name}.not_none", site)
        recv = recv.payload
    if isinstance(recv, (str, Rope)) or is_strterm(recv):
        return str_method(I, st, recv, name, args, kwargs, node)
    if isinstance(recv, Ref):
        o = st.obj(recv)
        if isinstance(o, ListObj):
            return list_method(I, st, recv, o, name, args, kwargs, node)
        if isinstance(o, DictObj):
            return dict_method(I, st, recv, o, name, args, kwargs, node)
        if isinstance(o, SetObj):
            return set_method(I, st, recv, o, name, args, kwargs, node)
        if isinstance(o, RecObj):
            target = I.get_attr(st, recv, name, node)
            return call_value(I, st, target, args, kwargs, node)
    raise OutOfSubset(f"method {name} on {recv!r}")


def list_method(I, st, ref, o: ListObj, name, args, kwargs, node):
    site = getattr(node, "lineno", None)
    if name in ("append", "extend", "insert", "sort", "pop", "remove", "clear", "reverse"):
        I.ctx.frame_store(I, st, ref, node, name)
    if name in ("append", "extend", "insert", "sort", "pop", "remove", "clear", "reverse"):
        o.arr = None
    if name == "append":
        if o.concrete:
            o.items.append(args[0])
        else:
            n, g, x = o.length, o.get, args[0]
            o.length = z3.simplify(n + 1)
            o.get = lambda j, n=n, g=g, x=x: ite(st, to_z3(j) == n, x, g(j))
        return None
    if name == "extend":
        src = args[0]
        seq = iter_values(I, st, src, node)
        if seq is not None and o.concrete:
            o.items.extend(_force_guarded(I, st, seq, node))
            return None
        n1, g1 = as_symlist(st, o)
        if seq is not None:
            items = _force_guarded(I, st, seq, node)
            n2 = z3.IntVal(len(items))

            def g2(j, items=items):
                cj = concrete_int(j)
                if cj is not None:
                    return items[cj]
                from .seqs import ite_chain
                return ite_chain(st, [(to_z3(j) == k, items[k]) for k in range(len(items) - 1)], items[-1])
            if not items:
                return None
        else:
            n2, g2 = sym_iter_view(I, st, src)
        was_empty = o.concrete and not o.items
        o.items = None
        if was_empty:
            o.length, o.get = z3.simplify(to_z3(n2)), g2
            return None
        o.length = z3.simplify(n1 + n2)
        o.get = lambda j, n1=n1, g1=g1, g2=g2: ite(st, to_z3(j) < n1, g1(j), g2(z3.simplify(to_z3(j) - n1)))
        return None
    if name == "copy":
        return st.alloc(ListObj(None if o.items is None else list(o.items), o.length, o.get, True, o.elem))
    if name == "index":
        return I.ctx.lib_list_index(I, st, ref, o, args[0], node)
    if name == "sort":
        return I.ctx.lib_list_sort(I, st, ref, o, kwargs, node)
    if name == "pop" and o.concrete and (not args or concrete_int(args[0]) is not None):
        if not o.items:
            raise SymRaise(ClassVal("IndexError", IndexError), st, "pop from empty list", site)
        return o.items.pop(*( [concrete_int(args[0])] if args else []))
    if name == "count" and o.concrete:
        cs = [same_kind_eq(st, args[0], x) for x in o.items]
        if all(isinstance(c, bool) for c in cs):
            return sum(cs)
        return z3.Sum(*[z3.If(to_z3(c), 1, 0) for c in cs])
    raise OutOfSubset(f"list.{name}")


def dict_method(I, st, ref, o: DictObj, name, args, kwargs, node):
    site = getattr(node, "lineno", None)
    if name == "get":
        return dict_get(I, st, o, args[0], site, strict=False, default=args[1] if len(args) > 1 else None)
    if name == "items":
        out = []
        for k, v in o.items.items():
            p = o.present.get(k, True)
            out.append((k, v) if p is True else Guarded(p, (k, v)))
        return _GuardedSeq(out)
    if name == "keys":
        return _GuardedSeq([k if o.present.get(k, True) is True else Guarded(o.present[k], k) for k in o.items])
    if name == "values":
        return _GuardedSeq([v if o.present.get(k, True) is True else Guarded(o.present[k], v) for k, v in o.items.items()])
    if name == "copy":
        return st.alloc(DictObj(items=o.items, present=o.present))
    if name == "update":
        I.ctx.frame_store(I, st, ref, node, name)
        src = args[0] if args else None
        if src is not None:
            so = st.obj(src) if isinstance(src, Ref) else None
            if not isinstance(so, DictObj):
                raise OutOfSubset("dict.update with non-dict")
            for k, v in so.items.items():
                p = so.present.get(k, True)
                if p is True:
                    o.items[k] = v
                    o.present.pop(k, None)
                else:
                    if k in o.items:
                        oldp = o.present.get(k, True)
                        o.items[k] = ite(st, to_z3(p), v, o.items[k])
                        if oldp is not True:
                            o.present[k] = z3.Or(to_z3(p), to_z3(oldp))
                    else:
                        o.items[k] = v
                        o.present[k] = p
        for k, v in kwargs.items():
            o.items[k] = v
            o.present.pop(k, None)
        return None
    if name == "setdefault":
        k = I.dict_key(st, args[0])
        if k not in o.items:
            o.items[k] = args[1] if len(args) > 1 else None
        return o.items[k]
    if name == "pop":
        k = I.dict_key(st, args[0])
        if k in o.items and o.present.get(k, True) is True:
            return o.items.pop(k)
        if len(args) > 1 and k not in o.items:
            return args[1]
        if len(args) > 1:
            I.ctx.frame_store(I, st, ref, node, name)
            p = o.present.pop(k, True)
            v = o.items.pop(k)
            return ite(st, to_z3(p), v, args[1])
        raise OutOfSubset("dict.pop on conditional key")
    raise OutOfSubset(f"dict.{name}")


class _GuardedSeq(tuple):
    """Result of dict.items()/keys()/values(): a tuple whose elements may be Guarded."""


def set_method(I, st, ref, o: SetObj, name, args, kwargs, node):
    if name == "add":
        I.ctx.frame_store(I, st, ref, node, name)
        if o.items is not None:
            e = _any_eq(st, args[0], o.items)
            if e is True:
                return None
            if e is False:
                o.items.append(args[0])
                return None
            # symbolic duplicate-ness: keep as symbolic membership set
            items = list(o.items)
            o.items = None
            o.member = lambda x, items=items + [args[0]]: to_z3(_any_eq(st, x, items))
            return None
        old, x0 = o.member, args[0]
        o.member = lambda x, old=old, x0=x0: z3.Or(old(x), to_z3(same_kind_eq(st, x, x0)))
        return None
    if name == "update":
        I.ctx.frame_store(I, st, ref, node, name)
        seq = iter_values(I, st, args[0], node)
        if seq is not None and o.items is not None:
            o.items = _dedupe(st, o.items + _force_guarded(I, st, seq, node))
            return None
        # symbolic: membership becomes old | (exists k < len: xs[k] == x); non-emptiness is tracked alongside
        if o.items is not None:
            items0 = list(o.items)
            old = lambda x, items0=items0: to_z3(_any_eq(st, x, items0)) if items0 else z3.BoolVal(False)
            old_ne = z3.BoolVal(len(items0) > 0)
        else:
            old, old_ne = o.member, (o.nonempty if o.nonempty is not None else None)
        if seq is not None:
            items1 = _force_guarded(I, st, seq, node)
            new = lambda x, items1=items1: to_z3(_any_eq(st, x, items1)) if items1 else z3.BoolVal(False)
            new_ne = z3.BoolVal(len(items1) > 0)
        else:
            n2, g2 = sym_iter_view(I, st, args[0])

            def new(x, n2=n2, g2=g2):
                kk = z3.Int(fresh_name("sk"))
                return z3.Exists([kk], z3.And(0 <= kk, kk < to_z3(n2), to_z3(same_kind_eq(st, x, g2(kk)))))
            new_ne = to_z3(n2) > 0
        o.items = None
        o.member = lambda x, old=old, new=new: z3.Or(old(x), new(x))
        o.nonempty = None if old_ne is None else z3.simplify(z3.Or(old_ne, new_ne))
        return None
    if name == "copy":
        return st.alloc(SetObj(None if o.items is None else list(o.items), o.member))
    raise OutOfSubset(f"set.{name}")


def str_method(I, st, recv, name, args, kwargs, node):
    recv = norm_str(recv)
    def _conc(a):
        a = norm_str(a)
        if isinstance(a, tuple):                      # startswith / endswith accept a tuple of prefixes
            a = tuple(norm_str(x) for x in a)
            return a if all(isinstance(x, str) for x in a) else None
        return a if isinstance(a, (str, int)) else None
    if isinstance(recv, str) and all(_conc(a) is not None for a in args) and name in (
            "lower", "upper", "strip", "startswith", "endswith", "capitalize", "split", "replace", "lstrip", "rstrip", "format"):
        r = getattr(recv, name)(*[_conc(a) for a in args])
        return mk_list(st, r) if isinstance(r, list) else r
    if name == "join":
        seq = iter_values(I, st, args[0], node)
        if seq is None:
            return I.ctx.lib_join_sym(I, st, recv, args[0], node)
        seq = _force_guarded(I, st, seq, node)
        parts = []
        for k, x in enumerate(seq):
            x = norm_str(x)
            if isinstance(x, Opt) or x is None or not is_stringy(x):
                if isinstance(x, Opt):
                    I.check(st, z3.Not(x.isnone), "TypeError", "join.str_item", getattr(node, "lineno", None))
                    x = x.payload
                else:
                    raise SymRaise(ClassVal("TypeError", TypeError), st, "join of non-str item", getattr(node, "lineno", None))
            if k:
                parts.append(rope_of(recv))
            parts.append(rope_of(x))
        return norm_str(Rope(parts))
    return I.ctx.lib_str_method(I, st, recv, name, args, kwargs, node)
