"""Discharge verification conditions: portfolio z3 5.1 (API) -> /usr/bin/cvc5 -> /usr/bin/z3 4.8 on the SMT-LIB dump.

verdicts:  unsat -> 'discharged'   sat -> 'refuted' (model kept)   otherwise 'undecided'
cover obligations (kind 'cover') are satisfiability checks of their hypotheses: sat -> 'discharged',
unsat -> 'vacuous'.
"""
from __future__ import annotations

import os
import subprocess
import tempfile
import time
from concurrent.futures import ProcessPoolExecutor, as_completed

import z3

from .values import AXIOMS, INTERN

Z3_TIMEOUT_MS = int(os.environ.get("PYVC_Z3_TIMEOUT_MS", "8000"))
EXT_TIMEOUT_S = int(os.environ.get("PYVC_EXT_TIMEOUT_S", "20"))
WORKERS = int(os.environ.get("PYVC_WORKERS", "8"))


def to_smt2(ob) -> str:
    s = z3.Solver()
    for a in INTERN.axioms():
        s.add(a)
    for a in AXIOMS:
        s.add(a)
    for h in ob.hyps:
        s.add(h)
    if ob.kind != "cover":
        g = ob.goal if z3.is_expr(ob.goal) else z3.BoolVal(bool(ob.goal))
        s.add(z3.Not(g))
    return s.to_smt2()


def _run_z3_api(text, timeout_ms, mbqi=None):
    s = z3.Solver()
    s.set("timeout", timeout_ms)
    if mbqi is not None:
        s.set("smt.mbqi", mbqi)
    s.from_string(text)
    t = time.time()
    r = s.check()
    dt = time.time() - t
    model = None
    if r == z3.sat:
        try:
            m = s.model()
            model = {str(d.name()): str(m[d]) for d in m.decls()[:400]}
        except Exception:
            model = None
    return str(r), dt, model


def _run_external(cmd, text, timeout_s):
    with tempfile.NamedTemporaryFile("w", suffix=".smt2", delete=False, dir=os.environ.get("PYVC_TMP") or None) as f:
        f.write("(set-logic ALL)\n" + text)
        path = f.name
    t = time.time()
    try:
        p = subprocess.run(cmd + [path], capture_output=True, text=True, timeout=timeout_s)
        out = (p.stdout or "").strip().splitlines()
        r = out[0].strip() if out else "unknown"
        if r not in ("sat", "unsat"):
            r = "unknown"
    except subprocess.TimeoutExpired:
        r = "unknown"
    finally:
        try:
            os.unlink(path)
        except OSError:
            pass
    return r, time.time() - t


def solve_text(args):
    """Worker: (idx, text, kind, thorough) -> (idx, verdict, backend, seconds, model, cross)"""
    idx, text, kind, thorough = args
    if kind.endswith("@known"):
        # an obligation already listed as a known finding: one short attempt to see whether it (still) fails; no long ladder
        r0, dt0, model0 = _run_z3_api(text, 5000)
        return idx, {"unsat": "discharged", "sat": "refuted"}.get(r0, "undecided"), "z3-5.1", dt0, model0, [("z3-5.1", r0, round(dt0, 3))], None
    total = 0.0
    tried = []
    has_q = "(forall" in text or "(exists" in text
    r, model, backend = "unknown", None, "z3-5.1"
    if kind == "cover":
        rc, dtc, _ = _run_z3_api(text, 4000)
        tried_c = [("z3-5.1", rc, round(dtc, 3))]
        if rc == "unknown":
            # quantified preconditions: look for a SMALL model (all integer constants in [0, b]); the hint only adds constraints, so a
            # model of the hinted query is a model of the precondition (a hinted `unsat` says nothing and is ignored)
            import re as _re
            consts = _re.findall(r"\(declare-fun (\|[^|]+\||\S+) \(\) Int\)", text)
            for b in (2, 4):
                extra = "".join(f"(assert (and (<= 0 {c}) (<= {c} {b})))\n" for c in consts)
                r2, dt2, _ = _run_z3_api(text.replace("(check-sat)", extra + "(check-sat)"), 4000)
                dtc += dt2
                tried_c.append((f"z3-5.1-small-model-{b}", r2, round(dt2, 3)))
                if r2 == "sat":
                    rc = "sat"
                    break
        return idx, {"sat": "discharged", "unsat": "vacuous"}.get(rc, "undecided"), "z3-5.1", dtc, None, tried_c, None
    if has_q:
        # e-matching only first: proves most quantified goals at once; a `sat` answer without MBQI is not trusted
        r1, dt1, _ = _run_z3_api(text, min(Z3_TIMEOUT_MS, 5000), mbqi=False)
        total += dt1
        tried.append(("z3-5.1-nombqi", r1, round(dt1, 3)))
        if r1 == "unsat":
            r, backend = "unsat", "z3-5.1-nombqi"
    def ext(name, cmd, tl):
        nonlocal total
        if not os.path.exists(cmd[0]):
            return "unknown"
        rx, dtx = _run_external(cmd, text, tl + 5)
        total += dtx
        tried.append((name, rx, round(dtx, 3)))
        return rx
    CVC5 = ("cvc5-1.0", ["/usr/bin/cvc5", "--lang=smt2", f"--tlimit={EXT_TIMEOUT_S * 1000}"], EXT_TIMEOUT_S)
    Z348 = ("z3-4.8", ["/usr/bin/z3", f"-T:{EXT_TIMEOUT_S}"], EXT_TIMEOUT_S)
    if r == "unknown" and has_q and tried and tried[-1][2] < 2.0:
        # e-matching saturated quickly without a contradiction: usually a satisfiable (refuted) goal, which MBQI confirms at once
        r0, dt0, model0 = _run_z3_api(text, 3000)
        total += dt0
        tried.append(("z3-5.1", r0, round(dt0, 3)))
        if r0 in ("sat", "unsat"):
            r, backend, model = r0, "z3-5.1", model0
    if r == "unknown" and has_q:
        # cvc5 decides many quantified goals on which z3's MBQI wanders; ask it before spending z3's long budget
        rx = ext("cvc5-1.0", ["/usr/bin/cvc5", "--lang=smt2", "--tlimit=8000"], 8)
        if rx in ("sat", "unsat"):
            r, backend = rx, "cvc5-1.0"
    if r == "unknown":
        r2, dt, model = _run_z3_api(text, Z3_TIMEOUT_MS * 2)
        total += dt
        tried.append(("z3-5.1", r2, round(dt, 3)))
        if r2 in ("sat", "unsat"):
            r, backend = r2, "z3-5.1"
    if r == "unknown" or thorough:
        for name, cmd, tl in (CVC5, Z348):
            if r == "unknown" or thorough:
                rx = ext(name, cmd, tl)
                if r == "unknown" and rx in ("sat", "unsat"):
                    r, backend = rx, name
                    if not thorough:
                        break
    cross = None
    if thorough:
        answers = {a for (_, a, _) in tried if a in ("sat", "unsat")}
        if len(answers) > 1:
            cross = tried
    if kind == "cover":
        verdict = {"sat": "discharged", "unsat": "vacuous"}.get(r, "undecided")
    else:
        verdict = {"unsat": "discharged", "sat": "refuted"}.get(r, "undecided")
    return idx, verdict, backend, total, model, tried, cross


_OBS = None      # obligations of the current `discharge` call, inherited by the forked pool workers (z3 terms cannot be pickled)


_UNDEC = None    # shared (forked) counters: how many path instances of a clause the solvers have already left undecided in this discharge call
_UNDEC_SLOTS = 4096


def _clause_slot(name):
    import re as _re, zlib
    base = _re.sub(r"~\d+$", "", name)
    base = _re.sub(r"@L\d+", "", base)
    return zlib.crc32(base.encode()) % _UNDEC_SLOTS


def _solve_index(args):
    i, thorough = args
    ob = _OBS[i]
    import hashlib
    text = to_smt2(ob)
    sha = hashlib.sha1(text.encode()).hexdigest()[:16]
    kind = ob.kind + ("@known" if ob.meta.get("known_pattern") else "")
    slot = _clause_slot(ob.name)
    if _UNDEC is not None and not thorough and kind not in ("cover",) and not kind.endswith("@known") and _UNDEC[slot] >= 3:
        # several path instances of this very clause were already left undecided by the whole solver ladder (this never happens on a tree
        # where the clause holds): the remaining instances get one short attempt - an undecided clause stays undecided either way
        kind = kind + "@known"
    res = solve_text((i, text, kind, thorough))
    if _UNDEC is not None and res[1] == "undecided" and ob.kind != "cover":
        _UNDEC[slot] += 1
    return res + (sha,)


def _batch_external(name, cmd, texts, per_query_s):
    """Run one external solver once over several queries (push / pop around each); returns a list of answers or None when the
    output cannot be matched to the queries (then the caller falls back to one process per query)."""
    body = ["(set-logic ALL)"]
    for t in texts:
        body.append("(push 1)")
        body.append(t)
        body.append("(pop 1)")
    with tempfile.NamedTemporaryFile("w", suffix=".smt2", delete=False, dir=os.environ.get("PYVC_TMP") or None) as f:
        f.write("\n".join(body) + "\n")
        path = f.name
    try:
        p = subprocess.run(cmd + [path], capture_output=True, text=True, timeout=per_query_s * len(texts) + 30)
        out = [ln.strip() for ln in (p.stdout or "").splitlines() if ln.strip() in ("sat", "unsat", "unknown", "timeout")]
        if len(out) != len(texts):
            return None
        return [a if a in ("sat", "unsat") else "unknown" for a in out]
    except subprocess.TimeoutExpired:
        return None
    finally:
        try:
            os.unlink(path)
        except OSError:
            pass


def _solve_chunk(idxs):
    """Thorough tier: decide each obligation with the quick portfolio, then cross-check the whole chunk with cvc5 and z3 4.8 in one
    process each (batched push / pop), falling back to one process per query if a batch does not answer every query."""
    import hashlib
    res = []
    texts = []
    for i in idxs:
        ob = _OBS[i]
        text = to_smt2(ob)
        sha = hashlib.sha1(text.encode()).hexdigest()[:16]
        r = list(solve_text((i, text, ob.kind + ("@known" if ob.meta.get("known_pattern") else ""), False))) + [sha]
        res.append(r)
        texts.append(text)
    todo = [k for k, i in enumerate(idxs) if _OBS[i].kind != "cover" and not _OBS[i].meta.get("known_pattern")]
    if todo:
        solvers = (("cvc5-1.0", ["/usr/bin/cvc5", "--lang=smt2", "--incremental", f"--tlimit-per={EXT_TIMEOUT_S * 1000}"]),
                   ("z3-4.8", ["/usr/bin/z3", f"-t:{EXT_TIMEOUT_S * 1000}"]))
        for name, cmd in solvers:
            if not os.path.exists(cmd[0]):
                continue
            t0 = time.time()
            ans = _batch_external(name, cmd, [texts[k] for k in todo], EXT_TIMEOUT_S)
            if ans is None:
                ans = []
                for k in todo:
                    single = ["/usr/bin/cvc5", "--lang=smt2", f"--tlimit={EXT_TIMEOUT_S * 1000}"] if name.startswith("cvc5") else ["/usr/bin/z3", f"-T:{EXT_TIMEOUT_S}"]
                    ans.append(_run_external(single, texts[k], EXT_TIMEOUT_S + 5)[0])
            per = round((time.time() - t0) / max(1, len(todo)), 3)
            for k, a in zip(todo, ans):
                r = res[k]
                r[5] = list(r[5]) + [(name + "-batch", a, per)]
                if r[1] == "undecided" and a in ("sat", "unsat"):
                    r[1] = {"unsat": "discharged", "sat": "refuted"}[a]
                    r[2] = name
        for k in todo:
            r = res[k]
            answers = {a for (_, a, _) in r[5] if a in ("sat", "unsat")}
            if len(answers) > 1:
                r[6] = r[5]
    return [tuple(r) for r in res]


def discharge(obligations, thorough=False, workers=None):
    """Solve all obligations in a (forked) process pool; fills verdict/backend/time/model on each.  The SMT-LIB text of an
    obligation is produced inside the worker that solves it."""
    global _OBS
    if not obligations:
        return
    workers = workers or WORKERS
    _OBS = obligations
    global _UNDEC
    try:
        n = len(obligations)
        import multiprocessing as mp
        _UNDEC = mp.get_context("fork").Array("i", _UNDEC_SLOTS, lock=False)
        if thorough:
            size = 40
            chunks = [list(range(a, min(n, a + size))) for a in range(0, n, size)]
            if len(chunks) <= 1 or workers <= 1:
                results = [r for ch in chunks for r in _solve_chunk(ch)]
            else:
                results = []
                with ProcessPoolExecutor(max_workers=workers, mp_context=mp.get_context("fork")) as ex:
                    for rs in ex.map(_solve_chunk, chunks):
                        results.extend(rs)
        else:
            idxs = [(i, False) for i in range(n)]
            if n <= 2 or workers <= 1:
                results = [_solve_index(a) for a in idxs]
            else:
                results = []
                with ProcessPoolExecutor(max_workers=workers, mp_context=mp.get_context("fork")) as ex:
                    for r in ex.map(_solve_index, idxs, chunksize=max(1, min(64, n // (workers * 4) or 1))):
                        results.append(r)
    finally:
        _OBS = None
        _UNDEC = None
    for idx, verdict, backend, secs, model, tried, cross, sha in results:
        ob = obligations[idx]
        ob.verdict, ob.backend, ob.time, ob.model = verdict, backend, secs, model
        ob.meta["tried"] = tried
        ob.meta["vc_sha"] = sha
        if cross:
            ob.meta["solver_disagreement"] = cross
