"""Run every native replayer registered for any property on the unchanged tree (default /repo): each must report `found: False`
(a replayer that finds a "failing input" on a tree where the property holds would turn an undecided unit into a false alarm).
usage: tools/replayers_selftest.py [repo root]    exit 0 = all quiet, 1 = some replayer fired"""
import os
import sys
import time
from concurrent.futures import ProcessPoolExecutor

sys.path.insert(0, os.path.dirname(os.path.dirname(os.path.abspath(__file__))))
REPO = sys.argv[1] if len(sys.argv) > 1 else "/repo"


def jobs():
    import contracts.properties as P
    seen = {}
    for pid, make in sorted(P.PROPERTIES.items()):
        p = make()
        for key, fn in p.replayers.items():
            name = getattr(fn, "__name__", repr(fn))
            seen.setdefault(name, (pid, key))
    return seen


def run(item):
    name, (pid, key) = item
    import contracts.properties as P
    from pyvc.repoindex import RepoIndex
    fn = P.PROPERTIES[pid]().replayers[key]
    t = time.time()
    try:
        r = fn(RepoIndex(REPO), None, 0)
    except Exception as e:
        r = {"found": None, "error": f"{type(e).__name__}: {e}"}
    return name, pid, key, r, round(time.time() - t, 1)


if __name__ == "__main__":
    items = list(jobs().items())
    bad = 0
    with ProcessPoolExecutor(max_workers=8) as ex:
        for name, pid, key, r, dt in ex.map(run, items):
            ok = r is not None and r.get("found") is False
            bad += 0 if ok else 1
            print(f"{'quiet' if ok else 'FIRED'} {name} ({pid} {key}) {dt}s {'' if ok else str(r)[:300]}")
    print(f"{len(items)} replayers, {bad} fired")
    sys.exit(1 if bad else 0)
