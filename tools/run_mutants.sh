#!/bin/sh
# engine self-test: apply each single-line mutant of tools/mutants/corpus.tsv to a scratch copy of /repo/src and run the named contract
# unit on it; a mutant is KILLED when at least one obligation is refuted, UNDECIDED when the unit only leaves the subset / times out,
# SURVIVED otherwise.  usage: tools/run_mutants.sh [report file]
cd "$(dirname "$0")/.."
out=${1:-notes/mutants_report.md}
killed=0; undec=0; surv=0; total=0
echo "# Mutant self-test (tools/run_mutants.sh, corpus tools/mutants/corpus.tsv)" > $out
echo "" >> $out; echo "| # | file | breaks | unit | verdict | first refuted obligation |" >> $out; echo "|---|---|---|---|---|---|" >> $out
grep -v '^#' tools/mutants/corpus.tsv | while IFS="$(printf '\t')" read -r file sedexpr module unit what; do
  [ -z "$file" ] && continue
  total=$((total+1))
  d=$(mktemp -d /tmp/mutXXXXXX); cp -r /repo/src $d/src
  sed -i "$sedexpr" $d/src/rtflite/$file
  if cmp -s /repo/src/rtflite/$file $d/src/rtflite/$file; then verdict="NOT-APPLIED"; first=""; else
    res=$(.venv/bin/python tools/probe.py $module $d $unit 2>&1)
    first=$(echo "$res" | grep -m1 " refuted " | sed 's/^ *//' | cut -d' ' -f1 | sed 's/.*::[A-Za-z_.]*//' | cut -c1-110)
    if [ -n "$first" ]; then verdict="KILLED"; elif echo "$res" | grep -q "undecided\|out-of-subset\|contract-error\|engine-error"; then verdict="UNDECIDED"; else verdict="SURVIVED"; fi
  fi
  rm -rf $d
  echo "| $total | $file | $what | $unit | $verdict | \`$first\` |" >> $out
  echo "$total $verdict $unit $what"
done
echo "" >> $out
echo "killed: $(grep -c '| KILLED |' $out), undecided: $(grep -c '| UNDECIDED |' $out), survived: $(grep -c '| SURVIVED |' $out), not applied: $(grep -c '| NOT-APPLIED |' $out)" >> $out
tail -1 $out
