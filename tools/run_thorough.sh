#!/bin/sh
# run every claimed check in the thorough tier (evidence to a scratch directory), print one line per property
cd "$(dirname "$0")/.."
out=${1:-/tmp/ev_thorough}
for p in $(.venv/bin/python -c "import json;print(' '.join(c['property_id'] for c in json.load(open('MANIFEST.json'))['checks']))"); do
  ./check $p --tier thorough --evidence-dir $out | grep -E "^$p:|VIOLATION|UNDECIDED|FAULT" | cut -c1-400
done
