#!/bin/sh
# usage: tools/seed_eval_scratch.sh <seed dir with patch.diff+demo.py> <property id> [more property ids]
# like seed_eval.sh but never touches /repo: the patch is applied to a scratch copy of /repo's tracked source under /tmp and the checks
# run with --repo <copy>; the copy is removed afterwards.
d=$(cd "$1" && pwd); shift
name=$(basename $d)
w=$(mktemp -d /tmp/seedeval_${name}_XXXX)
mkdir -p $w/src && cp -r /repo/src/rtflite $w/src/ && cp -r /repo/docs $w/docs 2>/dev/null
( cd $w && git apply $d/patch.diff ) || { echo "patch does not apply"; rm -rf $w; exit 8; }
PYTHONPATH=/repo/src /venv/bin/python $d/demo.py >/dev/null 2>&1; echo "demo on unchanged tree: exit $?"
PYTHONPATH=$w/src /venv/bin/python $d/demo.py > $w/demo.out 2>&1; echo "demo with change: exit $?"; tail -3 $w/demo.out | cut -c1-300
cd /verif
for p in "$@"; do ./check $p --repo $w --evidence-dir $w/ev > $w/check.out; grep -E "^VIOLATION|^UNDECIDED|^FAULT" $w/check.out | cut -c1-330 | head -${LINES_OUT:-14}; grep -E "^$p:" $w/check.out; done
rm -rf $w
