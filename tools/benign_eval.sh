#!/bin/sh
# usage: tools/benign_eval.sh <patch> <property id>...   -- apply a semantics-preserving refactoring to a scratch copy of /repo and run
# the checks against it; exit 0 / 2 are acceptable (held / undecided), 1 or 3 would be a false alarm / checker crash
patch=$1; shift
d=$(mktemp -d /tmp/benXXXXXX); git -C /repo archive HEAD | tar -x -C $d
(cd $d && patch -p1 -s < $patch) || { echo "patch does not apply"; rm -rf $d; exit 9; }
cd "$(dirname "$0")/.."
for p in "$@"; do
  ./check $p --repo $d --evidence-dir $d/ev > $d/out.txt 2>&1; rc=$?
  echo "$(basename $patch) $p exit=$rc $(grep -E "^$p:" $d/out.txt | cut -c1-120)"
  if [ $rc -eq 1 ] || [ $rc -eq 3 ]; then grep -E "^VIOLATION|^FAULT" $d/out.txt | cut -c1-300 | head -4; fi
  if [ $rc -eq 2 ]; then grep -E "^UNDECIDED" $d/out.txt | cut -c1-220 | head -2; fi
done
rm -rf $d
