#!/bin/sh
# usage: tools/seed_eval.sh <seed dir with patch.diff+demo.py> <property id> [more property ids]
# applies the patch to /repo, runs the demo (expect exit 1) and the checks (expect exit 1), then reverts /repo.
d=$1; shift
cd /repo && git diff --quiet || { echo "/repo not clean"; exit 9; }
/venv/bin/python $d/demo.py >/dev/null 2>&1; echo "demo on unchanged tree: exit $?"
git apply $d/patch.diff || { echo "patch does not apply"; exit 8; }
/venv/bin/python $d/demo.py > /tmp/seed_demo.out 2>&1; echo "demo with change: exit $?"; tail -3 /tmp/seed_demo.out | cut -c1-300
if [ -n "$RUN_TESTS" ]; then /venv/bin/python -m pytest -q -p no:cacheprovider -x 2>&1 | tail -1; fi
cd /verif
for p in "$@"; do ./check $p --evidence-dir /tmp/seed_ev > /tmp/seed_check.out; grep -E "^VIOLATION|^UNDECIDED|^FAULT" /tmp/seed_check.out | cut -c1-330 | head -${LINES_OUT:-14}; grep -E "^$p:" /tmp/seed_check.out; done
git -C /repo checkout -- . ; rm -rf /tmp/seed_ev
