"""Developer probe: run the contract units of one contracts module against a tree and list every obligation that is not
discharged.  usage: tools/probe.py <contracts module> [repo root] [unit class]"""
import importlib
import os
import sys
import time

sys.path.insert(0, os.path.dirname(os.path.dirname(os.path.abspath(__file__))))
from pyvc.repoindex import RepoIndex
from pyvc.contract import verify_unit
from pyvc.solve import discharge
mod = importlib.import_module(sys.argv[1])
idx = RepoIndex(sys.argv[2] if len(sys.argv) > 2 else '/repo')
only = sys.argv[3] if len(sys.argv) > 3 else None
for u in mod.UNITS:
    if only and type(u).__name__ != only: continue
    for r in verify_unit(idx, u):
        print(r.unit, r.status, r.detail[:3000], len(r.obligations), round(r.gen_time, 2))
        t = time.time(); discharge(r.obligations); print('solve', round(time.time() - t, 2))
        for ob in r.obligations:
            if ob.verdict != 'discharged': print('  ', ob.name, ob.kind, ob.verdict, ob.backend, round(ob.time, 2))
        print(r.info.get('notes'), r.info.get('assumed'), 'inlined', [f['qualname'] for f in r.info.get('inlined', [])])
for l in getattr(mod, 'LEMMAS', []):
    for r in l.run(idx, 'quick', 0):
        discharge(r.obligations)
        print(r.unit, r.status, [(o.name.split('#')[-1], o.verdict) for o in r.obligations])
