#!/usr/bin/env python3
"""Regenerate MANIFEST.json from contracts/properties.py (claimed checks) + NOT_APPLICABLE reasons below."""
import json, os, sys
VERIF = os.path.dirname(os.path.dirname(os.path.abspath(__file__)))
sys.path.insert(0, VERIF)
from contracts.properties import PROPERTIES, MANIFEST_TEXT, NOT_APPLICABLE

props = [json.loads(l)["id"] for l in open(os.path.join(VERIF, "properties.jsonl"))]
checks = []
for pid in props:
    if pid not in PROPERTIES:
        continue
    p = PROPERTIES[pid]()
    t = MANIFEST_TEXT[pid]
    checks.append({
        "property_id": pid,
        "quick_cmd": f"./check {pid} --tier quick",
        "thorough_cmd": f"./check {pid} --tier thorough",
        "evidence_file": f"/verif/evidence/{pid}.json",
        "replay_cmd_template": f"./check {pid} --replay {{path}}",
        "engine": "pyvc",
        "level_claimed": {"category": p.level, "text": t["text"], "design_ref": "DESIGN.md " + p.design_ref},
        "level_note": t["note"],
        "technique": p.technique,
    })
na = [{"property_id": pid, "reason": NOT_APPLICABLE.get(pid, "check not built yet (build in progress; DESIGN.md section 7)")}
      for pid in props if pid not in PROPERTIES]
m = {
    "version": 1,
    "setup_cmd": "./setup.sh",
    "hooks": {"guard": "RTFLITE_VERIF",
              "enable": "none needed: contracts are sidecar files under /verif/contracts; no hook commit exists in /repo",
              "baseline_off_cmd": "cd /repo && /venv/bin/python -m pytest -ra -q -p no:cacheprovider --timeout=900 --continue-on-collection-errors",
              "source_commits": [], "add_only": True},
    "engines": [{"name": "pyvc", "path": "/verif/pyvc", "serves_properties": [c["property_id"] for c in checks],
                 "kind_free_text": "ast-level symbolic executor over the real rtflite sources (re-read every run) + sidecar contracts; "
                                   "VCs discharged by z3 5.1 API, /usr/bin/cvc5, /usr/bin/z3 4.8"}],
    "checks": checks,
    "not_applicable": na,
    "notes": "Contract-based deductive verification of the real code; see DESIGN.md. Exit codes: 0 held, 1 violation, 2 undecided, 3 checker fault.",
}
json.dump(m, open(os.path.join(VERIF, "MANIFEST.json"), "w"), indent=1)
import jsonschema
jsonschema.validate(m, json.load(open("/root/.vp/MANIFEST.schema.json")))
print("MANIFEST.json written:", len(checks), "checks,", len(na), "not claimed")
