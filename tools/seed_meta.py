"""Write seeded/<id>/meta.json from the seed's patch.diff and eval.txt (output of tools/seed_eval_scratch.sh or seed_eval.sh).
usage: tools/seed_meta.py <seed id> <property> <round> [needs_to_manifest text]"""
import json, os, re, sys
sid, prop, rnd = sys.argv[1], sys.argv[2], int(sys.argv[3])
d = os.path.join(os.path.dirname(os.path.dirname(os.path.abspath(__file__))), "seeded", sid)
final = "eval2.txt" if os.path.exists(os.path.join(d, "eval2.txt")) else "eval.txt"
ev = open(os.path.join(d, final)).read().splitlines()
first = None
if final == "eval2.txt" and os.path.exists(os.path.join(d, "eval.txt")):
    f1 = [l for l in open(os.path.join(d, "eval.txt")).read().splitlines() if l.startswith(prop + ":")]
    first = f1[-1] if f1 else None
files = re.findall(r"^diff --git a/(\S+)", open(os.path.join(d, "patch.diff")).read(), re.M)
summ = [l for l in ev if l.startswith(prop + ":")]
viol = [l for l in ev if l.startswith("VIOLATION")]
und = [l for l in ev if l.startswith("UNDECIDED")]
m = re.search(r"exit=(\d)", summ[-1]) if summ else None
meta = {
    "seed": sid, "property": prop, "round": rnd,
    "origin": "fresh sub-agent given only the property text (statement, quantifier, anchors), the list of files earlier seeds had touched and a scratch git worktree under /tmp; change never committed to /repo",
    "files_changed": files,
    "needs_to_manifest": sys.argv[4] if len(sys.argv) > 4 else "",
    "what_was_run": {"tool": "tools/seed_eval_scratch.sh (patch applied to a scratch copy of the tracked source; demo.py on /repo/src and on the copy; ./check <property> --repo <copy>)",
                     "demo": [l for l in ev if l.startswith("demo ")], "pytest": "423 passed, 22 skipped (run by the seeding agent in its worktree)",
                     "check_summary": summ[-1] if summ else None},
    "check_exit": int(m.group(1)) if m else None,
    "first_evaluation_before_the_machinery_was_extended": first,
    "reported_obligations": [re.sub(r"^.*replays/", "", v.split("replay=")[1].split()[0]).replace(".json", "") for v in viol][:8],
    "undecided_units": [u[len("UNDECIDED "):][:160] for u in und][:4],
    "replayed_input_found": any("no-failing-input-found" not in v for v in viol),
}
json.dump(meta, open(os.path.join(d, "meta.json"), "w"), indent=1)
print(sid, meta["check_exit"], meta["replayed_input_found"], len(viol))
