#!/bin/sh
# usage: tools/mut.sh <relative file under src/rtflite> <sed expr> <contracts module> [unit class]   -- quick engine self-test on a scratch copy
d=$(mktemp -d /tmp/mutXXXXXX); cp -r /repo/src $d/src
sed -i "$2" $d/src/rtflite/$1
diff /repo/src/rtflite/$1 $d/src/rtflite/$1 | head -6
cd /verif && .venv/bin/python tools/probe.py $3 $d $4 2>&1 | grep -v "^\[" | head -${5:-12}
rm -rf $d
