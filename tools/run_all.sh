#!/bin/sh
# run every claimed check (quick tier) on /repo, rewrite evidence, print one line per property
cd "$(dirname "$0")/.."
for p in $(.venv/bin/python -c "import json;print(' '.join(c['property_id'] for c in json.load(open('MANIFEST.json'))['checks']))"); do
  ./check $p --tier ${1:-quick} | grep -E "^$p:|VIOLATION|UNDECIDED|FAULT" | cut -c1-300
done
