#!/bin/sh
# evaluate every seeded change: apply to /repo, run its demo and the check of its property, revert; one eval.txt per seed
cd "$(dirname "$0")/.."
for d in seeded/C*; do
  id=$(basename $d); p=$(echo $id | cut -c1-3)
  RUN_TESTS=${RUN_TESTS:-} LINES_OUT=6 tools/seed_eval.sh $PWD/$d $p > $d/eval.txt 2>&1
  echo "$id: $(grep -c '^VIOLATION' $d/eval.txt) violation line(s); $(grep "^$p:" $d/eval.txt | tail -1)"
done
