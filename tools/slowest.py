"""Developer probe: the slowest obligations of one unit (solver-budget sizing).  usage: tools/slowest.py <contracts module> <unit class>"""
import importlib
import os
import sys
import time

sys.path.insert(0, os.path.dirname(os.path.dirname(os.path.abspath(__file__))))
from pyvc.repoindex import RepoIndex
from pyvc.contract import verify_unit
from pyvc.solve import discharge
mod = importlib.import_module(sys.argv[1]); idx = RepoIndex('/repo')
for u in mod.UNITS:
    if type(u).__name__ != sys.argv[2]: continue
    for r in verify_unit(idx, u):
        discharge(r.obligations, workers=12)
        print(r.unit, sorted([(round(o.time,1), o.backend, o.name.split('#',1)[1][:90]) for o in r.obligations], reverse=True)[:6])
