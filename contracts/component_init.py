"""Constructors of the components (input.py): the caller's keyword arguments are merged over the component's built-in defaults and handed to
the pydantic constructor.  Contract (C02 / C11 / C09: the formatting and conversion the user asked for is the one applied): EVERY keyword the
caller gave reaches the model with the caller's value - also False, 0, '' and [] - and a default is used only for a keyword the caller did not
give."""
import z3
from z3 import And, Or, Not, Implies

from pyvc.contract import Contract
from pyvc import types as T
from pyvc.values import RecObj, DictObj, ListObj, Ref, Opt, StrSort, lit, norm_str, to_z3, fresh_name
from pyvc.libmodels.strings import StrModel


_ABSENT = object()


def _mk(target, cls_name, defaults_call=None, pre=None):
    class ComponentInit(Contract):
        __doc__ = f"{cls_name}.__init__(**data): caller's keywords override the defaults whatever their truth value; defaults only for absent keys."
        serves = ["C02", "C11", "C09"]
        models = [StrModel()]
        variants = ["falsy_override_of_a_default", "keyword_without_default", "nothing_given"]

        def setup(self, c):
            cls = c.cls("rtflite.input", cls_name)
            me = c.alloc(RecObj(cls_name, {}, pyclass=cls, fresh=False))
            c.bind("self", me)
            given = {}
            if c.variant == "falsy_override_of_a_default":
                given = {"text_convert": c.fresh("callers_text_convert", T.Bool), "text_hyphenation": False, "text_space_before": c.fresh("callers_space_before", T.Int)}
            elif c.variant == "keyword_without_default":
                given = {"text": c.fresh("callers_text", T.Str), "page_by": None}
            if cls_name in ("RTFTableTextComponent",) :
                given = dict(given)
            data = c.alloc(DictObj(items=dict(given), fresh=False))
            c.bind("data", data)
            c.v.update(given=given, me=me)
            c.ghost("passed", None)
            self._v = c.v

        @property
        def summaries(self):
            def defaults_dict(I, st, args, kwargs, node):
                # the component's defaults: a fresh dict that has entries for the probed keys (and others)
                return st.alloc(DictObj(items={"text_convert": st.alloc(ListObj(items=[True], fresh=True)), "text_hyphenation": st.alloc(ListObj(items=[True], fresh=True)),
                                               "text_space_before": st.alloc(ListObj(items=[15], fresh=True)), "text_font": st.alloc(ListObj(items=[1], fresh=True))}, fresh=True))
            out = {}
            for q in (defaults_call or []):
                out[q] = defaults_dict
            out[f"{cls_name}._set_default"] = lambda I, st, args, kwargs, node: None
            out[f"{cls_name}._process_text_conversion"] = lambda I, st, args, kwargs, node: None
            out[f"{cls_name}._get_default_as_table"] = lambda I, st, args, kwargs, node: True
            return out

        @property
        def handlers(self):
            def super_init(I, st, _a, _k, node):
                # super().__init__(**defaults): record the mapping that reaches the pydantic constructor
                call = node
                passed = None
                for kw in call.keywords:
                    if kw.arg is None:
                        passed = I.eval(st, kw.value)
                st.ghost["passed"] = passed
                return None
            super_init.raw = True
            return {"super().__init__": super_init}

        def ensures(self, c, out):
            st = out.state
            p = st.ghost.get("passed")
            if not isinstance(p, Ref) or not isinstance(st.obj(p), DictObj):
                return {"the_merged_keywords_reach_the_model_constructor": z3.BoolVal(False)}
            d = st.obj(p)
            cl = {}
            for k, v in c.v["given"].items():
                got = d.items.get(k, _ABSENT)
                pres = d.present.get(k, True) if hasattr(d, "present") else True
                if got is _ABSENT:
                    cl[f"C11.callers_{k}_reaches_the_model_whatever_its_truth_value"] = z3.BoolVal(False)
                    continue
                same = (got is v) or (v is None and got is None) or (isinstance(v, bool) and got is v) or (z3.is_expr(v) and z3.is_expr(got) and got.eq(v))
                cl[f"C11.callers_{k}_reaches_the_model_whatever_its_truth_value"] = And(pres if z3.is_expr(pres) else z3.BoolVal(bool(pres)), z3.BoolVal(bool(same)))
            if c.variant == "nothing_given" and cls_name != "RTFPageHeader":
                cl["defaults_are_used_for_absent_keywords"] = z3.BoolVal(len(d.items) >= 1)
            return cl
    ComponentInit.target = target
    ComponentInit.__name__ = cls_name + "Init"
    return ComponentInit


BodyInit = _mk("input.py::RTFBody.__init__", "RTFBody")
TextComponentInit = _mk("input.py::RTFTextComponent.__init__", "RTFTextComponent", defaults_call=["RTFTextComponent._get_component_defaults"])
TableTextComponentInit = _mk("input.py::RTFTableTextComponent.__init__", "RTFTableTextComponent", defaults_call=["RTFTableTextComponent._get_component_table_defaults"])
ColumnHeaderInit = _mk("input.py::RTFColumnHeader.__init__", "RTFColumnHeader", defaults_call=["RTFColumnHeader._get_column_header_defaults"])
UNITS = [BodyInit(), TextComponentInit(), TableTextComponentInit(), ColumnHeaderInit()]
