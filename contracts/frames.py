"""Frame contract of the encode call graph (DESIGN 1.6, C14 F1/F2/F4/F5/F6, C15).

Every store / mutator site of the real AST reachable from RTFDocument.rtf_encode is enumerated on every run and
must be justified by one of the rules below; each site is one obligation `frame::<function>|<kind>|<target>`.
A site that no rule justifies (a new cache, a store into a caller-owned component, a write to module state) is a
refuted obligation.  Rules are checked mechanically on the AST; the explicit table only names WHICH rule applies
to sites that need interprocedural knowledge, and every such entry carries its own mechanical side condition.
"""
import ast

from pyvc import frames as F
from pyvc.units import ScanUnit

ROOTS = ["encode::RTFDocument.rtf_encode"]

# methods that run on the object under construction (called from its own __init__); their `self.x = ...` stores are
# construction of a fresh object PROVIDED every call site is `self.<m>()` inside such a method / __init__, or has a
# receiver that is itself justified (checked below)
CONSTRUCTOR_HELPERS = {"_set_default", "_set_portrait_defaults", "_set_landscape_defaults", "_set_attribute_defaults",
                       "_set_border_defaults", "_set_table_attribute_defaults", "_process_text_conversion"}

# parameter of a helper that receives an object owned by the caller's activation: (function key, parameter) -> callers that
# must pass a fresh local (checked), transitively through the same table
PARAM_OWNED = {
    ("services.encoding_service::RTFEncodingService.encode_column_header", "rtf_attrs"):
        [("encoding.renderer::PageRenderer._render_column_headers", "header_copy")],
    ("pagination.processor::PageFeatureProcessor._apply_border_to_cell", "page_attrs"):
        [("pagination.processor::PageFeatureProcessor._apply_pagination_borders", "page_attrs"),
         ("pagination.processor::PageFeatureProcessor._apply_body_border_first", "page_attrs")],
    ("pagination.processor::PageFeatureProcessor._apply_body_border_first", "page_attrs"):
        [("pagination.processor::PageFeatureProcessor._apply_pagination_borders", "page_attrs")],
}

# objects that exist only inside one rtf_encode activation: created by the pagination strategies / _encode_body_section,
# handed from stage to stage, never stored in caller or module state (side condition: constructor sites checked)
PIPELINE_CLASSES = {"PageContext": ["page", "p", "page_ctx", "processed_page"]}

EXPLICIT = {
    # BroadcastValue temporaries: `self.value = self.to_list()` then a store into that fresh matrix - proved by the contract
    # units UpdateCell / UpdateRow (frame = strict); every BroadcastValue is constructed at its use site (checked)
    "attributes::BroadcastValue.update_cell|store|self.value": "broadcast-temporary",
    "attributes::BroadcastValue.update_cell|store|self.value[row_index][column_index]": "broadcast-temporary",
    "attributes::BroadcastValue.update_row|store|self.value": "broadcast-temporary",
    "attributes::BroadcastValue.update_row|store|self.value[row_index]": "broadcast-temporary",
    "attributes::BroadcastValue.update_column|store|self.value": "broadcast-temporary",
    "attributes::BroadcastValue.update_column|store|row[column_index]": "broadcast-temporary",
    # lazily filled only when cell_nrow is None, which pydantic rejects for the non-optional field list[list[int]] (checked)
    "attributes::TableAttributes._encode|store|self.cell_nrow": "unreachable-cell_nrow-none",
    "attributes::TableAttributes._encode|store|self.cell_nrow[i][j]": "unreachable-cell_nrow-none",
    # rows come from DataFrame.to_dicts(): fresh dicts (assumed polars contract, proved use in unit AssignPages)
    "pagination.core::PageBreakCalculator._assign_pages|store|row['page']": "to_dicts-rows",
    # polars Series.sort() returns a new Series (not a mutator)
    "pagination.strategies.defaults::DefaultPaginationStrategy.paginate|mutate.sort|metadata['page'].unique()": "polars-pure",
    "pagination.strategies.grouping::PageByStrategy.paginate|mutate.sort|metadata['page'].unique()": "polars-pure",
    "pagination.strategies.grouping::SublineStrategy.paginate|mutate.sort|metadata['page'].unique()": "polars-pure",
    # registry of constants: GIL-atomic store of a (literal name, class) pair; every call site passes constants (checked)
    "pagination.strategies.registry::StrategyRegistry.register|store|cls._strategies[name]": "constant-registry",
    # the colour context: a ContextVar (thread/task local); set/clear protocol proved by unit EncodeCtx
    "services.color_service::ColorService._current_document_colors|ctxvar.set|_DOCUMENT_COLORS": "context-local",
    "services.color_service::ColorService.set_document_context|store|self._current_document_colors": "context-local-property",
    "services.color_service::ColorService.clear_document_context|store|self._current_document_colors": "context-local-property",
    # closure variable of collect_document_colors: a fresh set of the enclosing activation (checked)
    "services.color_service::ColorService.collect_document_colors.extract_colors_from_attribute|mutate.add|used_colors": "closure-fresh",
    # only reachable by method NAME from the exporters, never from rtf_encode (checked: callers)
    "convert::LibreOfficeConverter.convert|mutate.mkdir|output_dir": "not-on-encode-path",
}


def _parents(fn):
    par = {}
    for n in ast.walk(fn):
        for ch in ast.iter_child_nodes(n):
            par[ch] = n
    return par


def _binds(stmt, name):
    """Does `stmt` (including nested blocks) bind `name`?  Returns the list of value expressions / markers."""
    out = []
    for n in ast.walk(stmt):
        if isinstance(n, ast.Assign):
            for t in n.targets:
                if isinstance(t, ast.Name) and t.id == name:
                    out.append(n.value)
                elif isinstance(t, (ast.Tuple, ast.List)) and any(isinstance(x, ast.Name) and x.id == name for x in t.elts):
                    out.append("UNPACK")
        elif isinstance(n, (ast.AnnAssign, ast.NamedExpr)) and isinstance(n.target, ast.Name) and n.target.id == name:
            out.append(n.value)
        elif isinstance(n, (ast.For, ast.comprehension)) and any(isinstance(x, ast.Name) and x.id == name for x in ast.walk(n.target)):
            out.append("ITER")
    return out


def nearest_binding_fresh(fi, site, fresh_all):
    """Flow-sensitive: walk from the store statement outwards; the nearest preceding statement that binds the root decides."""
    par = _parents(fi.node)
    node = site.node
    name = site.root
    while node is not fi.node and node in par:
        parent = par[node]
        for field in ("body", "orelse", "finalbody", "handlers"):
            block = getattr(parent, field, None)
            if isinstance(block, list) and node in block:
                i = block.index(node)
                for prev in reversed(block[:i]):
                    bs = _binds(prev, name)
                    if bs:
                        if isinstance(prev, (ast.Assign, ast.AnnAssign)) and len(bs) == 1 and not isinstance(bs[0], str):
                            v = bs[0]
                            shallow = (isinstance(v, ast.Call) and isinstance(v.func, ast.Attribute) and v.func.attr in ("model_copy", "copy")
                                       and not any(k.arg == "deep" for k in v.keywords))
                            if shallow and site.depth > 1:
                                return False          # deep store through a shallow copy reaches the original's nested objects
                            return F.is_fresh_expr(v, fresh_all)
                        return False          # bound inside a compound statement: not decidable here
        if isinstance(parent, ast.For) and any(isinstance(x, ast.Name) and x.id == name for x in ast.walk(parent.target)):
            return False
        node = parent
    return None


def _call_sites(reach, method_name):
    out = []
    for fi in reach.values():
        for n in ast.walk(fi.node):
            if isinstance(n, ast.Call):
                f = n.func
                if (isinstance(f, ast.Attribute) and f.attr == method_name) or (isinstance(f, ast.Name) and f.id == method_name):
                    out.append((fi, n))
    return out


def scan(index):
    funcs = F.all_functions(index)
    reach = F.reachable(index, ROOTS, funcs)
    results = []
    fresh_cache = {}

    def fresh_of(fi):
        if fi.key not in fresh_cache:
            fresh_cache[fi.key] = F.fresh_locals(fi.node)
        return fresh_cache[fi.key]

    def is_owned_arg(fi, expr):
        """Argument expression is an object owned by fi's activation (fresh local, flow-insensitively or by nearest binding)."""
        if not isinstance(expr, ast.Name):
            return F.is_fresh_expr(expr)
        fresh, b = fresh_of(fi)
        if expr.id in fresh:
            return True
        if (fi.key, expr.id) in PARAM_OWNED:
            return True
        # single fresh assignment among several (e.g. `x = deepcopy(x)`): accept when some binding is fresh and all
        # others are parameters of the same name (re-binding of a parameter to its copy)
        vals = b.get(expr.id, [])
        owned_fns = {k[0].split(".")[-1]: k[1] for k in PARAM_OWNED}

        def preserves(v):
            # `x = self.helper(x, ...)` where helper is a PARAM_OWNED function returning its owned parameter
            return (isinstance(v, ast.Call) and isinstance(v.func, ast.Attribute) and v.func.attr in owned_fns
                    and any(isinstance(a, ast.Name) and a.id == expr.id for a in v.args))
        vals = [v for v in vals if not preserves(v)]
        if any(not isinstance(v, str) and F.is_fresh_expr(v, fresh) for v in vals) and all(
                isinstance(v, str) and v == "PARAM" or (not isinstance(v, str) and F.is_fresh_expr(v, fresh)) for v in vals):
            return True
        return False

    # ---- side conditions of the explicit rules (each is its own obligation)
    # constant registry
    reg_calls = _call_sites(funcs, "register")
    ok = all(len(n.args) == 2 and isinstance(n.args[0], ast.Constant) and isinstance(n.args[0].value, str) and isinstance(n.args[1], ast.Name)
             for fi, n in reg_calls if isinstance(n.func, ast.Attribute) and isinstance(n.func.value, ast.Name) and n.func.value.id == "StrategyRegistry")
    results.append(("side::registry_calls_pass_constants", ok, {"calls": [f"{fi.key}:L{n.lineno}" for fi, n in reg_calls]}))
    # BroadcastValue constructed at the use site only
    bad = []
    for fi in reach.values():
        for n in ast.walk(fi.node):
            if isinstance(n, ast.Call) and isinstance(n.func, ast.Attribute) and n.func.attr in ("update_cell", "update_row", "update_column"):
                recv = n.func.value
                if isinstance(recv, ast.Call) and isinstance(recv.func, ast.Name) and recv.func.id == "BroadcastValue":
                    continue
                fresh, _ = fresh_of(fi)
                if isinstance(recv, ast.Name) and recv.id in fresh:
                    continue
                bad.append(f"{fi.key}:L{n.lineno}:{ast.unparse(recv)}")
    results.append(("side::broadcast_updates_only_on_temporaries", not bad, {"offending": bad}))
    # cell_nrow is a non-optional field
    try:
        attrs = index.real_module("rtflite.attributes")
        ann = attrs.TableAttributes.model_fields["cell_nrow"].annotation
        results.append(("side::cell_nrow_not_optional", "None" not in str(ann), {"annotation": str(ann)}))
    except Exception as e:
        results.append(("side::cell_nrow_not_optional", False, {"error": str(e)}))
    # pipeline objects: constructor sites are inside the encode pipeline
    for cls in PIPELINE_CLASSES:
        sites = [(fi.key, n.lineno) for fi in funcs.values() for n in ast.walk(fi.node)
                 if isinstance(n, ast.Call) and isinstance(n.func, ast.Name) and n.func.id == cls]
        okc = all(k in reach and ("paginate" in k or "_encode_body_section" in k) for k, _ in sites)
        results.append((f"side::{cls}_constructed_only_in_pipeline", okc, {"sites": sites}))
        # ... and never stored into module / class / caller state
        leaks = []
        for fi in reach.values():
            for s in F.store_sites(fi):
                if s.kind == "store" and s.root in ("self", "cls", "document") and isinstance(s.node, ast.Assign):
                    v = s.node.value
                    if isinstance(v, ast.Name) and v.id in PIPELINE_CLASSES[cls]:
                        leaks.append(s.ident)
        results.append((f"side::{cls}_never_stored_in_long_lived_state", not leaks, {"leaks": leaks}))
    # convert(): callers
    conv_callers = sorted({fi.key for fi, n in _call_sites(funcs, "convert") if isinstance(n.func, ast.Attribute)
                           and isinstance(n.func.value, ast.Name) and n.func.value.id == "converter"})
    results.append(("side::converter_called_only_by_exporters", all(k.split(".")[-1] in ("write_docx", "write_html", "write_pdf") for k in conv_callers),
                    {"callers": conv_callers}))
    # the colour context is a ContextVar
    try:
        import contextvars
        csm = index.real_module("rtflite.services.color_service")
        isprop = isinstance(csm.ColorService.__dict__.get("_current_document_colors"), property)
        hasvar = any(isinstance(v, contextvars.ContextVar) for v in vars(csm).values())
        results.append(("side::colour_context_is_context_local", isprop and hasvar, {"property": isprop, "contextvar": hasvar}))
    except Exception as e:
        results.append(("side::colour_context_is_context_local", False, {"error": str(e)}))
    # module-level mutable state in the package: every module-level name bound to a mutable literal / call that is written anywhere
    # in reachable code must be in the explicit table (the store-site enumeration below catches the writes)

    # ---- every store site
    helper_recv_bad = []
    for key, fi in sorted(reach.items()):
        fresh, b = fresh_of(fi)
        for s in F.store_sites(fi):
            name = f"frame::{s.ident}"
            detail = {"line": s.lineno, "function": fi.key}
            if s.ident in EXPLICIT:
                detail["rule"] = EXPLICIT[s.ident]
                results.append((name, True, detail))
                continue
            if s.kind == "global":
                results.append((name, False, {**detail, "why": "global/nonlocal statement on the encode path"}))
                continue
            if s.root is None:
                # store into the result of a call expression
                _, base = F.root_name(s.node.targets[0] if isinstance(s.node, ast.Assign) else s.node.func.value)
                okc = isinstance(base, ast.Call) and F.is_fresh_expr(base)
                results.append((name, okc, {**detail, "rule": "store into a fresh call result" if okc else None}))
                continue
            if s.root in fresh:
                detail["rule"] = "fresh-local"
                # a shallow copy may only be stored into at depth 1
                shallow = any(not isinstance(v, str) and isinstance(v, ast.Call) and isinstance(v.func, ast.Attribute) and v.func.attr == "model_copy"
                              and not any(k.arg == "deep" for k in v.keywords) for v in b.get(s.root, []))
                okc = not (shallow and s.depth > 1)
                results.append((name, okc, detail if okc else {**detail, "why": "deep store through a shallow model_copy()"}))
                continue
            nb = nearest_binding_fresh(fi, s, fresh)
            if nb is True:
                results.append((name, True, {**detail, "rule": "fresh-by-nearest-binding"}))
                continue
            if s.root in ("self", "cls"):
                if fi.node.name == "__init__" and s.depth == 1:
                    results.append((name, True, {**detail, "rule": "self-init"}))
                    continue
                if fi.node.name in CONSTRUCTOR_HELPERS and s.depth <= 1:
                    results.append((name, True, {**detail, "rule": "constructor-helper (call sites checked)"}))
                    continue
                if fi.node.name == "__init__":
                    # store THROUGH self into a component object handed in by the caller (F5)
                    results.append((name, False, {**detail, "why": "constructor writes into a caller-owned component object"}))
                    continue
            owner = (fi.key, s.root)
            if owner in PARAM_OWNED:
                okc = True
                why = []
                listed = {c for c, _ in PARAM_OWNED[owner]}
                for cfi, call in _call_sites(reach, fi.node.name):
                    if cfi.key == fi.key:
                        continue
                    if cfi.key not in listed:
                        okc = False
                        why.append(f"unlisted caller {cfi.key}:L{call.lineno}")
                        continue
                    params = [a.arg for a in fi.node.args.args if a.arg != "self"]
                    pos = params.index(s.root) if s.root in params else None
                    argexpr = None
                    for kw in call.keywords:
                        if kw.arg == s.root:
                            argexpr = kw.value
                    if argexpr is None and pos is not None and pos < len(call.args):
                        argexpr = call.args[pos]
                    if argexpr is None or not is_owned_arg(cfi, argexpr):
                        okc = False
                        why.append(f"{cfi.key}:L{call.lineno} passes {ast.unparse(argexpr) if argexpr is not None else '?'} which is not owned")
                results.append((name, okc, {**detail, "rule": "param-owned", "why": why}))
                continue
            pipeline = [cls for cls, names in PIPELINE_CLASSES.items() if s.root in names]
            if pipeline and s.depth <= 2:
                results.append((name, True, {**detail, "rule": f"pipeline-object {pipeline[0]}"}))
                continue
            results.append((name, False, {**detail, "why": "store site not justified by any frame rule (caller-owned or global state?)",
                                          "root": s.root, "kind": s.kind}))
        # constructor-helper call sites
        for n in ast.walk(fi.node):
            if isinstance(n, ast.Call) and isinstance(n.func, ast.Attribute) and n.func.attr in CONSTRUCTOR_HELPERS:
                recv = n.func.value
                if isinstance(recv, ast.Name) and recv.id == "self" and (fi.node.name == "__init__" or fi.node.name in CONSTRUCTOR_HELPERS):
                    continue
                if isinstance(recv, ast.Call) and isinstance(recv.func, ast.Name) and recv.func.id == "super":
                    continue
                if is_owned_arg(fi, recv):
                    continue
                helper_recv_bad.append(f"{fi.key}:L{n.lineno}:{ast.unparse(recv)}.{n.func.attr}()")
    results.append(("side::constructor_helpers_called_only_on_owned_objects", not helper_recv_bad, {"offending": helper_recv_bad}))

    # ---- file-system effects on the encode path (C18: rtf_encode performs no FS write)
    fs = []
    for key, fi in reach.items():
        if key.startswith("convert::"):
            continue          # reachable only by method-name over-approximation; side::converter_called_only_by_exporters
        for n in ast.walk(fi.node):
            if isinstance(n, ast.Call):
                f = n.func
                nm = f.attr if isinstance(f, ast.Attribute) else (f.id if isinstance(f, ast.Name) else None)
                if nm in F.FS_CALLS:
                    if nm == "open":
                        mode = n.args[1].value if len(n.args) > 1 and isinstance(n.args[1], ast.Constant) else "r"
                        for kw in n.keywords:
                            if kw.arg == "mode" and isinstance(kw.value, ast.Constant):
                                mode = kw.value.value
                        if mode in ("r", "rb"):
                            continue
                    if nm in ("run", "copy", "remove", "move") and not (isinstance(f, ast.Attribute) and isinstance(f.value, ast.Name) and f.value.id in ("shutil", "os", "subprocess")):
                        continue
                    fs.append(f"{key}:L{n.lineno}:{ast.unparse(f)}")
    results.append(("effects::no_filesystem_write_reachable_from_rtf_encode", not fs, {"sites": fs}))

    # ---- the caller's DataFrame (F6): no in-place polars mutator on the encode path
    inplace = []
    for key, fi in reach.items():
        for n in ast.walk(fi.node):
            if isinstance(n, ast.Call) and isinstance(n.func, ast.Attribute) and n.func.attr in (
                    "insert_column", "replace_column", "hstack", "vstack", "extend", "drop_in_place", "shrink_to_fit", "rechunk"):
                kws = {k.arg: k.value for k in n.keywords}
                if n.func.attr in ("hstack", "vstack", "shrink_to_fit", "rechunk") and not (
                        "in_place" in kws and isinstance(kws["in_place"], ast.Constant) and kws["in_place"].value):
                    continue
                r, _ = F.root_name(n.func.value)
                if n.func.attr == "extend":
                    continue          # list.extend sites are store sites above
                inplace.append(f"{key}:L{n.lineno}:{ast.unparse(n.func)}")
            if isinstance(n, ast.Subscript) and isinstance(n.ctx, ast.Store):
                r, _ = F.root_name(n)
                if r in ("df", "original_df", "processed_df", "page_df", "section_df", "full_df"):
                    inplace.append(f"{key}:L{n.lineno}:{ast.unparse(n)} (item assignment on a DataFrame)")
    results.append(("frame::caller_dataframe_never_mutated_in_place", not inplace, {"sites": inplace}))
    results.append(("meta::reachable_functions", len(reach) > 50, {"reachable": len(reach), "functions": len(funcs)}))
    return results


def scan_init(index):
    """F5: RTFDocument.__init__ must not write into component objects handed in by the caller."""
    funcs = F.all_functions(index)
    fi = funcs["encode::RTFDocument.__init__"]
    out = []
    for s in F.store_sites(fi):
        ok = s.root == "self" and s.depth == 1
        out.append((f"frame::{s.ident}", ok, {"line": s.lineno, "why": None if ok else "constructor writes into a caller-owned component object"}))
    return out


UNITS_SCAN = [ScanUnit("encode_call_graph_frames", scan), ScanUnit("document_init_frames", scan_init)]
