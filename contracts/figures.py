"""Contracts for services/figure_service.py and figure.py (DESIGN A19): C16."""
import z3
from z3 import And, Or, Not, Implies, ForAll, If, IntVal

from pyvc.contract import Contract
from pyvc.interp import LoopSpec
from pyvc import types as T
from pyvc.units import TableUnit
from pyvc.values import Opt, Rope, Tok, Dec, StrSort, lit, norm_str, rope_of, str_len, rope_bal_low, ListObj
from pyvc.libmodels.bytesmodel import BytesModel, bytes_value, hex_of, substr, struct_unpack
from pyvc.libmodels.strings import StrModel
from contracts.rtfview import param_int, ctl_params, literal_text


class GetDimension(Contract):
    """_get_dimension: positional value, the last one reused when the list is shorter (C16)."""
    target = "services/figure_service.py::RTFFigureService._get_dimension"
    serves = ["C16"]
    variants = ["scalar", "list"]

    def setup(self, c):
        idx = c.param("index", T.Int)
        c.requires("index_nonneg", idx >= 0)
        if c.variant == "scalar":
            c.param("dimension", T.Real)
        else:
            c.param("dimension", T.List(T.Real, minlen=1))

    def ensures(self, c, out):
        idx, dim = c.v["index"], c.v["dimension"]
        if c.variant == "scalar":
            return {"scalar_identity": out.value == dim}
        o = c.obj(dim)
        n = o.length
        return {"positional_or_last": out.value == o.get(If(idx < n, idx, n - 1))}


class BinaryToHex(Contract):
    """_binary_to_hex: consecutive 80-character windows of data.hex(), in order, covering it, joined by newlines."""
    target = "services/figure_service.py::RTFFigureService._binary_to_hex"
    serves = ["C16"]
    models = [BytesModel(), StrModel()]

    def setup(self, c):
        ref, arr, n = bytes_value(c.st, "data")
        c.bind("data", ref)
        c.v.update(arr=arr, n=n)

    def setup_loops(self, c):
        arr, n = c.v["arr"], c.v["n"]
        hx = hex_of(arr, n)

        def inv(v):
            lines = v.obj(v.lines)
            i = v.i
            k = z3.Int("k")
            L = lines.len_term()
            g = (lambda j: lines.get(j)) if not lines.concrete else (lambda j: lit(""))
            return {"hex": v.hex_string == hx,
                    "count": (L if z3.is_expr(L) else IntVal(L)) == i,
                    "windows": ForAll([k], Implies(And(0 <= k, k < i), g(k) == substr(hx, 80 * k, 80 * k + 80)))}
        self.loops = {0: LoopSpec(inv=inv, havoc={"lines": T.List(T.Str)})}

    def ensures(self, c, out):
        arr, n = c.v["arr"], c.v["n"]
        hx = hex_of(arr, n)
        r = rope_of(out.value)
        ok = len(r.pieces) == 1 and isinstance(r.pieces[0], Tok) and r.pieces[0].tag == "JOIN"
        if not ok:
            return {"is_newline_join_of_lines": z3.BoolVal(False)}
        tk = r.pieces[0].fields
        k = z3.Int("k")
        L = 2 * n
        return {"separator_is_newline": z3.BoolVal(tk["sep"] == "\n"),
                "window_count_covers_hex": And(80 * tk["length"] >= L, 80 * (tk["length"] - 1) < If(L > 0, L, 1) if True else True),
                "windows_consecutive": ForAll([k], Implies(And(0 <= k, k < tk["length"]), tk["get"](k) == substr(hx, 80 * k, 80 * k + 80)))}


def be(arr, off, nbytes):
    v = IntVal(0)
    for k in range(nbytes):
        v = v * 256 + arr[off + k]
    return v


_SIG = list(b"\x89PNG\r\n\x1a\n")


class PngDimensions(Contract):
    """_get_png_dimensions: IHDR width/height are the big-endian words at bytes 16..19 / 20..23."""
    target = "services/figure_service.py::RTFFigureService._get_png_dimensions"
    serves = ["C16"]
    models = [BytesModel()]
    handlers = {"struct.unpack": struct_unpack}

    def setup(self, c):
        ref, arr, n = bytes_value(c.st, "data")
        c.bind("data", ref)
        c.v.update(arr=arr, n=n)

    def ensures(self, c, out):
        arr, n = c.v["arr"], c.v["n"]
        w, h = out.value
        is_png = And(n > 24, *[arr[k] == _SIG[k] for k in range(8)])
        if w is None:
            return {"none_only_if_not_png": Not(is_png)}
        return {"png_guard": is_png, "width_be32_at_16": w == be(arr, 16, 4), "height_be32_at_20": h == be(arr, 20, 4)}


_SOF = [0xC0, 0xC1, 0xC2, 0xC3, 0xC5, 0xC6, 0xC7, 0xC9, 0xCA, 0xCB, 0xCD, 0xCE, 0xCF]


class JpegDimensions(Contract):
    """_get_jpeg_dimensions: terminates; all reads in bounds; a returned size is read from a SOFn segment header
    (height at +5, width at +7, big-endian) that starts at a scanned 0xFF marker."""
    target = "services/figure_service.py::RTFFigureService._get_jpeg_dimensions"
    serves = ["C16"]
    models = [BytesModel()]
    handlers = {"struct.unpack": struct_unpack}

    def setup(self, c):
        ref, arr, n = bytes_value(c.st, "data")
        c.bind("data", ref)
        c.v.update(arr=arr, n=n)

    def setup_loops(self, c):
        n = c.v["n"]

        def inv(v):
            return {"pos": And(v.i >= 2, n >= 10)}
        self.loops = {0: LoopSpec(inv=lambda v: {"pos": And(v.__getattr__("i") >= 2, n >= 10)} if False else _jpeg_inv(v, n),
                                  variant=lambda v: n - v.state.env["i"] + 1)}

    def ensures(self, c, out):
        arr, n = c.v["arr"], c.v["n"]
        w, h = out.value
        if w is None:
            return {}
        i = out.state.env["i"]
        return {"at_marker": And(i >= 2, i < n - 9, arr[i] == 0xFF, Or(*[arr[i + 1] == m for m in _SOF])),
                "height_be16_at_5": h == be(arr, i + 5, 2), "width_be16_at_7": w == be(arr, i + 7, 2)}


def _jpeg_inv(v, n):
    i = v.state.env["i"]
    return {"pos": And(i >= 2, n >= 10)}


class ImageDimensions(Contract):
    """_get_image_dimensions: dispatch by format; never raises (parser failures fall back to (None, None))."""
    target = "services/figure_service.py::RTFFigureService._get_image_dimensions"
    serves = ["C16"]
    models = [BytesModel()]

    def setup(self, c):
        ref, arr, n = bytes_value(c.st, "data")
        c.bind("data", ref)
        c.param("format", T.Str)
        c.v.update(arr=arr, n=n)

    @property
    def summaries(self):
        def png(I, st, args, kwargs, node):
            isn = z3.Bool("png_none")
            st.ghost["png"] = (isn, z3.Int("png_w"), z3.Int("png_h"))
            return (Opt(isn, z3.Int("png_w")), Opt(isn, z3.Int("png_h")))

        def jpeg(I, st, args, kwargs, node):
            isn = z3.Bool("jpg_none")
            st.ghost["jpeg"] = (isn, z3.Int("jpg_w"), z3.Int("jpg_h"))
            return (Opt(isn, z3.Int("jpg_w")), Opt(isn, z3.Int("jpg_h")))
        return {"RTFFigureService._get_png_dimensions": png, "RTFFigureService._get_jpeg_dimensions": jpeg}

    def ensures(self, c, out):
        fmt = c.v["format"]
        w, h = out.value
        g = out.state.ghost
        if "png" in g:
            return {"png_dispatch": And(fmt == lit("png"), w.isnone == g["png"][0], w.payload == g["png"][1], h.payload == g["png"][2])}
        if "jpeg" in g:
            return {"jpeg_dispatch": And(fmt == lit("jpeg"), w.isnone == g["jpeg"][0], w.payload == g["jpeg"][1], h.payload == g["jpeg"][2])}
        return {"other_formats_none": And(z3.BoolVal(w is None and h is None), fmt != lit("png"), fmt != lit("jpeg"))}


class EncodeSingleFigure(Contract):
    """_encode_single_figure: `<align>{\\pict<blip>\\picwW\\pichH\\picwgoalGW\\pichgoalGH <hex>}` (C16, C01)."""
    target = "services/figure_service.py::RTFFigureService._encode_single_figure"
    serves = ["C16", "C01"]
    models = [BytesModel()]

    def setup(self, c):
        ref, arr, n = bytes_value(c.st, "figure_data")
        c.bind("figure_data", ref)
        c.param("figure_format", T.Str)
        w = c.param("width", T.Real)
        h = c.param("height", T.Real)
        c.param("alignment", T.Str)
        c.requires("positive_size", And(w > 0, h > 0))
        c.v.update(arr=arr, n=n)

    @property
    def summaries(self):
        def dims(I, st, args, kwargs, node):
            isn = z3.Bool("dims_none")
            pw, ph = z3.Int("pix_w"), z3.Int("pix_h")
            st.ghost["dims"] = (isn, pw, ph, args[0], args[1])
            return (Opt(isn, pw), Opt(isn, ph))

        def tohex(I, st, args, kwargs, node):
            st.ghost["hexarg"] = args[0]
            # assumed contract of bytes.hex(): lowercase hex digits only, so the payload (digits and newlines) is brace-free ASCII
            return Rope((Tok("HEXPAYLOAD", data=args[0], bal=z3.IntVal(0), low=z3.IntVal(0), ascii=z3.BoolVal(True)),))
        return {"RTFFigureService._get_image_dimensions": dims, "RTFFigureService._binary_to_hex": tohex}

    def ensures(self, c, out):
        r = out.value
        g = out.state.ghost
        fmt, w, h, al = c.v["figure_format"], c.v["width"], c.v["height"], c.v["alignment"]
        txt = literal_text(r)
        pieces = rope_of(r).pieces
        cl = {}
        isn, pw, ph, darg, farg = g["dims"]
        cl["dims_read_from_this_image"] = z3.BoolVal(darg == c.v["figure_data"]) if not z3.is_expr(darg) else z3.BoolVal(False)
        cl["dims_format_arg"] = farg == fmt if z3.is_expr(farg) else z3.BoolVal(False)
        picw, pich = param_int(r, "picw"), param_int(r, "pich")
        gw, gh = param_int(r, "picwgoal"), param_int(r, "pichgoal")
        cl["has_all_size_words"] = z3.BoolVal(None not in (picw, pich, gw, gh))
        if None in (picw, pich, gw, gh):
            return cl
        cl["pixel_size_from_image"] = Implies(Not(isn), And(picw == pw, pich == ph))
        cl["display_width_inches_x_1440"] = And(z3.ToReal(gw) <= 1440 * w, 1440 * w < z3.ToReal(gw) + 1)
        cl["display_height_inches_x_1440"] = And(z3.ToReal(gh) <= 1440 * h, 1440 * h < z3.ToReal(gh) + 1)
        # shape: alignment word, then exactly one picture group whose payload is the hex of this figure
        toks = [p for p in pieces if isinstance(p, Tok)]
        cl["payload_is_hex_of_this_figure"] = z3.BoolVal(len(toks) == 1 and toks[0].tag == "HEXPAYLOAD" and toks[0].fields["data"] == c.v["figure_data"])
        cl["one_pict_group_closed_after_payload"] = z3.BoolVal(txt.count("{\\pict") == 1 and txt.endswith("\x00}") and isinstance(pieces[-2], Tok))
        b, l = rope_bal_low(r)
        cl["balanced"] = And(b == 0, l >= 0)
        # blip keyword and alignment: the first piece is the symbolic map lookup (a Str term), literal on concrete paths
        first, blip = pieces[0], None
        cl["alignment_word"] = _lookup_is(first, al, {"center": "\\qc ", "right": "\\qr ", "left": "\\ql "}, "\\ql ")
        for p in pieces:
            pass
        # the blip piece follows the literal "{\\pict"
        idx = next((k for k, p in enumerate(pieces) if isinstance(p, str) and p.endswith("{\\pict")), None)
        if idx is None:
            cl["blip_keyword_matches_format"] = _literal_blip(txt, fmt)
        else:
            cl["blip_keyword_matches_format"] = _lookup_is(pieces[idx + 1], fmt, {"png": "\\pngblip", "jpeg": "\\jpegblip", "emf": "\\emfblip"}, "\\pngblip")
        return cl


def _lookup_is(piece, key, table, default):
    if isinstance(piece, str):
        # concrete path: the piece starts with the chosen literal; compare against the table by path condition
        return Or(*[And(key == lit(k), z3.BoolVal(piece.startswith(v))) for k, v in table.items()],
                  And(*[key != lit(k) for k in table], z3.BoolVal(piece.startswith(default))))
    if z3.is_expr(piece):
        return And(*[Implies(key == lit(k), piece == lit(v)) for k, v in table.items()],
                   Implies(And(*[key != lit(k) for k in table]), piece == lit(default)))
    return z3.BoolVal(False)


def _literal_blip(txt, fmt):
    return z3.BoolVal(False)


def determine_format_table(index):
    """Finite map: the suffix -> format table of the REAL _determine_image_format, evaluated exhaustively on the
    supported suffixes in both cases, plus unsupported suffixes -> ValueError."""
    from pathlib import Path
    fig = index.real_module("rtflite.figure")
    want = {".png": "png", ".jpg": "jpeg", ".jpeg": "jpeg", ".emf": "emf"}
    for suf, fmt in want.items():
        for s in (suf, suf.upper(), suf.capitalize()):
            try:
                got = fig._determine_image_format(Path("/x/y/fig" + s))
            except Exception as e:
                got = f"{type(e).__name__}"
            yield (f"suffix{s}", got == fmt, {"suffix": s, "got": got, "want": fmt})
    for s in (".bmp", ".tiff", ".txt", ""):
        try:
            got = fig._determine_image_format(Path("/x/y/fig" + s))
        except ValueError:
            got = "ValueError"
        except Exception as e:
            got = type(e).__name__
        yield (f"unsupported{s or '.none'}", got == "ValueError", {"suffix": s, "got": got})


UNITS = [GetDimension(), BinaryToHex(), PngDimensions(), JpegDimensions(), ImageDimensions(), EncodeSingleFigure()]
TABLES = [TableUnit("determine_image_format", determine_format_table)]


# ---- figure.py::rtf_read_figure ---------------------------------------------------------------------------------------------------
from pyvc.interp import LoopSpec as _LoopSpec
from pyvc.seqs import safe_view as _safe_view, seq_view as _seq_view, as_symlist
from pyvc.values import to_z3
from z3 import Exists

FILE_EXISTS = z3.Function("image_file_exists", StrSort, z3.BoolSort())
FILE_BYTES = z3.Function("image_file_bytes", StrSort, z3.IntSort())          # id of the byte string stored at that path
FILE_FORMAT = z3.Function("image_format_of_path", StrSort, StrSort)


class ReadFigure(Contract):
    """rtf_read_figure(paths): for a list of paths, one (bytes, format) pair per path **in the given order**, the bytes being the
    file's content and the format the one determined for that path; FileNotFoundError exactly when some path does not exist (C16:
    figures appear in the given order and carry the file's exact bytes)."""
    target = "figure.py::rtf_read_figure"
    serves = ["C16"]
    models = [StrModel()]
    variants = ["list", "single"]

    def setup(self, c):
        if c.variant == "single":
            p0 = c.fresh("path", T.Str)
            c.bind("file_paths", p0)
            paths = c.alloc(ListObj(items=[p0], fresh=False))
        else:
            paths = c.fresh("paths", T.List(T.Str))
            c.bind("file_paths", paths)
        c.v.update(paths=paths)

    @property
    def raises(self):
        def r(c, out):
            n, g = as_symlist(out.state, out.state.obj(c.v["paths"]))
            k = z3.Int("k")
            return {"only_when_some_file_is_missing": Exists([k], And(0 <= k, k < to_z3(n), Not(FILE_EXISTS(to_z3(norm_str(g(k)))))))}
        return {"FileNotFoundError": r}

    @property
    def handlers(self):
        def h_path(I, st, args, kwargs, node):
            return ("path", to_z3(norm_str(args[0])))

        def h_exists(I, st, args, kwargs, node):
            p = I.lookup(st, "path")
            return FILE_EXISTS(p[1])

        def h_format(I, st, args, kwargs, node):
            I.ctx.assume_lib("_determine_image_format(path): a function of the path (table unit determine_image_format)")
            return FILE_FORMAT(args[0][1])

        def h_read(I, st, args, kwargs, node):
            I.ctx.assume_lib("_read_image_data(path): the bytes stored at that path (open(path, 'rb').read())")
            return FILE_BYTES(args[0][1])

        def h_isinstance(I, st, args, kwargs, node):
            return NotImplemented
        return {"Path": h_path, "path.exists": h_exists, "_determine_image_format": h_format, "_read_image_data": h_read}

    def setup_loops(self, c):
        self._v = v = c.v

        def inv(vv):
            st = vv.state
            n, g = as_symlist(st, st.obj(v["paths"]))
            dn, dg = _safe_view(st, vv.obj(vv.figure_data), IntVal(-1))
            fn, fg = _safe_view(st, vv.obj(vv.figure_formats), lit(""))
            k = z3.Int("k")
            pk = lambda j: to_z3(norm_str(g(j)))
            return {"range": And(0 <= vv.i, vv.i <= to_z3(n)),
                    "one_entry_per_path_so_far": And(to_z3(dn) == vv.i, to_z3(fn) == vv.i),
                    "entries_in_path_order": ForAll([k], Implies(And(0 <= k, k < vv.i), And(to_z3(dg(k)) == FILE_BYTES(pk(k)), to_z3(fg(k)) == FILE_FORMAT(pk(k)),
                                                                                         FILE_EXISTS(pk(k)))))}
        self.loops = {0: _LoopSpec(inv=inv, havoc={"figure_data": T.List(T.Int), "figure_formats": T.List(T.Str)})}

    def ensures(self, c, out):
        st = out.state
        res = out.value
        if not (isinstance(res, tuple) and len(res) == 2):
            return {"returns_data_and_formats": z3.BoolVal(False)}
        n, g = as_symlist(st, st.obj(c.v["paths"]))
        dn, dg = _seq_view(st, res[0])
        fn, fg = _seq_view(st, res[1])
        k = z3.Int("k")
        pk = lambda j: to_z3(norm_str(g(j)))
        return {"C16.one_figure_per_path_in_the_given_order": And(to_z3(dn) == to_z3(n), to_z3(fn) == to_z3(n),
                                                                  ForAll([k], Implies(And(0 <= k, k < to_z3(n)), And(to_z3(dg(k)) == FILE_BYTES(pk(k)),
                                                                                                                      to_z3(fg(k)) == FILE_FORMAT(pk(k)))))),
                "C16.every_file_existed": ForAll([k], Implies(And(0 <= k, k < to_z3(n)), FILE_EXISTS(pk(k))))}


UNITS.append(ReadFigure())
