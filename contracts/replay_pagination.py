"""Native replay for pagination/core.py obligations: bounded concrete search on the REAL function of the tree
under check, evaluating the same clauses concretely.  A hit is a reachable failing input."""
import itertools
import random


def assign_pages_spec(h, g, s, pages, nrow, add, new_page):
    """Concrete evaluation of the A1 ensures clauses; returns the list of violated clause names."""
    n = len(h)
    bad = []
    if n == 0:
        return bad
    avail = max(1, nrow - add)
    force = lambda k: (s[k] and k > 0) or (new_page and g[k] and k > 0)
    if pages[0] != 1 or any(pages[k + 1] - pages[k] not in (0, 1) for k in range(n - 1)):
        bad.append("pages_from_1/chain/page_iff_interval")
        return bad
    m = pages[-1]
    first = {p: pages.index(p) for p in range(1, m + 1)}
    last = {p: n - 1 - pages[::-1].index(p) for p in range(1, m + 1)}
    S = [0]
    for x in h:
        S.append(S[-1] + x)
    for p in range(1, m + 1):
        if not (S[last[p] + 1] - S[first[p]] <= avail or first[p] == last[p]):
            bad.append("budget")
    for p in range(2, m + 1):
        if not (force(first[p]) or S[first[p]] - S[first[p - 1]] + h[first[p]] > avail):
            bad.append("break_only_if_required")
    for k in range(n):
        if force(k) and first[pages[k]] != k:
            bad.append("forced_break_always")
        if first[pages[k]] != k and not (not force(k) and S[k + 1] - S[first[pages[k]]] <= avail):
            bad.append("no_break_unless_required")
    return sorted(set(bad))


def replay_assign_pages(index, ob, seed, saved=None):
    import polars as pl
    core = index.real_module("rtflite.pagination.core")
    rng = random.Random(seed)

    def run(h, g, s, nrow, add, new_page):
        n = len(h)
        meta = pl.DataFrame({"row_index": list(range(n)), "data_rows": h, "pageby_header_rows": [0] * n,
                             "subline_header_rows": [0] * n, "column_header_rows": [0] * n, "total_rows": h,
                             "page": [0] * n, "is_group_start": g, "is_subline_start": s},
                            schema={"row_index": pl.Int64, "data_rows": pl.Int64, "pageby_header_rows": pl.Int64,
                                    "subline_header_rows": pl.Int64, "column_header_rows": pl.Int64, "total_rows": pl.Int64,
                                    "page": pl.Int64, "is_group_start": pl.Boolean, "is_subline_start": pl.Boolean})
        calc = core.PageBreakCalculator(pagination=core.RTFPagination(page_width=8.5, page_height=11, margin=[1] * 6,
                                                                      nrow=nrow, orientation="portrait"))
        out = calc._assign_pages(meta, add, new_page)
        pages = out["page"].to_list()
        other_ok = all(out[c].to_list() == meta[c].to_list() for c in meta.columns if c != "page")
        bad = assign_pages_spec(h, g, s, pages, nrow, add, new_page)
        if not other_ok:
            bad.append("frame_other_columns")
        return pages, bad

    if saved and saved.get("found"):
        i = saved["input"]
        pages, bad = run(i["h"], i["g"], i["s"], i["nrow"], i["add"], i["new_page"])
        return {"found": bool(bad), "input": i, "observed_pages": pages, "violated_clauses": bad}
    tried = 0
    for n in range(1, 6):
        for h in itertools.product((1, 2, 3), repeat=n):
            for nrow, add in ((2, 0), (3, 0), (3, 1), (4, 2), (5, 0), (2, 5)):
                for new_page in (False, True):
                    flagsets = [([False] * n, [False] * n)]
                    for _ in range(3):
                        flagsets.append(([rng.random() < 0.4 for _ in range(n)], [rng.random() < 0.3 for _ in range(n)]))
                    for g, s in flagsets:
                        tried += 1
                        try:
                            pages, bad = run(list(h), g, s, nrow, add, new_page)
                        except Exception as e:
                            return {"found": True, "input": dict(h=list(h), g=g, s=s, nrow=nrow, add=add, new_page=new_page),
                                    "observed": f"{type(e).__name__}: {e}", "tried": tried}
                        if bad:
                            return {"found": True, "input": dict(h=list(h), g=g, s=s, nrow=nrow, add=add, new_page=new_page),
                                    "observed_pages": pages, "violated_clauses": bad, "tried": tried,
                                    "how": "bounded concrete search on the real PageBreakCalculator._assign_pages (n<=5, heights 1..3)"}
    return {"found": False, "tried": tried}
