"""Native replay for pagination/core.py obligations: bounded concrete search on the REAL function of the tree
under check, evaluating the same clauses concretely.  A hit is a reachable failing input."""
import itertools
import random


def assign_pages_spec(h, g, s, pages, nrow, add, new_page, pb=None, cont=None):
    """Concrete evaluation of the A1 ensures clauses; returns the list of violated clause names.  pb / cont: heading rows budgeted
    at a mid-page group start / at a page top for each row (top(f) = cont[f] - pb[f] extra rows when row f > 0 opens a page)."""
    n = len(h)
    pb = pb or [0] * n
    cont = cont or [0] * n
    top = lambda f: (cont[f] - pb[f]) if f > 0 else 0
    bad = []
    if n == 0:
        return bad
    avail = max(1, nrow - add)
    force = lambda k: (s[k] and k > 0) or (new_page and g[k] and k > 0)
    if pages[0] != 1 or any(pages[k + 1] - pages[k] not in (0, 1) for k in range(n - 1)):
        bad.append("pages_from_1/chain/page_iff_interval")
        return bad
    m = pages[-1]
    first = {p: pages.index(p) for p in range(1, m + 1)}
    last = {p: n - 1 - pages[::-1].index(p) for p in range(1, m + 1)}
    S = [0]
    for x in h:
        S.append(S[-1] + x)
    for p in range(1, m + 1):
        if not (S[last[p] + 1] - S[first[p]] + top(first[p]) <= avail or first[p] == last[p]):
            bad.append("budget")
    for p in range(2, m + 1):
        if not (force(first[p]) or S[first[p]] - S[first[p - 1]] + top(first[p - 1]) + h[first[p]] > avail):
            bad.append("break_only_if_required")
    for k in range(n):
        if force(k) and first[pages[k]] != k:
            bad.append("forced_break_always")
        if first[pages[k]] != k and not (not force(k) and S[k + 1] - S[first[pages[k]]] + top(first[pages[k]]) <= avail):
            bad.append("no_break_unless_required")
    return sorted(set(bad))


def replay_assign_pages(index, ob, seed, saved=None):
    import polars as pl
    core = index.real_module("rtflite.pagination.core")
    rng = random.Random(seed)

    def run(h, g, s, nrow, add, new_page):
        n = len(h)
        # heading rows: a mid-page group start budgets 1 row (already part of h), a page top shows 2 rows for every row of a grouped frame
        pb = [1 if (g[k] and h[k] > 1) else 0 for k in range(n)]
        cont = [max(pb[k], 2 if any(g) else 0) for k in range(n)]
        if n:
            cont[0] = pb[0]
        meta = pl.DataFrame({"row_index": list(range(n)), "data_rows": [h[k] - pb[k] for k in range(n)], "pageby_header_rows": pb,
                             "continuation_header_rows": cont,
                             "subline_header_rows": [0] * n, "column_header_rows": [0] * n, "total_rows": h,
                             "page": [0] * n, "is_group_start": g, "is_subline_start": s},
                            schema={"row_index": pl.Int64, "data_rows": pl.Int64, "pageby_header_rows": pl.Int64, "continuation_header_rows": pl.Int64,
                                    "subline_header_rows": pl.Int64, "column_header_rows": pl.Int64, "total_rows": pl.Int64,
                                    "page": pl.Int64, "is_group_start": pl.Boolean, "is_subline_start": pl.Boolean})
        calc = core.PageBreakCalculator(pagination=core.RTFPagination(page_width=8.5, page_height=11, margin=[1] * 6,
                                                                      nrow=nrow, orientation="portrait"))
        out = calc._assign_pages(meta, add, new_page)
        pages = out["page"].to_list()
        other_ok = all(out[c].to_list() == meta[c].to_list() for c in meta.columns if c != "page")
        bad = assign_pages_spec(h, g, s, pages, nrow, add, new_page, pb=pb, cont=cont)
        if not other_ok:
            bad.append("frame_other_columns")
        return pages, bad

    if saved and saved.get("found"):
        i = saved["input"]
        pages, bad = run(i["h"], i["g"], i["s"], i["nrow"], i["add"], i["new_page"])
        return {"found": bool(bad), "input": i, "observed_pages": pages, "violated_clauses": bad}
    tried = 0
    for n in range(1, 6):
        for h in itertools.product((1, 2, 3), repeat=n):
            for nrow, add in ((2, 0), (3, 0), (3, 1), (4, 2), (5, 0), (2, 5)):
                for new_page in (False, True):
                    flagsets = [([False] * n, [False] * n)]
                    for _ in range(3):
                        flagsets.append(([rng.random() < 0.4 for _ in range(n)], [rng.random() < 0.3 for _ in range(n)]))
                    for g, s in flagsets:
                        tried += 1
                        try:
                            pages, bad = run(list(h), g, s, nrow, add, new_page)
                        except Exception as e:
                            return {"found": True, "input": dict(h=list(h), g=g, s=s, nrow=nrow, add=add, new_page=new_page),
                                    "observed": f"{type(e).__name__}: {e}", "tried": tried}
                        if bad:
                            return {"found": True, "input": dict(h=list(h), g=g, s=s, nrow=nrow, add=add, new_page=new_page),
                                    "observed_pages": pages, "violated_clauses": bad, "tried": tried,
                                    "how": "bounded concrete search on the real PageBreakCalculator._assign_pages (n<=5, heights 1..3)"}
    return {"found": False, "tried": tried}


def replay_row_metadata(index, ob, seed, saved=None):
    """calculate_row_metadata on the real code (small frames): group / subline start flags are exactly the key changes over ALL key
    columns, data_rows >= 1, total_rows = data_rows + pageby_header_rows, heading rows only at group starts."""
    import polars as pl
    core = index.real_module("rtflite.pagination.core")
    rtf = index.real_module("rtflite")
    cases = []
    keysets = [(["A", "A", "B", "B"], ["x", "y", "y", "y"]), (["A", "B", "B", "C"], ["x", "x", "x", "x"]), (["A", "A", "A", "A"], ["x", "x", "y", "y"]),
               (["A", "B", "A", "B"], ["q", "q", "q", "q"])]
    for g, h in keysets:
        for pb, sb in ((["g", "h"], None), (["g"], None), (["h"], ["g"]), (None, ["g", "h"])):
            cases.append({"g": g, "h": h, "page_by": pb, "subline_by": sb})
    for case in cases:
        if saved is not None and case != saved.get("input", saved):
            continue
        g, h = case["g"], case["h"]
        df = pl.DataFrame({"g": g, "h": h, "x": [f"r{i}" for i in range(len(g))]})
        calc = core.PageBreakCalculator(pagination=core.RTFPagination(page_width=8.5, page_height=11, margin=[1] * 6, nrow=40, orientation="portrait"))
        attrs = rtf.RTFBody()._set_default() if hasattr(rtf.RTFBody(), "_set_default") else rtf.RTFBody()
        try:
            out = calc.calculate_row_metadata(df=df, col_widths=[2.0, 4.0, 6.0], page_by=case["page_by"], subline_by=case["subline_by"], table_attrs=attrs,
                                              removed_column_indices=[], additional_rows_per_page=0, new_page=False)
        except Exception as e:
            return {"found": True, "input": case, "observed": f"{type(e).__name__}: {e}"}
        n = len(g)
        key = lambda cols, k: tuple(str(df[c][k]) for c in cols)
        for flag, cols in (("is_group_start", case["page_by"]), ("is_subline_start", case["subline_by"])):
            got = out[flag].to_list()
            want = [bool(cols) and (k == 0 or key(cols, k) != key(cols, k - 1)) for k in range(n)]
            if got != want:
                return {"found": True, "input": case, "observed": f"{flag} = {got}, key changes are {want}"}
        dr, pr, tr = out["data_rows"].to_list(), out["pageby_header_rows"].to_list(), out["total_rows"].to_list()
        if any(x < 1 for x in dr) or any(t != a + b for t, a, b in zip(tr, dr, pr)):
            return {"found": True, "input": case, "observed": f"data_rows {dr}, pageby_header_rows {pr}, total_rows {tr}"}
        gs = out["is_group_start"].to_list()
        if any(p > 0 and not s for p, s in zip(pr, gs)):
            return {"found": True, "input": case, "observed": f"heading rows {pr} outside group starts {gs}"}
    return {"found": False, "tried": len(cases)}


def replay_reserved_rows(index, ob, seed, saved=None):
    """calculate_additional_rows_per_page on the real code: [subline_by] + #headers with own text + [footnote text] + [source text]."""
    import itertools
    import polars as pl
    rtf = index.real_module("rtflite")
    ds = index.real_module("rtflite.services.document_service").RTFDocumentService()
    df = pl.DataFrame({"g": ["A", "B"], "x": ["1", "2"]})
    for sub, nhdr, foot, src, pf, ps, subline_par in itertools.product((False, True), (0, 1, 2), (False, True), (False, True), ("first", "last", "all"), ("first", "last", "all"), (False, True)):
        case = {"subline_by": sub, "headers_with_text": nhdr, "footnote": foot, "source": src, "page_footnote": pf, "page_source": ps, "rtf_subline": subline_par}
        if saved is not None and case != saved.get("input", saved):
            continue
        kw = {}
        if foot:
            kw["rtf_footnote"] = rtf.RTFFootnote(text="fn")
        if src:
            kw["rtf_source"] = rtf.RTFSource(text="src")
        if subline_par:
            kw["rtf_subline"] = rtf.RTFSubline(text="a subline paragraph")          # a paragraph above the table: not a table row, nothing to reserve
        hdrs = [rtf.RTFColumnHeader(text=["G", "X"] if not sub else ["X"]) for _ in range(nhdr)] or [rtf.RTFColumnHeader()]
        try:
            doc = rtf.RTFDocument(df=df, rtf_page=rtf.RTFPage(page_footnote=pf, page_source=ps), rtf_body=rtf.RTFBody(subline_by=["g"] if sub else None),
                                  rtf_column_header=hdrs, **kw)
            got = ds.calculate_additional_rows_per_page(doc)
        except Exception as e:
            return {"found": True, "input": case, "observed": f"{type(e).__name__}: {e}"}
        want = int(sub) + nhdr + int(foot) + int(src)
        if got != want:
            return {"found": True, "input": case, "observed": f"reserved {got} rows, expected {want}"}
    return {"found": False}
