"""Structural read-back of rtflite-written RTF (used only by the *replayers*: bounded native searches for a failing input on the
real code after an obligation was refuted, and by bounded stand-ins; never counted as proof).

parse(rtf) -> Doc: .problems (lexical / structural problems), .pages = [Page], Page.items = [Row | Par | Pict], plus the page
geometry words in force.  Row.cells = [Cell(cellx, text, raw, borders{l,t,r,b -> (style words, width, colour idx)}, fs, f, just, fmt)].
The parser is written for what rtflite emits (\\trowd … \\cellx… then `\\pard … \\cell` per cell, `\\intbl\\row\\pard`); anything else is kept
as a problem string, never silently skipped."""
from __future__ import annotations

import re
from dataclasses import dataclass, field

from contracts.replayers import rtf_decode_text

BORDER_WORDS = ("brdrs", "brdrdb", "brdrdot", "brdrdash", "brdrdashsm", "brdrdashd", "brdrdashdd", "brdrtriple", "brdrth", "brdrhair",
                "brdrtnthsg", "brdrthtnsg", "brdrtnthtnsg", "brdrtnthmg", "brdrthtnmg", "brdrtnthtnmg", "brdrtnthlg", "brdrthtnlg",
                "brdrtnthtnlg", "brdrwavy", "brdrwavydb", "brdrdashdotstr", "brdremboss", "brdrengrave")


@dataclass
class Cell:
    cellx: int
    text: str
    raw: str
    borders: dict
    valign: str | None
    fs: int | None = None
    f: int | None = None
    just: str | None = None
    fmt: str = ""
    cf: int | None = None
    cb: int | None = None
    para: dict = field(default_factory=dict)


@dataclass
class Row:
    cells: list
    trq: str | None
    height: int | None
    raw: str
    kind = "row"


@dataclass
class Par:
    text: str
    raw: str
    kind = "par"


@dataclass
class Pict:
    raw_len: int
    picw: int | None
    pich: int | None
    wgoal: int | None
    hgoal: int | None
    blip: str | None
    hexdata: str
    kind = "pict"


@dataclass
class Page:
    items: list
    geometry: dict

    @property
    def rows(self):
        return [it for it in self.items if it.kind == "row"]


@dataclass
class Doc:
    pages: list
    problems: list
    prolog: str
    colortbl: list


def check_lexical(s: str) -> list[str]:
    """Group balance, single top-level group, nothing after it, control words well formed, \\u escapes valid."""
    pr = []
    depth, i, n = 0, 0, len(s)
    closed_at = None
    while i < n:
        ch = s[i]
        if ch == "\\":
            if i + 1 >= n:
                pr.append("dangling backslash at end")
                break
            nx = s[i + 1]
            if nx in "\\{}":
                i += 2
                continue
            if nx.isalpha():
                m = re.match(r"\\([a-zA-Z]+)(-?\d+)?( ?)", s[i:])
                word, par = m.group(1), m.group(2)
                if word == "u":
                    if par is None:
                        pr.append(f"\\u without parameter at {i}")
                    elif not -32768 <= int(par) <= 65535:
                        pr.append(f"\\u{par} out of range at {i}")
                i += len(m.group(0))
                continue
            if nx in "'":
                if not re.match(r"\\'[0-9a-fA-F]{2}", s[i:]):
                    pr.append(f"bad \\' escape at {i}")
                i += 4
                continue
            if nx in "*~-_:|\n\r":
                i += 2
                continue
            pr.append(f"invalid control symbol \\{nx!r} at {i}")
            i += 2
            continue
        if ch == "{":
            if closed_at is not None:
                pr.append(f"group opened after the top-level group closed at {i}")
            depth += 1
        elif ch == "}":
            depth -= 1
            if depth < 0:
                pr.append(f"unbalanced closing brace at {i}")
                depth = 0
            if depth == 0 and closed_at is None:
                closed_at = i
        elif closed_at is not None and not ch.isspace():
            pr.append(f"content after the top-level group at {i}: {s[i:i + 20]!r}")
            break
        elif ord(ch) > 127:
            pr.append(f"raw non-ASCII character U+{ord(ch):04X} at {i}")
        i += 1
    if depth != 0:
        pr.append(f"unbalanced groups: depth {depth} at end")
    if not s.startswith("{\\rtf1"):
        pr.append("does not start with {\\rtf1")
    return pr


# the text run `{\fN[\b\i…][\cfK…] text}`
_RUN = r"\{\\f\d+(?:\\(?:b|i|ul|strike|super|sub|cf\d+|chshdng\d+|chcbpat\d+|cb\d+|highlight\d+)(?![a-zA-Z0-9]))* (.*)"
_ROW = re.compile(r"\\trowd(.*?)\\intbl\\row\\pard", re.S)


def _borders(defn: str):
    out = {}
    for side, key in (("l", "clbrdrl"), ("t", "clbrdrt"), ("r", "clbrdrr"), ("b", "clbrdrb")):
        m = re.search(r"\\" + key + r"((?:\\(?:brdr[a-z]+)(?:-?\d+)?)*)", defn)
        if not m:
            out[side] = None
            continue
        words = re.findall(r"\\(brdr[a-z]+)(-?\d+)?", m.group(1))
        style = [w for w, p in words if w in BORDER_WORDS]
        width = next((int(p) for w, p in words if w == "brdrw" and p), None)
        col = next((int(p) for w, p in words if w == "brdrcf" and p), None)
        out[side] = (style[0] if style else "", width, col)
    return out


def _cell_content(raw: str):
    d = {}
    m = re.search(r"\\fs(\d+)", raw)
    d["fs"] = int(m.group(1)) if m else None
    m = re.search(r"\{\\f(\d+)", raw)
    d["f"] = int(m.group(1)) if m else None
    m = re.search(r"\\q([lcrjd])\b", raw)
    d["just"] = m.group(1) if m else None
    fmt = ""
    for w, ch in (("b", "b"), ("i", "i"), ("ul", "u"), ("strike", "s"), ("super", "^"), ("sub", "_")):
        if re.search(r"\\" + w + r"(?![a-zA-Z0-9])", raw):
            fmt += ch
    d["fmt"] = fmt
    m = re.search(r"\\cf(\d+)", raw)
    d["cf"] = int(m.group(1)) if m else None
    m = re.search(r"\\(?:chcbpat|cb|highlight)(\d+)", raw)
    d["cb"] = int(m.group(1)) if m else None
    para = {}
    for w in ("sb", "sa", "fi", "li", "ri", "sl"):
        mm = re.search(r"\\" + w + r"(-?\d+)", raw)
        para[w] = int(mm.group(1)) if mm else None
    mm = re.search(r"\\hyphpar(\d*)", raw)
    para["hyph"] = (mm.group(1) != "0") if mm else None
    d["para"] = para
    # the text run: innermost `{\fN text}` group
    m = re.search(_RUN + r"\}", raw, re.S)
    txt = m.group(1) if m else ""
    d["text"] = rtf_decode_text(txt.replace("\\line ", "\n"))[0]
    return d


def parse_row(raw: str) -> Row:
    defs = []
    pos = 0
    for m in re.finditer(r"\\cellx(-?\d+)", raw):
        defs.append((raw[pos:m.start()], int(m.group(1))))
        pos = m.end()
    rest = raw[pos:]
    parts = re.split(r"\\cell(?![a-zA-Z0-9])", rest)
    contents = parts[:-1]
    cells = []
    for k, (defn, cx) in enumerate(defs):
        content = contents[k] if k < len(contents) else None
        cc = _cell_content(content) if content is not None else {"text": None, "fs": None, "f": None, "just": None, "fmt": "", "cf": None, "cb": None, "para": {}}
        va = re.search(r"\\clvertal([tcb])", defn)
        cells.append(Cell(cellx=cx, text=cc["text"], raw=content or "", borders=_borders(defn), valign=va.group(1) if va else None,
                          fs=cc["fs"], f=cc["f"], just=cc["just"], fmt=cc["fmt"], cf=cc["cf"], cb=cc["cb"], para=cc["para"]))
    r = Row(cells=cells, trq=(re.search(r"\\trq([lcr])", raw) or [None, None])[1], height=None, raw=raw)
    m = re.search(r"\\trrh(-?\d+)", raw)
    r.height = int(m.group(1)) if m else None
    r.n_contents = len(contents)
    return r


def parse(rtf: str) -> Doc:
    problems = check_lexical(rtf)
    # prolog = everything up to the first page setting word
    m = re.search(r"\\paperw\d+", rtf)
    prolog = rtf[:m.start()] if m else rtf
    ct = re.search(r"\{\\colortbl\s*;(.*?)\}", rtf, re.S)
    colortbl = [e for e in (ct.group(1).replace("\n", "").split(";") if ct else []) if e != ""]
    body = rtf[m.start():] if m else ""
    chunks = re.split(r"\{?\\page(?![a-zA-Z])\}?|\\page(?![a-zA-Z])", body)
    pages = []
    geom = {}
    for ch in chunks:
        g = dict(geom)
        for w in ("paperw", "paperh", "margl", "margr", "margt", "margb", "headery", "footery"):
            mm = re.search(r"\\" + w + r"(-?\d+)", ch)
            if mm:
                g[w] = int(mm.group(1))
        g["landscape"] = bool(re.search(r"\\landscape", ch)) or geom.get("landscape", False) and not re.search(r"\\paperw", ch)
        geom = g
        items = []
        pos = 0
        # rows, paragraphs and pictures in document order
        tok = re.compile(r"\\trowd(.*?)\\intbl\\row\\pard|\{\\pard(?:(?!\{\\pard).)*?\\par\}|\{\\pict(.*?)\}", re.S)
        for mm in tok.finditer(ch):
            raw = mm.group(0)
            if raw.startswith("\\trowd"):
                row = parse_row(mm.group(1))
                if row.n_contents != len(row.cells):
                    problems.append(f"row with {len(row.cells)} \\cellx but {row.n_contents} \\cell")
                cxs = [c.cellx for c in row.cells]
                if any(x <= 0 for x in cxs) or any(b < a for a, b in zip(cxs, cxs[1:])):
                    problems.append(f"cell boundaries not positive non-decreasing: {cxs}")
                items.append(row)
            elif raw.startswith("{\\pict"):
                g1 = lambda w: (lambda q: int(q.group(1)) if q else None)(re.search(r"\\" + w + r"(-?\d+)", raw))
                blip = re.search(r"\\(pngblip|jpegblip|emfblip)", raw)
                hexd = re.sub(r"\s+", "", re.sub(r"^\{\\pict(\\[a-z]+-?\d*)*", "", raw)[:-1])
                items.append(Pict(len(raw), g1("picw"), g1("pich"), g1("picwgoal"), g1("pichgoal"), blip.group(1) if blip else None, hexd))
            else:
                mt = re.search(_RUN + r"\}\\par\}$", raw, re.S)
                items.append(Par(text=rtf_decode_text(mt.group(1))[0] if mt else "", raw=raw))
        pages.append(Page(items=items, geometry=g))
    return Doc(pages=pages, problems=problems, prolog=prolog, colortbl=colortbl)


def right_edges(doc: Doc):
    """[(page index, row index on page, last \\cellx)] for every table row."""
    return [(pi, ri, r.cells[-1].cellx if r.cells else None) for pi, p in enumerate(doc.pages) for ri, r in enumerate(p.rows)]
