"""Contracts for assemble.py::assemble_rtf and its nested find_start_index (DESIGN A20): C17."""
import z3
from z3 import And, Or, Not, Implies, ForAll, Exists, If, IntVal

from pyvc.contract import Contract
from pyvc.interp import LoopSpec
from pyvc import types as T
from pyvc.state import OutOfSubset, Outcome, SymRaise
from pyvc.units import LemmaUnit
from pyvc.values import RecObj, ListObj, Ref, Opt, StrSort, lit, norm_str, to_z3, fresh_name, BoundMethod, ClassVal
from pyvc.libmodels.strings import StrModel, str_contains, str_strip
from pyvc.libmodels.listfuns import ListFunModel
from pyvc.seqs import safe_view, seq_view, mk_symlist
from pyvc.ops import concrete_int

LinesSort = z3.DeclareSort("Lines")
LINES_OF = z3.Function("lines_of_file", StrSort, LinesSort)           # readlines() of the file at that path (FS fixed during the call)
NLINES = z3.Function("n_lines", LinesSort, z3.IntSort())
LINE = z3.Function("line", LinesSort, z3.IntSort(), StrSort)
EXISTS = z3.Function("path_exists", StrSort, z3.BoolSort())
FC = lambda s: str_contains(s, lit("fcharset"))
FOUND = z3.Function("has_fcharset_line", LinesSort, z3.BoolSort())
LASTFC = z3.Function("last_fcharset_line", LinesSort, z3.IntSort())
PAGE = lit("\\page\n")


def start_index(l):
    return If(FOUND(l), LASTFC(l) + 2, 0)


def spec_fc_axioms(l):
    k = z3.Int("fk")
    n = NLINES(l)
    return [FOUND(l) == Exists([k], And(0 <= k, k < n, FC(LINE(l, k)))),
            Implies(FOUND(l), And(0 <= LASTFC(l), LASTFC(l) < n, FC(LINE(l, LASTFC(l))),
                                  ForAll([k], Implies(And(LASTFC(l) < k, k < n), Not(FC(LINE(l, k)))))))]


class FileHandle:
    def __init__(self, path, mode):
        self.path, self.mode = path, mode


class LinesModel:
    """A `Lines` value is the list of lines of one input file; it is only read (indexed, sliced, iterated)."""
    assumed = ["open(path).readlines() returns the file's lines (a function of the path while the call runs); os.path.exists is a predicate on paths; "
               "open(path, 'w').writelines(xs) writes exactly xs"]

    def is_lines(self, v):
        return z3.is_expr(v) and v.sort() == LinesSort

    def len(self, I, st, v, node):
        if self.is_lines(v):
            return NLINES(v)
        return NotImplemented

    def get_item(self, I, st, base, key, node):
        if not self.is_lines(base):
            return NotImplemented
        n = NLINES(base)
        site = getattr(node, "lineno", None)
        if isinstance(key, slice):
            if key.step is not None:
                raise OutOfSubset("lines slice with step")
            lo = to_z3(key.start) if key.start is not None else IntVal(0)
            hi = to_z3(key.stop) if key.stop is not None else n
            lo = If(lo < 0, 0, If(lo > n, n, lo))
            hi = If(hi < 0, 0, If(hi > n, n, hi))
            ln = z3.simplify(If(hi - lo < 0, 0, hi - lo))
            lo = z3.simplify(lo)
            r = mk_symlist(st, ln, lambda k, base=base, lo=lo: LINE(base, z3.simplify(lo + to_z3(k))))
            st.obj(r).tag = ("slice", base, lo, ln)
            return r
        ci = concrete_int(key)
        if ci is not None and ci < 0:
            I.check(st, n >= -ci, "IndexError", "lines.index", site)
            return LINE(base, n + ci)
        I.check(st, And(to_z3(key) >= 0, to_z3(key) < n), "IndexError", "lines.index", site)
        return LINE(base, to_z3(key))

    def sym_iter(self, I, st, it):
        if self.is_lines(it):
            return NLINES(it), (lambda k, it=it: LINE(it, to_z3(k)))
        return NotImplemented

    def iter(self, I, st, it, node):
        if self.is_lines(it):
            return None
        return NotImplemented

    def isinstance(self, I, st, v, c, node):
        if self.is_lines(v):
            return c.name in ("list", "Sequence", "object")
        return NotImplemented

    def with_stmt(self, I, st, s):
        if len(s.items) != 1:
            return NotImplemented
        item = s.items[0]
        fh = I.eval(st, item.context_expr)
        if not isinstance(fh, FileHandle):
            return NotImplemented
        if item.optional_vars is not None:
            I.assign(st, item.optional_vars, fh)
        return I.exec_block(st, s.body)

    def get_attr(self, I, st, base, attr, node):
        if isinstance(base, FileHandle):
            return BoundMethod(base, attr)
        return NotImplemented

    def call_method(self, I, st, recv, name, args, kwargs, node):
        if isinstance(recv, FileHandle):
            I.ctx.assume_lib(self.assumed[0])
            if name == "readlines":
                l = LINES_OF(recv.path)
                st.assume(NLINES(l) >= 0)
                return l
            if name == "writelines":
                st.effects.append(("writelines", recv.path, args[0], getattr(node, "lineno", None)))
                return None
        if isinstance(recv, z3.ExprRef) and recv.sort() == StrSort and name == "strip" and not args:
            return str_strip(recv)
        return NotImplemented


def h_open(I, st, args, kwargs, node):
    path = to_z3(norm_str(args[0]))
    mode = norm_str(args[1]) if len(args) > 1 else norm_str(kwargs.get("mode", "r"))
    st.effects.append(("open", path, mode, getattr(node, "lineno", None)))
    return FileHandle(path, mode)


def h_exists(I, st, args, kwargs, node):
    return EXISTS(to_z3(norm_str(args[0])))


class FindStartIndex(Contract):
    """find_start_index(lines): (index of the last line containing 'fcharset') + 2, or 0 when there is none."""
    target = "assemble.py::assemble_rtf.find_start_index"
    serves = ["C17"]
    models = [LinesModel(), StrModel()]

    def setup(self, c):
        l = z3.Const("L", LinesSort)
        c.bind("lines", l)
        c.requires("nlines", NLINES(l) >= 0)
        c.v["l"] = l

    def setup_loops(self, c):
        l = c.v["l"]

        def inv(v):
            k = z3.Int("k")
            return {"found_iff_seen": to_z3(v.found) == Exists([k], And(0 <= k, k < v.i, FC(LINE(l, k)))),
                    "last_idx_is_the_last_seen": Implies(to_z3(v.found), And(0 <= v.last_idx, v.last_idx < v.i, FC(LINE(l, v.last_idx)),
                                                                            ForAll([k], Implies(And(v.last_idx < k, k < v.i), Not(FC(LINE(l, k))))))),
                    "default": Implies(Not(to_z3(v.found)), v.last_idx == 0)}
        self.loops = {0: LoopSpec(inv=inv)}

    def ensures(self, c, out):
        l = c.v["l"]
        n = NLINES(l)
        k, m = z3.Ints("k m")
        r = to_z3(out.value)
        anyfc = Exists([k], And(0 <= k, k < n, FC(LINE(l, k))))
        return {"zero_without_font_table": Implies(Not(anyfc), r == 0),
                "two_past_the_last_fcharset_line": Implies(anyfc, Exists([m], And(0 <= m, m < n, FC(LINE(l, m)), r == m + 2,
                                                                                  ForAll([k], Implies(And(m < k, k < n), Not(FC(LINE(l, k)))))))) }


class AssembleRtf(Contract):
    """assemble_rtf: existence check before any read or write; [] writes nothing; output = first file minus its lone closing-brace line,
    then for every later file `\\page` + its lines after the font table (minus the closing line except for the last file)."""
    target = "assemble.py::assemble_rtf"
    serves = ["C17"]
    models = [LinesModel(), StrModel(), ListFunModel()]
    handlers = {"open": h_open, "os.path.exists": h_exists}
    variants = ["general", "single"]
    raises = {"FileNotFoundError": lambda c, out: AssembleRtf._raise_clauses(c, out)}

    @staticmethod
    def _raise_clauses(c, out):
        files = c.v["files"]
        k = z3.Int("k")
        eff = out.state.effects
        return {"only_when_an_input_is_missing": Exists([k], And(0 <= k, k < files.length, Not(EXISTS(files.get(k))))),
                "nothing_read_or_written_before": z3.BoolVal(not any(e[0] in ("open", "writelines") for e in eff))}

    def setup(self, c):
        if c.variant == "single":
            f0 = c.fresh("file0", T.Str)
            files = c.alloc(ListObj(items=[f0], fresh=False))
            c.bind("input_files", files)
            fo = c.obj(files)
            from pyvc.seqs import as_symlist
            n, g = as_symlist(c.st, fo)
            c.v["files"] = type("F", (), {"length": n, "get": staticmethod(g)})
        else:
            files = c.param("input_files", T.List(T.Str))
            c.v["files"] = c.obj(files)
        c.param("output_file", T.Str)
        fl = c.v["files"]
        k = z3.Int("k")
        # inputs are documents written by rtflite (C01): non-empty files
        c.requires("inputs_nonempty_files", ForAll([k], Implies(And(0 <= k, k < fl.length), NLINES(LINES_OF(fl.get(k))) >= 1)))

    @property
    def summaries(self):
        def fsi(I, st, args, kwargs, node):
            l = args[0]
            for ax in spec_fc_axioms(l):
                st.assume(ax)
            return start_index(l)
        return {"assemble_rtf.find_start_index": fsi}

    # ---- specification of the output -------------------------------------------------------------------------------------
    def spec(self, c):
        fl = c.v["files"]
        K = fl.length
        L = lambda j: LINES_OF(fl.get(j))
        s = lambda j: If(j > 0, If(start_index(L(j)) > NLINES(L(j)), NLINES(L(j)), start_index(L(j))), 0)
        e = lambda j: If(And(j < K - 1, str_strip(LINE(L(j), NLINES(L(j)) - 1)) == lit("}")), NLINES(L(j)) - 1, NLINES(L(j)))
        seg = lambda j: If(e(j) - s(j) < 0, 0, e(j) - s(j))
        if "SEG" not in c.v:
            # name the per-input segment start / length by uninterpreted functions with their definitions as axioms, so the
            # quantified invariants stay small
            S_, G_ = z3.Function("seg_start", z3.IntSort(), z3.IntSort()), z3.Function("seg_len", z3.IntSort(), z3.IntSort())
            j = z3.Int("dj")
            c.requires("def_segment_start_and_length", And(ForAll([j], S_(j) == s(j), patterns=[S_(j)]), ForAll([j], G_(j) == seg(j), patterns=[G_(j)]),
                                                           ForAll([j], G_(j) >= 0, patterns=[G_(j)])))
            c.v["SEG"] = (S_, G_)
        S_, G_ = c.v["SEG"]
        return L, (lambda j: S_(j)), e, (lambda j: G_(j))

    def setup_loops(self, c):
        fl = c.v["files"]
        K = fl.length
        L, s, e, seg = self.spec(c)
        OFF = z3.Function("offset_of_input", z3.IntSort(), z3.IntSort())
        j = z3.Int("oj")
        c.requires("ghost_offsets", And(OFF(0) == 0, ForAll([j], Implies(And(0 <= j, j < K), OFF(j + 1) == OFF(j) + seg(j) + If(j < K - 1, 1, 0)),
                                                                patterns=[OFF(j)])))
        c.v["OFF"] = OFF
        a, b = z3.Ints("oa ob")
        # lemma `offsets_monotone` (LemmaUnit assemble.offsets: induction on b)
        c.requires("lemma_offsets_monotone", ForAll([a, b], Implies(And(0 <= a, a <= b, b <= K), OFF(a) <= OFF(b)),
                                                      patterns=[z3.MultiPattern(OFF(a), OFF(b))]))

        def inv_read(v):
            rc = v.obj(v.rtf_contents)
            n, g = safe_view(v.state, rc, z3.Const("nolines", LinesSort))
            k = z3.Int("k")
            opens = [ef for ef in v.state.effects if ef[0] == "open"]
            return {"one_entry_per_input_so_far": n == v.i,
                    "entry_k_is_the_lines_of_input_k": ForAll([k], Implies(And(0 <= k, k < v.i), g(k) == LINES_OF(fl.get(k)))),
                    "only_reads_so_far": z3.BoolVal(all(norm_str(ef[2]) == "r" for ef in opens))}

        def inv_main(v):
            parts = v.obj(v.processed_parts)
            n, g = safe_view(v.state, parts, lit(""))
            jj, t = z3.Ints("j t")
            return {"range": And(0 <= v.i, v.i <= K),
                    "length_is_offset": n == OFF(v.i),
                    "earlier_segments_in_argument_order": ForAll([jj, t], Implies(And(0 <= jj, jj < v.i - 1, 0 <= t, t < seg(jj)),
                                                                                  to_z3(g(OFF(jj) + t)) == LINE(L(jj), s(jj) + t))),
                    "latest_segment": Implies(v.i >= 1, ForAll([t], Implies(And(0 <= t, t < seg(v.i - 1)),
                                                                            to_z3(g(OFF(v.i - 1) + t)) == LINE(L(v.i - 1), s(v.i - 1) + t)))),
                    "page_break_between_inputs": ForAll([jj], Implies(And(0 <= jj, jj < v.i, jj < K - 1), to_z3(g(OFF(jj) + seg(jj))) == PAGE))}
        if c.variant == "single":
            self.loops = {}
        else:
            self.loops = {1: LoopSpec(inv=inv_read, havoc={"rtf_contents": T.List(T.T("lines"))}),
                          3: LoopSpec(inv=inv_main, havoc={"processed_parts": T.List(T.Str)})}

    def ensures(self, c, out):
        fl = c.v["files"]
        K = fl.length
        eff = out.state.effects
        writes = [ef for ef in eff if ef[0] == "writelines"]
        opens_w = [ef for ef in eff if ef[0] == "open" and norm_str(ef[2]) == "w"]
        if not writes:
            return {"nothing_written_only_for_empty_input": K == 0, "no_file_opened": z3.BoolVal(not any(ef[0] == "open" for ef in eff))}
        L, s, e, seg = self.spec(c)
        OFF = c.v["OFF"]
        k = z3.Int("k")
        cl = {"all_inputs_exist": ForAll([k], Implies(And(0 <= k, k < K), EXISTS(fl.get(k)))),
              "single_write_to_the_output_path": z3.BoolVal(len(writes) == 1 and len(opens_w) == 1 and opens_w[0][1].eq(c.v["output_file"]) and writes[0][1].eq(c.v["output_file"]))}
        # "the existence check precedes every open" is the exceptional postcondition `nothing_read_or_written_before` (FileNotFoundError path)
        n, g = seq_view(out.state, writes[0][2])
        jj, t = z3.Ints("j t")
        if c.variant == "single":
            cl["single_input_reproduced_unchanged"] = And(n == NLINES(L(IntVal(0))), ForAll([t], Implies(And(0 <= t, t < n), to_z3(g(t)) == LINE(L(IntVal(0)), t))))
            return cl
        cl["total_length"] = n == OFF(K)
        cl["segments_in_argument_order"] = ForAll([jj, t], Implies(And(0 <= jj, jj < K, 0 <= t, t < seg(jj)), to_z3(g(OFF(jj) + t)) == LINE(L(jj), s(jj) + t)))
        cl["each_later_input_starts_on_a_new_page"] = ForAll([jj], Implies(And(0 <= jj, jj < K - 1), to_z3(g(OFF(jj) + seg(jj))) == PAGE))
        return cl


def offsets_lemma(index):
    OFF = z3.Function("OFF", z3.IntSort(), z3.IntSort())
    seg = z3.Function("seg", z3.IntSort(), z3.IntSort())
    K, a, b, j = z3.Ints("K a b j")
    defs = [OFF(0) == 0, ForAll([j], Implies(And(0 <= j, j < K), OFF(j + 1) == OFF(j) + seg(j) + If(j < K - 1, 1, 0))), ForAll([j], seg(j) >= 0)]
    return [("base", defs + [0 <= a, a <= K], OFF(a) <= OFF(a)),
            ("step", defs + [0 <= a, a <= b, b < K, OFF(a) <= OFF(b)], OFF(a) <= OFF(b + 1))]


UNITS = [FindStartIndex(), AssembleRtf()]
LEMMAS = [LemmaUnit("offsets_monotone", offsets_lemma)]


# ---- bounded stand-in: the layout assumption about files written by rtflite, and the assembled result read back ----------------
def bounded_assemble(index, tier, seed):
    """BOUNDED (B3): real documents written by write_rtf, assembled in several orders with the real assemble_rtf; the result is read
    back with a small brace/page reader: one balanced top-level group, nothing after it, pages = concatenation of the inputs' pages."""
    import os, tempfile, shutil, itertools, random, re
    import polars as pl
    rtf = index.real_module("rtflite")
    asm = index.real_module("rtflite.assemble")
    rng = random.Random(seed)
    tmp = tempfile.mkdtemp(prefix="verif_c17_")
    fails, cases = [], 0

    def balanced(s):
        depth, i = 0, 0
        closed_at = None
        while i < len(s):
            ch = s[i]
            if ch == "\\" and i + 1 < len(s) and s[i + 1] in "{}\\":
                i += 2
                continue
            if ch == "{":
                depth += 1
            elif ch == "}":
                depth -= 1
                if depth < 0:
                    return False
                if depth == 0 and closed_at is None:
                    closed_at = i
            i += 1
        return depth == 0 and closed_at is not None and s[closed_at + 1:].strip() == ""

    def pages(s):
        body = s
        return [re.sub(r"\s+", " ", p).strip() for p in re.split(r"\\page(?![a-z])", body)]

    def cell_texts(s):
        return re.findall(r"\{\\f\d+[^{}]*? ([^{}]*)\}\\cell", s)
    import contextlib, io
    _quiet = contextlib.redirect_stdout(io.StringIO())
    _quiet.__enter__()
    try:
        docs = {
            "one_page": rtf.RTFDocument(df=pl.DataFrame({"a": ["r1", "r2"]}), rtf_title=rtf.RTFTitle(text="T1")),
            "three_pages": rtf.RTFDocument(df=pl.DataFrame({"a": [f"x{i}" for i in range(7)]}), rtf_page=rtf.RTFPage(nrow=4)),
            "landscape": rtf.RTFDocument(df=pl.DataFrame({"a": ["l1"], "b": ["l2"]}), rtf_page=rtf.RTFPage(orientation="landscape"),
                                         rtf_page_header=rtf.RTFPageHeader(), rtf_page_footer=rtf.RTFPageFooter(text="foot")),
            "coloured": rtf.RTFDocument(df=pl.DataFrame({"a": ["c1", "c2"]}), rtf_body=rtf.RTFBody(text_color="red"), rtf_footnote=rtf.RTFFootnote(text="fn")),
        }
        from PIL import Image
        figs = []
        for k in range(2):
            fp = os.path.join(tmp, f"fig{k}.png")
            Image.new("RGB", (4 + k, 3), (200, 30 * k, 10)).save(fp)
            figs.append(fp)
        docs["figure_two_pages"] = rtf.RTFDocument(rtf_figure=rtf.RTFFigure(figures=figs, fig_width=2.0, fig_height=1.5), rtf_title=rtf.RTFTitle(text="FIGT"))
        docs["multi_section"] = rtf.RTFDocument(df=[pl.DataFrame({"a": ["m1", "m2"]}), pl.DataFrame({"b": ["m3"], "c": ["m4"]})],
                                                rtf_body=[rtf.RTFBody(), rtf.RTFBody()])
        paths = {}
        for k, d in docs.items():
            p = os.path.join(tmp, k + ".rtf")
            d.write_rtf(p)
            paths[k] = p
        short = [list(p) for n in (1, 2) for p in itertools.permutations(list(docs), n)]          # every document first, last and alone
        triples = [list(p) for p in itertools.permutations(list(docs), 3)]
        rng.shuffle(triples)
        orders = short + triples[: (12 if tier == "quick" else len(triples))]
        for order in orders:
            cases += 1
            out = os.path.join(tmp, "out.rtf")
            if os.path.exists(out):
                os.unlink(out)
            asm.assemble_rtf([paths[k] for k in order], out)
            s = open(out, encoding="utf-8").read()
            src = [open(paths[k], encoding="utf-8").read() for k in order]
            want_cells = [t for x in src for t in cell_texts(x)]
            problem = None
            if not s.startswith("{\\rtf1"):
                problem = "does not start with the RTF signature"
            elif not balanced(s):
                problem = "not one balanced top-level group"
            elif cell_texts(s) != want_cells:
                problem = "cell texts are not the concatenation of the inputs' cell texts in order"
            elif len(pages(s)) != sum(len(pages(x)) for x in src):
                problem = "page count is not the sum of the inputs' page counts"
            elif len(order) == 1 and s != src[0]:
                problem = "single input not reproduced unchanged"
            elif s.count("\\paperw") != sum(x.count("\\paperw") for x in src):
                problem = "an input lost its own paper geometry"
            if problem:
                fails.append({"name": "assembled_file_" + problem.replace(" ", "_")[:40], "input": {"order": order}, "observed": problem})
                break
        # empty list writes nothing; missing input raises before writing
        out = os.path.join(tmp, "none.rtf")
        asm.assemble_rtf([], out)
        if os.path.exists(out):
            fails.append({"name": "empty_list_wrote_a_file", "input": {"order": []}})
        try:
            asm.assemble_rtf([paths["one_page"], os.path.join(tmp, "missing.rtf")], out)
            fails.append({"name": "missing_input_accepted", "input": {}})
        except FileNotFoundError:
            if os.path.exists(out):
                fails.append({"name": "missing_input_wrote_output", "input": {}})
    finally:
        _quiet.__exit__(None, None, None)
        shutil.rmtree(tmp, ignore_errors=True)
    return {"bound": "6 real documents (1 page, 3 pages, landscape with header/footer, coloured with footnote, 2-figure document, 2-section document): every single "
                     "input, every ordered pair, and orderings of 3 inputs (12 sampled in quick, all in thorough)",
            "cases": cases, "failures": fails}


from pyvc.units import BoundedUnit
BOUNDED = [BoundedUnit("assembled_file_read_back", bounded_assemble)]
