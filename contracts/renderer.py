"""Contracts for encoding/renderer.py (DESIGN A7, C02/C05/C09; chunk order C06)."""
import z3
from z3 import And, Or, Not, Implies, ForAll, If, IntVal

from pyvc.contract import Contract
from pyvc.interp import LoopSpec
from pyvc import types as T
from pyvc.state import lazy_alloc, OutOfSubset
from pyvc.values import (RecObj, ListObj, DictObj, Ref, Opt, Rope, Tok, StrSort, ValSort, lit, norm_str, to_z3, val_null, val_str,
                         fresh_name)
from pyvc.libmodels.polars_model import PolarsModel, DfObj, fresh_df
from pyvc.libmodels.strings import StrModel
from pyvc.libmodels.listfuns import ListFunModel
from pyvc.seqs import safe_view, seq_view

ROWTOK = z3.Function("rtf_data_row", z3.IntSort(), z3.IntSort(), StrSort)
HEADTOK = z3.Function("rtf_heading_row", z3.IntSort(), ValSort, StrSort)        # (level, value)
DIV = lit("-----")


def active(v):
    """A page_by value produces a heading: not null and not the divider."""
    return And(Not(val_null(v)), val_str(v) != DIV)


class RenderBody(Contract):
    """PageRenderer._render_body: every row of the page is emitted exactly once, in order, with row_offset = its page-relative
    index (C02, C09); before each run of rows the headings of all active page_by levels show that run's values, outer before
    inner, and a heading is always followed by a heading or a data row of the same page (C05)."""
    target = "encoding/renderer.py::PageRenderer._render_body"
    serves = ["C02", "C05", "C09"]
    models = [PolarsModel(), StrModel(), ListFunModel()]
    variants = ["levels1", "levels2", "levels3", "no_boundaries"]
    max_paths = 6000

    def setup(self, c):
        M = {"levels1": 1, "levels2": 2, "levels3": 3, "no_boundaries": 1}[c.variant]
        cols = [f"pb{l}" for l in range(M)]
        ren_cls = c.cls("rtflite.encoding.renderer", "PageRenderer")
        es_cls = c.cls("rtflite.services.encoding_service", "RTFEncodingService")
        body_cls = c.cls("rtflite.input", "RTFBody")
        es = c.alloc(RecObj("RTFEncodingService", {}, pyclass=es_cls, fresh=False))
        c.bind("self", c.alloc(RecObj("PageRenderer", {"encoding_service": es}, pyclass=ren_cls, fresh=False)))
        page_df = fresh_df(c.st, "page_df")
        d = c.obj(page_df)
        n = d.n
        # the page's group key per level and row (values of the page_by columns of the ORIGINAL frame for this page's rows)
        KEY = [z3.Function(fresh_name(f"key{l}"), z3.IntSort(), ValSort) for l in range(M)]
        # group boundaries (A8's ensures): strictly increasing page-relative rows in [1, n-1]; keys constant between boundaries,
        # changed at a boundary; boundary t carries the non-divider values of its row
        nb = z3.Int(fresh_name("nb"))
        PR = z3.Function(fresh_name("page_relative_row"), z3.IntSort(), z3.IntSort())
        t, r = z3.Ints("t r")
        if c.variant == "no_boundaries":
            c.requires("no_boundaries", nb == 0)
        c.requires("page_nonempty", n >= 1)
        c.requires("boundaries_A8", And(nb >= 0,
                                        ForAll([t], Implies(And(0 <= t, t < nb), And(1 <= PR(t), PR(t) <= n - 1))),
                                        ForAll([t], Implies(And(0 <= t, t + 1 < nb), PR(t) < PR(t + 1)))))
        # keys are constant on each run: rows before the first boundary share row 0's key; rows in [PR(t), next) share PR(t)'s key
        for l in range(M):
            c.requires(f"run_keys_level{l}", And(
                ForAll([r], Implies(And(0 <= r, r < If(nb > 0, PR(0), n)), KEY[l](r) == KEY[l](0))),
                ForAll([t, r], Implies(And(0 <= t, t < nb, PR(t) <= r, r < If(t + 1 < nb, PR(t + 1), n)), KEY[l](r) == KEY[l](PR(t))))))
        # domain hygiene: the display text of a non-null key is not the literal 'None' (str(None) is what an absent entry compares as)
        for l in range(M):
            c.requires(f"key_text_not_None_level{l}", ForAll([r], Implies(Not(val_null(KEY[l](r))), val_str(KEY[l](r)) != lit("None"))))
        memo = {}

        def boundary(k):
            k = k if z3.is_expr(k) else IntVal(k)
            key = str(z3.simplify(k))
            if key not in memo:
                gv = DictObj(items={cols[l]: Opt(val_null(KEY[l](PR(k))), KEY[l](PR(k))) for l in range(M)},
                             present={cols[l]: val_str(KEY[l](PR(k))) != DIV for l in range(M)}, fresh=False)
                gvr = lazy_alloc(gv)
                memo[key] = lazy_alloc(DictObj(items={"absolute_row": z3.Int(fresh_name("abs")), "page_relative_row": PR(k), "group_values": gvr}, fresh=False))
            return memo[key]
        bounds = c.alloc(ListObj(length=nb, get=boundary, fresh=False))
        top_gv = c.alloc(DictObj(items={cols[l]: Opt(val_null(KEY[l](0)), KEY[l](0)) for l in range(M)},
                                 present={cols[l]: val_str(KEY[l](0)) != DIV for l in range(M)}, fresh=False))
        info = c.alloc(DictObj(items={"group_by_columns": None, "group_values": top_gv, "header_text": lit("")}, fresh=False))
        attrs = c.alloc(RecObj("TableAttributes", {}, pyclass=c.cls("rtflite.attributes", "TableAttributes"), fresh=False))
        cw = c.fresh("col_widths", T.List(T.Real))
        row_start = c.fresh("row_start", T.Int)
        c.requires("row_start_nonneg", row_start >= 0)
        # every field of the real PageContext is present (a body that starts reading another field must be judged by the clauses
        # below, not by a missing attribute of the model)
        page = c.alloc(RecObj("PageContext", {"final_body_attrs": attrs, "table_attrs": None, "data": page_df, "col_widths": cw,
                                              "group_boundaries": bounds if c.variant != "no_boundaries" else None,
                                              "pageby_header_info": info, "row_start": row_start,
                                              "page_number": c.fresh("page_number", T.Int), "total_pages": c.fresh("total_pages", T.Int),
                                              "is_first_page": c.fresh("is_first_page", T.Bool), "is_last_page": c.fresh("is_last_page", T.Bool),
                                              "needs_header": c.fresh("needs_header", T.Bool)}, fresh=False))
        newp = c.fresh("new_page", T.Bool)
        pbr = c.fresh("pageby_row", T.Str)
        body = c.alloc(RecObj("RTFBody", {"new_page": newp, "pageby_row": pbr,
                                          "page_by": c.alloc(ListObj(items=list(cols), fresh=False))}, pyclass=body_cls, fresh=False))
        doc_df = fresh_df(c.st, "doc_df")
        col_width = c.fresh("col_width", T.Real)
        c.requires("table_width_positive", col_width > 0)            # RTFPage validators + defaults (C19 carriers)
        doc = c.alloc(RecObj("RTFDocument", {"rtf_body": body, "df": doc_df,
                                             "rtf_page": c.alloc(RecObj("RTFPage", {"col_width": col_width}, fresh=False))}, fresh=False))
        c.bind("document", doc)
        c.bind("page", page)
        # the page top already shows the headings of row 0 (render step 7): ghost heading state at entry
        c.ghost("covered", IntVal(0))
        c.ghost("cnt", IntVal(0))
        for l in range(M):
            c.ghost(f"Hset{l}", active(KEY[l](0)))
            c.ghost(f"H{l}", KEY[l](0))
            c.ghost(f"pos{l}", IntVal(-(M - l)))          # top-of-page headings were emitted outer to inner
        c.ghost("after_heading", z3.BoolVal(False))
        c.v.update(M=M, cols=cols, KEY=KEY, PR=PR, nb=nb, n=n, d=d, attrs=attrs, spanning=Or(Not(newp), pbr != lit("column")), cw=cw, col_width=col_width)

    # ---- summaries: the two emitters; they maintain the ghost emission log and carry the obligations --------------------
    @property
    def summaries(self):
        v = self._v

        def encode_rows(I, st, args, kwargs, node):
            site = getattr(node, "lineno", None)
            attrs, seg, cw = args[0], args[1], args[2]
            off = kwargs.get("row_offset", args[3] if len(args) > 3 else 0)
            sd = st.obj(seg)
            g = st.ghost
            if sd.uid == v["d"].uid:
                lo, hi = IntVal(0), v["n"]
            else:
                if sd.origin is None or st.obj(sd.origin[0]).uid != v["d"].uid:
                    raise OutOfSubset("_encode on a frame that is not a slice of the page frame")
                lo = sd.origin[1]
                hi = z3.simplify(lo + sd.n)
            I.oblige(st, f"C02.segment_continues_where_previous_ended@L{site}", lo == g["covered"], "post", site)
            I.oblige(st, f"C02.segment_nonempty@L{site}", hi > lo, "post", site)
            I.oblige(st, f"C09.row_offset_is_page_relative_index_of_first_row@L{site}", to_z3(off) == lo, "post", site)
            I.oblige(st, f"C09.uses_finalised_page_attrs@L{site}", z3.BoolVal(attrs == v["attrs"]), "post", site)
            I.oblige(st, f"C08.uses_page_col_widths@L{site}", z3.BoolVal(cw == v["cw"]), "post", site)
            # C05: every active level shows this run's value, outer before inner (only when headings are rendered as rows)
            for l in range(v["M"]):
                key = v["KEY"][l](lo)
                I.oblige(st, f"C05.level{l}_heading_shows_this_runs_value@L{site}",
                         Implies(And(v["spanning"], active(key)), And(g[f"Hset{l}"], val_str(g[f"H{l}"]) == val_str(key))), "post", site)
                for l2 in range(l + 1, v["M"]):
                    key2 = v["KEY"][l2](lo)
                    I.oblige(st, f"C05.level{l}_heading_before_level{l2}@L{site}",
                             Implies(And(v["spanning"], active(key), active(key2)), g[f"pos{l}"] < g[f"pos{l2}"]), "post", site)
            g["covered"] = hi
            g["after_heading"] = z3.BoolVal(False)
            uid = IntVal(v["d"].uid)
            return st.alloc(ListObj(length=z3.simplify(hi - lo), get=lambda k, lo=lo: ROWTOK(uid, z3.simplify(lo + to_z3(k))), fresh=True))

        def spanning_row(I, st, args, kwargs, node):
            site = getattr(node, "lineno", None)
            text = norm_str(kwargs.get("text"))
            g = st.ghost
            row = g["covered"]                       # the heading precedes the run that starts at `covered`
            I.oblige(st, f"C05.heading_only_when_shown_as_rows@L{site}", v["spanning"], "post", site)
            # which level is this?  the text must be str(value) of some level of the NEXT run's key
            lvl = None
            for l in range(v["M"]):
                if z3.is_expr(text) and text.eq(val_str(v["KEY"][l](st.ghost["__next_run_row__"]))):
                    lvl = l
            I.oblige(st, f"C05.heading_text_is_a_level_value_of_next_run@L{site}", z3.BoolVal(lvl is not None), "post", site)
            if lvl is not None:
                key = v["KEY"][lvl](st.ghost["__next_run_row__"])
                I.oblige(st, f"C05.no_heading_for_divider_or_null@L{site}", active(key), "post", site)
                # C03: the row budget (unit RowMetadata, rendered_heading_rows) counts a heading row for level l at a group start only when
                # the value of l or of an outer level changes there; a heading rendered for an unchanged level under unchanged outer levels
                # is a row nobody reserved
                rr = st.ghost["__next_run_row__"]
                same_val = lambda a, b: Or(And(val_null(a), val_null(b)), And(Not(val_null(a)), Not(val_null(b)), val_str(a) == val_str(b)))
                I.oblige(st, f"C03.heading_row_only_for_a_level_at_or_below_a_level_whose_value_changes_at_this_group_start@L{site}",
                         Or(*[Not(same_val(v["KEY"][l2](rr), v["KEY"][l2](rr - 1))) for l2 in range(lvl + 1)]), "post", site)
                g[f"Hset{lvl}"] = z3.BoolVal(True)
                g[f"H{lvl}"] = key
                g[f"pos{lvl}"] = g["cnt"]
                g["cnt"] = g["cnt"] + 1
                # a re-rendered level makes every inner heading stale until it is re-rendered too
                for l2 in range(lvl + 1, v["M"]):
                    g[f"stale{l2}"] = z3.BoolVal(True)
                g[f"stale{lvl}"] = z3.BoolVal(False)
            g["after_heading"] = z3.BoolVal(True)
            pw = kwargs.get("page_width", args[1] if len(args) > 1 else None)
            I.oblige(st, f"C08.spanning_row_width_is_col_width@L{site}", z3.BoolVal(False) if pw is None else to_z3(pw) == v["col_width"], "post", site)
            return st.alloc(ListObj(items=[HEADTOK(IntVal(lvl if lvl is not None else -1), v["KEY"][lvl or 0](st.ghost["__next_run_row__"]))], fresh=True))
        return {"TableAttributes._encode": encode_rows, "RTFEncodingService.encode_spanning_row": spanning_row}

    def setup_loops(self, c):
        self._v = v = c.v
        M, KEY, PR, nb, n = v["M"], v["KEY"], v["PR"], v["nb"], v["n"]
        gnames = ["covered", "cnt", "after_heading"] + [f"{p}{l}" for l in range(M) for p in ("Hset", "H", "pos")]

        def inv(vv):
            g = vv.state.ghost
            i = vv.i
            prev = vv.prev_row
            cl = {"range": And(0 <= i, i <= nb),
                  "prev_row_is_last_boundary": prev == If(i == 0, 0, PR(i - 1)),
                  "rows_before_prev_row_emitted_once_in_order": g["covered"] == prev,
                  "tail_never_empty": prev < n,
                  "counter": g["cnt"] >= 0}
            for l in range(M):
                key = KEY[l](prev)
                lv = vv.last_values
                lo = vv.state.obj(lv)
                cur = lo.items[v["cols"][l]]
                pres = lo.present.get(v["cols"][l], True)
                # heading state: what is displayed for level l is the current run's value whenever that level is active
                cl[f"level{l}_displayed_heading_is_current_key"] = Implies(active(key), And(g[f"Hset{l}"], val_str(g[f"H{l}"]) == val_str(key)))
                cl[f"level{l}_position_bounds"] = g[f"pos{l}"] < g["cnt"]
                if isinstance(cur, Opt):
                    cl[f"level{l}_active_level_is_remembered"] = Implies(active(key), And(to_z3(pres), Not(cur.isnone)))
                # program state tracks the display: last_values[col] is the displayed value whenever something is displayed
                cl[f"level{l}_last_values_tracks_display"] = Implies(And(to_z3(pres), Not(cur.isnone)),
                                                                       And(g[f"Hset{l}"], val_str(cur.payload) == val_str(g[f"H{l}"]))) if isinstance(cur, Opt) else z3.BoolVal(True)
                for l2 in range(l + 1, M):
                    cur2 = lo.items[v["cols"][l2]]
                    pres2 = lo.present.get(v["cols"][l2], True)
                    ok1 = And(to_z3(pres), Not(cur.isnone)) if isinstance(cur, Opt) else z3.BoolVal(cur is not None)
                    ok2 = And(to_z3(pres2), Not(cur2.isnone)) if isinstance(cur2, Opt) else z3.BoolVal(cur2 is not None)
                    # whenever the program still trusts both remembered headings, the outer one is displayed above the inner one
                    cl[f"level{l}_before_level{l2}"] = Implies(And(ok1, ok2), g[f"pos{l}"] < g[f"pos{l2}"])
            return cl

        def ghost_iter(I, st, i):
            st.ghost["__next_run_row__"] = PR(i)

        def havoc_last_values(I, st, name, ref):
            o = st.obj(ref)
            for l in range(M):
                col = v["cols"][l]
                val = z3.Const(fresh_name(f"last_{col}"), ValSort)
                o.items[col] = Opt(z3.Bool(fresh_name(f"last_{col}_none")), val)
                o.present[col] = z3.Bool(fresh_name(f"last_{col}_present"))
        self.loops = {0: LoopSpec(inv=inv, ghost_iter=ghost_iter, ghost_vars=gnames,
                                  havoc={"elements": T.List(T.Str), "last_values": havoc_last_values})} if c.variant != "no_boundaries" else {}

    def ensures(self, c, out):
        g = out.state.ghost
        return {"every_row_of_the_page_emitted_exactly_once_in_order": g["covered"] == c.v["n"],
                "no_heading_stranded_at_page_bottom": Not(g["after_heading"])}


UNITS = [RenderBody()]
