"""encoding/unified_encoder.py::UnifiedRTFEncoder._encode_body_section: the per-section pipeline glue (C02 page order, C03/C04 the
reservation reaches the strategy, C04/C05 strategy selection, C08 the page column boundaries, C09 the attribute object)."""
import z3
from z3 import And, Or, Not, Implies, ForAll, If, IntVal

from pyvc.contract import Contract
from pyvc.interp import LoopSpec
from pyvc import types as T
from pyvc.values import ListObj, RecObj, Ref, Opt, lit, to_z3, norm_str, StrSort, fresh_name
from pyvc.state import OutOfSubset, lazy_alloc
from pyvc.seqs import as_symlist, safe_view, seq_view
from pyvc.libmodels.polars_model import PolarsModel, DfObj, fresh_df
from pyvc.libmodels.strings import StrModel
from pyvc.libmodels.listfuns import ListFunModel

PAGECHUNK = z3.Function("rtf_of_page", z3.IntSort(), StrSort)


class EncodeBodySection(Contract):
    """_encode_body_section(document, df, rtf_body) for a single body: the strategy is chosen by subline_by, then page_by, else
    default; the pagination context carries the ORIGINAL frame, the body, the page, the boundaries
    Utils._col_widths(displayed relative widths | equal shares, table width), the column-reduced attributes and the per-page row
    reservation; pages are post-processed on the column-reduced frame, then each page is processed and rendered in page order and the
    result is the concatenation of the pages' chunks in that order (one marker per page in the contract's abstraction)."""
    target = "encoding/unified_encoder.py::UnifiedRTFEncoder._encode_body_section"
    serves = ["C02", "C03", "C04", "C05", "C08", "C09"]
    models = [PolarsModel(), StrModel(), ListFunModel()]
    variants = ["default", "page_by", "subline", "subline_and_page_by"]
    max_paths = 8000

    def setup(self, c):
        cls = c.cls("rtflite.encoding.unified_encoder", "UnifiedRTFEncoder")
        mk = lambda n, mod: c.alloc(RecObj(n, {}, pyclass=c.cls(mod, n), fresh=False))
        es = mk("RTFEncodingService", "rtflite.services.encoding_service")
        ds = mk("RTFDocumentService", "rtflite.services.document_service")
        fp = mk("PageFeatureProcessor", "rtflite.pagination.processor")
        rn = mk("PageRenderer", "rtflite.encoding.renderer")
        c.bind("self", c.alloc(RecObj("UnifiedRTFEncoder", {"encoding_service": es, "document_service": ds, "feature_processor": fp, "renderer": rn},
                                      pyclass=cls, fresh=False)))
        col_width = c.fresh("col_width", T.Real)
        c.requires("table_width_positive", col_width > 0)
        rpage = c.alloc(RecObj("RTFPage", {"col_width": col_width}, fresh=False))
        doc = c.alloc(RecObj("RTFDocument", {"rtf_page": rpage}, fresh=False))
        df = fresh_df(c.st, "df")
        sub = c.alloc(ListObj(items=["s0"], fresh=False)) if c.variant.startswith("subline") else None
        pb = c.alloc(ListObj(items=["p0"], fresh=False)) if c.variant in ("page_by", "subline_and_page_by") else None
        body = c.alloc(RecObj("RTFBody", {"subline_by": sub, "page_by": pb}, pyclass=c.cls("rtflite.input", "RTFBody"), fresh=False, origin="CALLER"))
        c.bind("document", doc)
        c.bind("df", df)
        c.bind("rtf_body", body)
        c.v.update(doc=doc, df=df, body=body, col_width=col_width, rpage=rpage, want={"default": "default", "page_by": "page_by", "subline": "subline",
                                                                                      "subline_and_page_by": "subline"}[c.variant])
        for g in ("strategy", "ctx", "cw", "proc_df", "orig_df", "proc_attrs", "pages", "post_done"):
            c.ghost(g, None)
        c.ghost("ADD", z3.Int(fresh_name("additional_rows")))

    @property
    def handlers(self):
        v = lambda: self._v

        def registry_get(I, st, args, kwargs, node):
            site = getattr(node, "lineno", None)
            name = norm_str(args[0])
            I.oblige(st, f"C04.strategy_is_subline_then_page_by_then_default@L{site}", z3.BoolVal(name == v()["want"]), "post", site)
            return ("strategy_class", name)

        def strategy_new(I, st, args, kwargs, node):
            cls = I.lookup(st, "strategy_cls")
            ref = st.alloc(RecObj("Strategy", {"name": cls[1] if isinstance(cls, tuple) else None}, fresh=True))
            st.ghost["strategy"] = ref
            return ref

        def new_pagination_ctx(I, st, cv, args, kwargs, node):
            vv = v()
            site = getattr(node, "lineno", None)
            g = st.ghost
            same = lambda a, b: isinstance(a, Ref) and isinstance(b, Ref) and a.oid == b.oid
            ob = lambda n, f: I.oblige(st, f"{n}@L{site}", f if z3.is_expr(f) else z3.BoolVal(bool(f)), "post", site)
            ob("C02.strategy_paginates_the_original_frame", same(kwargs.get("df"), g["orig_df"]))
            ob("C04.strategy_sees_the_callers_body", same(kwargs.get("rtf_body"), vv["body"]))
            ob("C03.strategy_sees_this_documents_page", same(kwargs.get("rtf_page"), vv["rpage"]))
            ob("C08.context_carries_the_computed_boundaries", same(kwargs.get("col_widths"), g["cw"]))
            ob("C09.context_carries_the_column_reduced_attributes", same(kwargs.get("table_attrs"), g["proc_attrs"]))
            ob("C03.reserved_rows_reach_the_strategy", to_z3(kwargs.get("additional_rows_per_page")) == g["ADD"] if kwargs.get("additional_rows_per_page") is not None else False)
            # C03 / C04: the row budget measures the displayed cells only (RowMetadata's REMOVED predicate); the context must name exactly the
            # original columns that are not displayed, by their positions in the ORIGINAL frame
            rci = kwargs.get("removed_column_indices")
            if isinstance(rci, Ref):
                od_ = st.obj(g["orig_df"])
                for nm, f in self._removed_spec(st, rci, od_.w).items():
                    ob("C03.context_lists_exactly_the_columns_removed_from_display." + nm, f)
            else:
                ob("C03.context_lists_exactly_the_columns_removed_from_display", False)
            ref = st.alloc(RecObj("PaginationContext", dict(kwargs), pyclass=cv.pyclass, fresh=True))
            g["ctx"] = ref
            return ref

        def new_page_ctx(I, st, cv, args, kwargs, node):
            # the empty-frame fallback page
            site = getattr(node, "lineno", None)
            g = st.ghost
            same = lambda a, b: isinstance(a, Ref) and isinstance(b, Ref) and a.oid == b.oid
            ob = lambda n, f: I.oblige(st, f"{n}@L{site}", f if z3.is_expr(f) else z3.BoolVal(bool(f)), "post", site)
            ob("C01.fallback_page_shows_the_column_reduced_frame", same(kwargs.get("data"), g["proc_df"]))
            ob("C08.fallback_page_carries_the_computed_boundaries", same(kwargs.get("col_widths"), g["cw"]))
            ob("C06.fallback_page_is_first_last_and_has_headers", kwargs.get("is_first_page") is True and kwargs.get("is_last_page") is True
               and kwargs.get("needs_header", True) is True and kwargs.get("page_number") == 1 and kwargs.get("total_pages") == 1)
            return st.alloc(RecObj("PageContext", dict(kwargs, _index=IntVal(0)), pyclass=cv.pyclass, fresh=True))
        def paginate(I, st, args, kwargs, node):
            same = lambda a, b: isinstance(a, Ref) and isinstance(b, Ref) and a.oid == b.oid
            site = getattr(node, "lineno", None)
            g = st.ghost
            I.oblige(st, f"C04.pagination_runs_on_the_context_built_here@L{site}", z3.BoolVal(same(args[0], g["ctx"]) and same(I.lookup(st, "strategy"), g["strategy"])), "post", site)
            P = z3.Int(fresh_name("n_pages"))
            st.assume(P >= 0)
            memo = {}

            def page(j):
                key = str(z3.simplify(to_z3(j)))
                if key not in memo:
                    memo[key] = lazy_alloc(RecObj("PageContext", {"_index": to_z3(j)}, fresh=False))
                return memo[key]
            pages = st.alloc(ListObj(length=P, get=page, fresh=True))
            g["pages"] = pages
            g["P"] = P
            return pages

        return {"StrategyRegistry.get": registry_get, "strategy_cls": strategy_new, "strategy.paginate": paginate, "new:PaginationContext": new_pagination_ctx,
                "new:PageContext": new_page_ctx}

    @property
    def summaries(self):
        v = lambda: self._v
        same = lambda a, b: isinstance(a, Ref) and isinstance(b, Ref) and a.oid == b.oid

        def prepare(I, st, args, kwargs, node):
            vv = v()
            site = getattr(node, "lineno", None)
            I.oblige(st, f"C02.section_frame_and_body_are_prepared@L{site}", z3.BoolVal(same(args[1], vv["df"]) and same(args[2], vv["body"])), "post", site)
            d = st.obj(vv["df"])
            orig = fresh_df(st, "original_df")
            proc = fresh_df(st, "processed_df")
            od, pd = st.obj(orig), st.obj(proc)
            # contract of prepare_dataframe_for_body_encoding (assumed here, see properties' assumptions): clone keeps everything; the
            # reduced frame keeps all rows and a subset of the columns; the reduced attributes carry one relative width per displayed column
            st.assume(od.n == d.n, od.w == d.w, pd.n == d.n, pd.w >= 0, pd.w <= d.w)
            # (unit PrepareFrame: the reduced frame holds the kept original columns, names unique) - with the same width every original column is displayed
            ji, jj = z3.Ints("ji jj")
            st.assume(Implies(pd.w == od.w, ForAll([ji], Implies(And(0 <= ji, ji < od.w), z3.Exists([jj], And(0 <= jj, jj < pd.w, pd.colname(jj) == od.colname(ji)))))))
            rel = st.alloc(ListObj(length=pd.w, get=lambda j: z3.Real(fresh_name("relw")), fresh=True))
            attrs = st.alloc(RecObj("RTFBody", {"col_rel_width": rel}, pyclass=st.obj(vv["body"]).pyclass, fresh=True))
            st.ghost.update(orig_df=orig, proc_df=proc, proc_attrs=attrs, rel=rel)
            return (proc, orig, attrs)

        def col_widths(I, st, args, kwargs, node):
            vv = v()
            site = getattr(node, "lineno", None)
            g = st.ghost
            rel, total = args[0], args[1]
            pd = st.obj(g["proc_df"])
            n, get = as_symlist(st, st.obj(rel))
            I.oblige(st, f"C08.boundaries_divide_the_table_width@L{site}", to_z3(total) == to_z3(vv["col_width"]), "post", site)
            I.oblige(st, f"C08.one_relative_width_per_displayed_column@L{site}", to_z3(n) == to_z3(pd.w), "post", site)
            k = z3.Int("k")
            ones = ForAll([k], Implies(And(0 <= k, k < to_z3(n)), to_z3(get(k)) == 1))
            # the user's (displayed) relative widths whenever there are any; equal shares only when the reduced attributes carry none
            given = to_z3(st.obj(g["rel"]).length) > 0 if g.get("rel") is not None else z3.BoolVal(False)
            I.oblige(st, f"C08.relative_widths_are_the_displayed_columns_widths_equal_shares_only_without_them@L{site}",
                     Or(And(given, z3.BoolVal(same(rel, g.get("rel")))), And(Not(given), ones)), "post", site)
            cw = st.alloc(ListObj(length=to_z3(n), get=lambda j: z3.Real(fresh_name("boundary")), fresh=True))
            g["cw"] = cw
            return cw

        def additional_rows(I, st, args, kwargs, node):
            site = getattr(node, "lineno", None)
            I.oblige(st, f"C03.reservation_computed_for_this_document@L{site}", z3.BoolVal(same(args[1], v()["doc"])), "post", site)
            return st.ghost["ADD"]

        def post(I, st, args, kwargs, node):
            site = getattr(node, "lineno", None)
            g = st.ghost
            I.oblige(st, f"C02.pages_are_recut_on_the_column_reduced_frame@L{site}",
                     z3.BoolVal(same(args[2], g["proc_df"]) and same(args[3], v()["body"]) and isinstance(args[1], Ref)), "post", site)
            g["post_done"] = True
            return None

        def process(I, st, args, kwargs, node):
            site = getattr(node, "lineno", None)
            I.oblige(st, f"C07.page_features_computed_for_this_document@L{site}", z3.BoolVal(same(args[1], v()["doc"])), "post", site)
            return args[2]            # PageFeatureProcessor.process returns the page it was given (unit PaginationBorders sets final_body_attrs)

        def render(I, st, args, kwargs, node):
            site = getattr(node, "lineno", None)
            I.oblige(st, f"C06.page_rendered_for_this_document@L{site}", z3.BoolVal(same(args[1], v()["doc"])), "post", site)
            idx = st.obj(args[2]).fields.get("_index")
            I.oblige(st, f"C02.rendered_page_is_the_page_of_this_iteration@L{site}", z3.BoolVal(idx is not None), "post", site)
            return st.alloc(ListObj(items=[PAGECHUNK(to_z3(idx) if idx is not None else IntVal(-1))], fresh=True))
        return {"RTFEncodingService.prepare_dataframe_for_body_encoding": prepare, "Utils._col_widths": col_widths,
                "RTFDocumentService.calculate_additional_rows_per_page": additional_rows,
                "UnifiedRTFEncoder._apply_data_post_processing": post, "PageFeatureProcessor.process": process, "PageRenderer.render": render}

    def setup_loops(self, c):
        self._v = v = c.v

        def removed_spec(st, lst_ref, upto):
            """`lst` lists, in increasing order, exactly the positions e < upto of original columns whose name is not a column of the reduced frame."""
            g_ = st.ghost
            od, pd = st.obj(g_["orig_df"]), st.obj(g_["proc_df"])
            n, g = safe_view(st, st.obj(lst_ref), IntVal(-1))
            k, e, j = z3.Ints("k e j")
            gone = lambda x: Not(z3.Exists([j], And(0 <= j, j < pd.w, pd.colname(j) == od.colname(x))))
            return {"entries_are_removed_columns_in_increasing_order": And(
                        ForAll([k], Implies(And(0 <= k, k < to_z3(n)), And(0 <= to_z3(g(k)), to_z3(g(k)) < upto, gone(to_z3(g(k)))))),
                        ForAll([k], Implies(And(0 <= k, k + 1 < to_z3(n)), to_z3(g(k)) < to_z3(g(k + 1))))),
                    "every_removed_column_is_listed": ForAll([e], Implies(And(0 <= e, e < upto, gone(e)), z3.Exists([k], And(0 <= k, k < to_z3(n), to_z3(g(k)) == e))))}
        self._removed_spec = removed_spec

        def inv_removed(vv):
            st = vv._state
            od = st.obj(st.ghost["orig_df"])
            cl = {"range": And(0 <= vv.i, vv.i <= od.w)}
            cl.update(removed_spec(st, vv.removed_column_indices, vv.i))
            return cl

        def inv_pages(vv):
            lst = vv.obj(vv.section_rtf_chunks)
            n, g = safe_view(vv.state, lst, lit(""))
            k = z3.Int("k")
            return {"range": vv.i >= 0, "one_chunk_group_per_page_so_far": to_z3(n) == vv.i,
                    "pages_in_order": ForAll([k], Implies(And(0 <= k, k < vv.i), to_z3(g(k)) == PAGECHUNK(k)))}
        self.loops = {0: LoopSpec(inv=inv_removed, havoc={"removed_column_indices": T.List(T.Int)}),
                      1: LoopSpec(inv=inv_pages, havoc={"section_rtf_chunks": T.List(T.Str)})}
        self.loops_optional = {0}

    def ensures(self, c, out):
        n, g = seq_view(out.state, out.value)
        gh = out.state.ghost
        k = z3.Int("k")
        P = gh.get("P")
        cl = {"C02.pages_post_processed_before_rendering": z3.BoolVal(gh.get("post_done") is True)}
        if P is not None:
            np_ = If(P == 0, 1, P)
            cl["C02.result_is_the_pages_chunks_in_page_order"] = And(to_z3(n) == np_, ForAll([k], Implies(And(0 <= k, k < np_), to_z3(g(k)) == PAGECHUNK(k))))
        else:
            cl["C02.paginated"] = z3.BoolVal(False)
        return cl


UNITS = [EncodeBodySection()]
