"""Contracts for src/rtflite/row.py and core/constants.py (DESIGN Appendix A4, A13, A14)."""
import z3
from z3 import And, Or, Not, Implies, ForAll, If, IntVal, RealVal

from pyvc.contract import Contract
from pyvc.interp import LoopSpec
from pyvc import types as T
from pyvc.units import LemmaUnit


class ColWidths(Contract):
    """Utils._col_widths: cumulative boundaries proportional to the relative widths, last = col_width (C08, C01)."""
    target = "row.py::Utils._col_widths"
    serves = ["C08", "C01", "C03"]

    def setup(self, c):
        rel = c.param("rel_widths", T.List(T.Real, minlen=1))
        cw = c.param("col_width", T.Real)
        ro = c.obj(rel)
        k = z3.Int("k")
        c.requires("rel_pos", ForAll([k], Implies(And(0 <= k, k < ro.length), ro.get(k) > 0)))
        c.requires("col_width_pos", cw > 0)
        c.v.update(n=ro.length, rel=ro.get, cw=cw)

    def setup_loops(self, c):
        n, rel, cw = c.v["n"], c.v["rel"], c.v["cw"]

        def before(I, st):
            # lemma `psum_nonneg` (proved by induction in LemmaUnit col_widths_psum): prefix sums of positive numbers are >= 0
            P = st.ghost["__psums__"][0][0]
            j = z3.Int("j")
            st.assume(ForAll([j], Implies(And(0 <= j, j <= n), P(j) >= 0)))
            c.v["P"] = P

        def inv(v):
            P = v.state.ghost["__psums__"][0][0]
            res = v.obj(v.result)
            i, cum, total = v.i, v.cumulative_sum, v.total_width
            k = z3.Int("k")
            return {
                "range": And(0 <= i, i <= n),
                "total": And(total == P(n), total > 0),
                "len": res.len_term() == i if not res.concrete else IntVal(len(res.items)) == i,
                "cum": cum * total == cw * P(i),
                "elems": ForAll([k], Implies(And(0 <= k, k < i), _get(res, k) * total == cw * P(k + 1))),
            }
        self.loops = {0: LoopSpec(inv=inv, before=before, havoc={"result": T.List(T.Real)})}

    def ensures(self, c, out):
        n, rel, cw, P = c.v["n"], c.v["rel"], c.v["cw"], c.v["P"]
        res = out.state.obj(out.value)
        k = z3.Int("k")
        total = P(n)
        return {
            "len": res.len_term() == n,
            "proportional": ForAll([k], Implies(And(0 <= k, k < n), _get(res, k) * total == cw * P(k + 1))),
            "first_positive": _get(res, IntVal(0)) > 0,
            "strictly_increasing": ForAll([k], Implies(And(0 <= k, k + 1 < n), _get(res, k) < _get(res, k + 1))),
            "last_is_col_width": _get(res, n - 1) == cw,
        }


def _get(lo, k):
    if lo.concrete:
        if not lo.items:
            return RealVal(0)          # only ever used under a vacuous range
        from pyvc.seqs import as_symlist
        return as_symlist(None, lo)[1](k)
    return lo.get(k)


def psum_lemma(index):
    """Induction: P(0)=0, P(j+1)=P(j)+w(j), w>0  =>  P(j) >= 0 for all 0<=j<=n."""
    P = z3.Function("P", z3.IntSort(), z3.RealSort())
    w = z3.Function("w", z3.IntSort(), z3.RealSort())
    n, j = z3.Ints("n j")
    defs = [P(0) == 0, ForAll([j], Implies(And(0 <= j, j < n), P(j + 1) == P(j) + w(j))),
            ForAll([j], Implies(And(0 <= j, j < n), w(j) > 0))]
    return [("base", defs, P(0) >= 0),
            ("step", defs + [0 <= j, j < n, P(j) >= 0], P(j + 1) >= 0)]


class InchToTwip(Contract):
    """RTFMeasurements.inch_to_twip via Utils._inch_to_twip: |r - 1440x| <= 1/2, integral (C06, C08)."""
    target = "row.py::Utils._inch_to_twip"
    serves = ["C06", "C08"]

    def setup(self, c):
        c.param("inch", T.Real)

    def ensures(self, c, out):
        x, r = c.v["inch"], out.value
        return {"is_int": z3.BoolVal(z3.is_int(r)) if z3.is_expr(r) else z3.BoolVal(isinstance(r, int)),
                "nearest": And(2 * (z3.ToReal(r) - 1440 * x) <= 1, 2 * (1440 * x - z3.ToReal(r)) <= 1)}


UNITS = [ColWidths(), InchToTwip()]
LEMMAS = [LemmaUnit("col_widths_psum", psum_lemma)]


# ==================================================================================================
# TextContent._convert_special_chars (A13): C10 per-character escaping, C11 gating
from pyvc.libmodels.strings import StrModel, cp_at
from pyvc.values import Rope, Chr, Dec, Fmt, RecObj, StrSort, lit, m_ascii, str_len, rope_of, norm_str, is_strterm, Opt
from pyvc.ops import truth

DEC = z3.Function("decodes_to_prefix", StrSort, StrSort, z3.IntSort(), z3.BoolSort())   # decode(out) == text[0:i]
LATEX = z3.Function("latex_to_unicode", StrSort, StrSort)


def _split(rope):
    ps = rope_of(rope).pieces
    if ps and z3.is_expr(ps[0]):
        return ps[0], ps[1:]
    return None, ps


def _escapes(suffix):
    """Parse a suffix made of `\\uc1\\u<Dec>*` escapes; returns list of Dec terms or None."""
    out = []
    ps = list(suffix)
    # literal pieces may be merged: "*\\uc1\\u" between two Dec pieces
    i = 0
    expect_open = True
    while i < len(ps):
        p = ps[i]
        if expect_open:
            if p != "\\uc1\\u":
                return None
            if i + 1 >= len(ps) or not isinstance(ps[i + 1], Dec):
                return None
            out.append(ps[i + 1].n)
            i += 2
            expect_open = False
        else:
            if p == "*":
                i += 1
                expect_open = True
                if i >= len(ps):
                    return out
            elif p == "*\\uc1\\u":
                if i + 1 >= len(ps) or not isinstance(ps[i + 1], Dec):
                    return None
                out.append(ps[i + 1].n)
                i += 2
            else:
                return None
    return None if not expect_open and out and False else (out if expect_open else None)


def piece_ok(suffix, cp):
    """The RTF reader decodes `suffix` (what one loop iteration appended) to exactly the character `cp`:
    an ASCII character stands for itself; `\\uN` + one fallback char (under \\uc1) gives N (N+65536 if negative);
    two consecutive escapes forming a UTF-16 surrogate pair give the astral scalar.  -32768 <= N <= 32767."""
    if len(suffix) == 1 and isinstance(suffix[0], Chr):
        c = suffix[0].cp
        return And(c == cp, c >= 0, c <= 127)
    esc = _escapes(suffix)
    if esc is None:
        return z3.BoolVal(False)
    u = [If(n >= 0, n, n + 65536) for n in esc]
    rng = And(*[And(n >= -32768, n <= 32767) for n in esc])
    if len(esc) == 1:
        return And(rng, u[0] == cp, cp <= 0xFFFF)
    if len(esc) == 2:
        return And(rng, u[0] >= 0xD800, u[0] <= 0xDBFF, u[1] >= 0xDC00, u[1] <= 0xDFFF,
                   0x10000 + (u[0] - 0xD800) * 1024 + (u[1] - 0xDC00) == cp)
    return z3.BoolVal(False)


def rope_is_ascii(r):
    from pyvc.values import rope_ascii
    return rope_ascii(r)


class ConvertSpecialChars(Contract):
    target = "row.py::TextContent._convert_special_chars"
    serves = ["C10", "C11", "C01"]
    models = [StrModel()]

    def setup(self, c):
        text = c.fresh("text", T.Str)
        conv = c.fresh("convert", T.Bool)
        tc_cls = c.cls("rtflite.row", "TextContent")
        c.bind("self", c.alloc(RecObj("TextContent", {"text": text, "convert": conv}, pyclass=tc_cls, fresh=False)))

    @property
    def handlers(self):
        def new_service(I, st, cv, args, kwargs, node):
            return st.alloc(RecObj("TextConversionService", {}, pyclass=cv.pyclass))
        return {"new:TextConversionService": new_service}

    @property
    def summaries(self):
        def convert_text_content(I, st, args, kwargs, node):
            # contract of TextConversionService.convert_text_content (unit ConvertTextContent): identity when disabled
            _self, text, enable = args[0], args[1], (args[2] if len(args) > 2 else kwargs.get("enable_conversion", True))
            en = truth(st, enable)
            en = en if not isinstance(en, bool) else z3.BoolVal(en)
            t = to_str(text)
            return If(en, LATEX(t), t)
        return {"TextConversionService.convert_text_content": convert_text_content}

    def setup_loops(self, c):
        def before(I, st):
            t = norm_str(st.env["text"])
            st.ghost["looptext"] = t
            j = z3.Int("j")
            # domain of the property: Unicode scalar values except C0/C1 controls; raw RTF metacharacters excluded (C01's
            # hypothesis on input text); line feed arrives here only as the already converted control word
            st.assume(ForAll([j], Implies(And(0 <= j, j < str_len(t)), scalar_ok(cp_at(t, j)))))

        def inv(v):
            t = v.state.ghost["looptext"]
            out = v.converted_text
            base, suffix = _split(out)
            i = v.i
            cl = {"range": And(0 <= i, i <= str_len(t)),
                  "ascii": rope_is_ascii(out)}
            if base is None and not suffix:
                cl["decode"] = i == 0
            elif not suffix:
                cl["decode"] = DEC(base, t, i)
            else:
                prev = DEC(base, t, i - 1) if base is not None else (i - 1 == 0)
                cl["decode"] = And(prev, piece_ok(suffix, cp_at(t, i - 1)))
            return cl
        self.loops = {1: LoopSpec(inv=inv, before=before, writes=["converted_text"])}

    def ensures(self, c, out):
        st = out.state
        selfo = c.obj(c.v["self"])
        text, conv = selfo.fields["text"], selfo.fields["convert"]
        res = norm_str(out.value)
        t = st.ghost.get("looptext")
        cl = {}
        if t is None:
            return {"early_return_only_for_none": z3.BoolVal(False)}
        base, suffix = _split(res)
        cl["ascii_output"] = rope_is_ascii(res)
        cl["decodes_to_converted_text"] = DEC(base, t, str_len(t)) if (base is not None and not suffix) else z3.BoolVal(False)
        # C11 gating: with convert off neither the replace chain nor the LaTeX pass runs
        cl["convert_off_is_verbatim"] = Implies(Not(conv), to_z3s(t) == text)
        return cl


def to_str(v):
    v = norm_str(v)
    if isinstance(v, str):
        return lit(v)
    return v


def to_z3s(v):
    return to_str(v)


def scalar_ok(cp):
    return And(cp >= 32, cp <= 0x10FFFF, Not(And(cp >= 0x7F, cp <= 0x9F)), Not(And(cp >= 0xD800, cp <= 0xDFFF)),
               cp != 92, cp != 123, cp != 125)


UNITS.append(ConvertSpecialChars())
