"""encoding/unified_encoder.py::UnifiedRTFEncoder._encode_multi_section: sections encoded in order on per-section copies
(C02 order, C01 skeleton and per-section headers, C06 title / footnote / source across sections, C07 first / last page borders only
on the first / last section, C14 the caller's components are not written)."""
import z3
from z3 import And, Or, Not, Implies, ForAll, If, IntVal

from pyvc.contract import Contract
from pyvc.interp import LoopSpec
from pyvc import types as T
from pyvc.values import ListObj, RecObj, Ref, Opt, lit, to_z3, norm_str, StrSort, fresh_name
from pyvc.state import OutOfSubset, lazy_alloc
from pyvc.seqs import as_symlist, safe_view, seq_view
from pyvc.libmodels.polars_model import PolarsModel, DfObj
from pyvc.libmodels.strings import StrModel

from contracts.attributes import to_list_summary

SECTION = z3.Function("rtf_of_section", z3.IntSort(), StrSort)


def mark(tag):
    return f"\x01{tag}\x01"


class MultiSection(Contract):
    target = "encoding/unified_encoder.py::UnifiedRTFEncoder._encode_multi_section"
    serves = ["C01", "C02", "C06", "C07", "C14"]
    models = [PolarsModel(), StrModel()]
    variants = ["nested_headers", "flat_headers"]
    max_paths = 20000

    def setup(self, c):
        cls = c.cls("rtflite.encoding.unified_encoder", "UnifiedRTFEncoder")
        es = c.alloc(RecObj("RTFEncodingService", {}, pyclass=c.cls("rtflite.services.encoding_service", "RTFEncodingService"), fresh=False))
        c.bind("self", c.alloc(RecObj("UnifiedRTFEncoder", {"encoding_service": es}, pyclass=cls, fresh=False)))
        NS = z3.Int(fresh_name("n_sections"))
        c.requires("at_least_two_sections_of_one_document", NS >= 1)
        NP = z3.Function(fresh_name("section_new_page"), z3.IntSort(), z3.BoolSort())
        NCOL = z3.Function(fresh_name("ncols"), z3.IntSort(), z3.IntSort())
        memo = {}

        def df_of(s):
            s = s if z3.is_expr(s) else IntVal(s)
            key = ("df", str(z3.simplify(s)))
            if key not in memo:
                from pyvc.values import ValSort
                cf = z3.Function(fresh_name("cell"), z3.IntSort(), z3.IntSort(), ValSort)
                nf = z3.Function(fresh_name("col"), z3.IntSort(), StrSort)
                d = DfObj(z3.Int(fresh_name("nrows")), NCOL(s), lambda r, cc, cf=cf: cf(to_z3(r), to_z3(cc)), lambda j, nf=nf: nf(to_z3(j)))
                d.section = s
                memo[key] = lazy_alloc(d)
            return memo[key]

        def body_of(s):
            s = s if z3.is_expr(s) else IntVal(s)
            key = ("body", str(z3.simplify(s)))
            if key not in memo:
                memo[key] = lazy_alloc(RecObj("RTFBody", {"new_page": NP(s), "_section": s}, pyclass=c.cls("rtflite.input", "RTFBody"), fresh=False, origin="CALLER"))
            return memo[key]

        def hdrs_of(s):
            s = s if z3.is_expr(s) else IntVal(s)
            key = ("hdrs", str(z3.simplify(s)))
            if key not in memo:
                lo = ListObj(length=z3.Int(fresh_name("n_headers")), get=lambda h: z3.Const(fresh_name("hdr"), StrSort), fresh=False)
                lo.section = s
                memo[key] = lazy_alloc(lo)
            return memo[key]
        B = lambda n: z3.Bool(fresh_name(n))

        def comp(name):
            has = B(f"{name}_configured")
            rec = c.alloc(RecObj(name, {"text": c.fresh(f"{name}_text", T.Str)}, fresh=False, origin="CALLER"))
            return Opt(Not(has), rec), rec, has
        title, title_rec, title_has = comp("RTFTitle")
        subline, subline_rec, subline_has = comp("RTFSubline")
        foot, foot_rec, foot_has = comp("RTFFootnote")
        src, src_rec, src_has = comp("RTFSource")
        ph, ph_rec, ph_has = comp("RTFPageHeader")
        pfo, pf_rec, pf_has = comp("RTFPageFooter")
        pt, pfn, ps = c.fresh("page_title", T.Str), c.fresh("page_footnote", T.Str), c.fresh("page_source", T.Str)
        bf, bl = c.fresh("border_first", T.Str), c.fresh("border_last", T.Str)
        rpage = c.alloc(RecObj("RTFPage", {"page_title": pt, "page_footnote": pfn, "page_source": ps, "border_first": bf, "border_last": bl}, fresh=False, origin="CALLER"))
        dfs = c.alloc(ListObj(length=NS, get=lambda s: df_of(s), fresh=False))
        bodies = c.alloc(ListObj(length=NS, get=lambda s: body_of(s), fresh=False))
        if c.variant == "nested_headers":
            headers = c.alloc(ListObj(length=NS, get=lambda s: hdrs_of(s), fresh=False))          # validated: one header list per section
        else:
            headers = hdrs_of(IntVal(-1))                                                          # a flat list of headers
        doc = c.alloc(RecObj("RTFDocument", {"df": dfs, "rtf_body": bodies, "rtf_column_header": headers, "rtf_page": rpage, "rtf_title": title,
                                             "rtf_subline": subline, "rtf_footnote": foot, "rtf_source": src, "rtf_page_header": ph, "rtf_page_footer": pfo},
                             fresh=False, origin="CALLER"))
        c.bind("document", doc)
        c.v.update(NS=NS, NP=NP, doc=doc, rpage=rpage, pt=pt, pfn=pfn, ps=ps, bf=bf, bl=bl, headers=headers, df_of=df_of, body_of=body_of, hdrs_of=hdrs_of,
                   recs={"rtf_title": title_rec, "rtf_subline": subline_rec, "rtf_footnote": foot_rec, "rtf_source": src_rec,
                         "rtf_page_header": ph_rec, "rtf_page_footer": pf_rec},
                   texts={k: None for k in ()}, originals={})
        for k, r in c.v["recs"].items():
            c.v["originals"][k] = c.obj(r).fields["text"]

    @property
    def handlers(self):
        def shallow_copy_of(path):
            def fn(I, st, args, kwargs, node):
                I.ctx.assume_lib("pydantic: model_copy() returns a new model object with the same field values (shallow)")
                o = I.eval(st, ast_parse(path))
                if isinstance(o, Opt):
                    o = o.payload
                src = st.obj(o)
                ref = st.alloc(RecObj(src.cls, dict(src.fields), pyclass=src.pyclass, fresh=True, origin="FRESH"))
                st.obj(ref).copy_of = o.oid
                return ref
            return fn

        def ast_parse(path):
            import ast
            return ast.parse(path, mode="eval").body

        def doc_copy(I, st, args, kwargs, node):
            upd = kwargs.get("update")
            src = st.obj(self._v["doc"])
            fields = dict(src.fields)
            u = st.obj(upd)
            for k, val in u.items.items():
                fields[k] = val
            return st.alloc(RecObj("RTFDocument", fields, pyclass=src.pyclass, fresh=True, origin="FRESH"))
        h = {"document.model_copy": doc_copy, "document.rtf_page.model_copy": shallow_copy_of("document.rtf_page")}
        for nm in ("rtf_title", "rtf_footnote", "rtf_source", "rtf_subline", "rtf_page_header", "rtf_page_footer"):
            h[f"document.{nm}.model_copy"] = shallow_copy_of(f"document.{nm}")

        def new_bv(I, st, cv, args, kwargs, node):
            return st.alloc(RecObj("BroadcastValue", {"value": kwargs.get("value"), "dimension": kwargs.get("dimension")}, pyclass=cv.pyclass))
        h["new:BroadcastValue"] = new_bv
        return h

    @property
    def summaries(self):
        v = lambda: self._v

        def simple(tag):
            return lambda I, st, args, kwargs, node: mark(tag)

        def to_list(I, st, args, kwargs, node):
            return st.alloc(ListObj(length=z3.Int(fresh_name("nb")), get=lambda k: z3.Const(fresh_name("b"), StrSort), fresh=True))

        def body_section(I, st, args, kwargs, node):
            vv = v()
            site = getattr(node, "lineno", None)
            i = to_z3(st.ghost["__iter_index__"])
            NS, NP = vv["NS"], vv["NP"]
            tdoc, sdf, sbody = args[1], args[2], args[3]
            first, last = i == 0, i == NS - 1
            ob = lambda n, f: I.oblige(st, f"{n}@L{site}", f if z3.is_expr(f) else z3.BoolVal(bool(f)), "post", site)
            d = st.obj(sdf)
            b = st.obj(sbody)
            ob("C02.section_i_encodes_the_ith_frame_with_the_ith_body",
               And(to_z3(getattr(d, "section", IntVal(-7))) == i, to_z3(b.fields.get("_section", IntVal(-7))) == i))
            t = st.obj(tdoc)
            ob("C02.section_document_carries_its_own_frame_and_body", t.fields.get("df") is sdf or (isinstance(t.fields.get("df"), Ref) and t.fields["df"].oid == sdf.oid)
               and isinstance(t.fields.get("rtf_body"), Ref) and t.fields["rtf_body"].oid == sbody.oid)
            # headers
            h = t.fields.get("rtf_column_header")
            if self._variant == "nested_headers":
                ob("C08.section_i_is_rendered_with_its_own_header_list", isinstance(h, Ref) and h.oid == vv["hdrs_of"](z3.simplify(i)).oid)
            else:
                ob("C01.flat_headers_label_the_first_section_only", If(first, z3.BoolVal(isinstance(h, Ref) and h.oid == vv["headers"].oid), z3.BoolVal(h is None)))
            # page borders: first only on the first section, last only on the last
            pg = st.obj(t.fields["rtf_page"])
            same = lambda x, y: (x is None and False) or (x is not None and to_z3(norm_str(x)).eq(to_z3(y)))
            bfv, blv = pg.fields.get("border_first"), pg.fields.get("border_last")
            ob("C07.first_page_border_only_on_the_first_section", If(first, z3.BoolVal(bfv is not None and same(bfv, vv["bf"])), z3.BoolVal(bfv is None)))
            ob("C07.last_page_border_only_on_the_last_section", If(last, z3.BoolVal(blv is not None and same(blv, vv["bl"])), z3.BoolVal(blv is None)))
            ob("C14.section_page_is_a_copy", bool(pg.fresh))
            # text components: the section sees a copy; its text is the original or None (suppressed)
            def text_state(key):
                comp = t.fields.get(key)
                if isinstance(comp, Opt):
                    comp = comp.payload if comp is not None else None
                if comp is None:
                    return None, None
                o = st.obj(comp)
                return o, o.fields.get("text")
            cont = Not(NP(i))                       # this section continues on the page of the previous one
            for key, suppress in (("rtf_title", And(Not(first), Or(vv["pt"] == lit("first"), cont))),
                                  ("rtf_subline", And(Not(first), Or(vv["pt"] == lit("first"), cont))),
                                  ("rtf_page_header", And(Not(first), cont)), ("rtf_page_footer", And(Not(first), cont)),
                                  ("rtf_footnote", And(Not(last), vv["pfn"] == lit("last"))), ("rtf_source", And(Not(last), vv["ps"] == lit("last")))):
                o, txt = text_state(key)
                if o is None:
                    continue
                ob(f"C14.{key}_handed_to_the_section_is_a_copy", bool(o.fresh))
                orig = vv["originals"][key]
                kept = txt is not None and to_z3(norm_str(txt)).eq(to_z3(orig))
                ob(f"C06.{key}_text_suppressed_exactly_when_the_section_must_not_show_it", If(suppress, z3.BoolVal(txt is None), z3.BoolVal(bool(kept))))
            return st.alloc(ListObj(items=[SECTION(i)], fresh=True))
        return {"BroadcastValue.to_list": to_list, "UnifiedRTFEncoder._encode_body_section": body_section,
                "RTFEncodingService.encode_document_start": simple("START"), "RTFEncodingService.encode_font_table": simple("FONTS"),
                "RTFEncodingService.encode_color_table": simple("COLORS"), "RTFEncodingService.encode_page_header": simple("PAGEHEADER"),
                "RTFEncodingService.encode_page_footer": simple("PAGEFOOTER"), "RTFEncodingService.encode_page_settings": simple("PAGESETTINGS")}

    def setup_loops(self, c):
        self._v = v = c.v
        self._variant = c.variant
        NS = v["NS"]

        def inv(vv):
            lst = vv.obj(vv.all_section_content)
            n, g = safe_view(vv.state, lst, lit(""))
            k = z3.Int("k")
            return {"range": And(0 <= vv.i, vv.i <= NS), "one_chunk_group_per_section_so_far": to_z3(n) == vv.i,
                    "C02.sections_in_order": ForAll([k], Implies(And(0 <= k, k < vv.i), to_z3(g(k)) == SECTION(k)))}
        noop = lambda I, st, name, ref: None
        self.loops = {0: LoopSpec(inv=inv, havoc={"all_section_content": T.List(T.Str), "section_body": noop, "section_df": noop})}

    def ensures(self, c, out):
        v = c.v
        from pyvc.values import rope_of, Tok
        r = rope_of(out.value)
        # the assembled text: "\n".join([...]) of a concrete list -> literal pieces and one JOIN token for the sections
        flat = "".join(p if isinstance(p, str) else "\x02" for p in r.pieces)
        order = [flat.find(mark(t)) for t in ("START", "FONTS", "COLORS", "PAGEHEADER", "PAGEFOOTER", "PAGESETTINGS")]
        cl = {"C01.prolog_in_fixed_order_before_the_sections": z3.BoolVal(all(o >= 0 for o in order) and order == sorted(order) and flat.find("\x02") > order[-1]),
              "C01.single_closing_brace_last": z3.BoolVal(flat.endswith("\n\n\n}") and flat.count("}") == 1 and flat.count("{") == 0),
              "C06.page_header_and_footer_defined_exactly_once": z3.BoolVal(flat.count(mark("PAGEHEADER")) == 1 and flat.count(mark("PAGEFOOTER")) == 1)}
        st = out.state
        for key, rec in v["recs"].items():
            txt = st.obj(rec).fields.get("text")
            cl[f"C14.callers_{key}_text_not_written"] = z3.BoolVal(txt is v["originals"][key] or (z3.is_expr(txt) and txt.eq(to_z3(v["originals"][key]))))
        pg = st.obj(v["rpage"])
        cl["C14.callers_page_borders_not_written"] = z3.BoolVal(pg.fields.get("border_first") is v["bf"] and pg.fields.get("border_last") is v["bl"])
        return cl


UNITS = [MultiSection()]
