"""encoding/renderer.py::PageRenderer.render: which components a page carries and in which order (C06), page-top group headings
(C05 render step 7), widths / border overrides handed to the component emitters (C08, C07), totality (C01).

Every callee is represented by its own contract (units PageBreak, EncodeTitle/EncodeSubline, SublineHeader, RenderColumnHeaders,
EncodeSpanningRow, RenderBody, EncodeFootnote/EncodeSource; encode_figure is assumed: '' without figures, non-empty otherwise) and
returns ONE marker chunk standing for its whole chunk sequence: render only appends / extends, so relative order and presence of
the markers are order and presence of the real chunk groups."""
import z3
from z3 import And, Or, Not, Implies, If, IntVal

from pyvc.contract import Contract
from pyvc import types as T
from pyvc.values import DictObj, ListObj, RecObj, Ref, Opt, lit, to_z3, norm_str, StrSort, ValSort, val_str, val_null, fresh_name
from pyvc.state import OutOfSubset
from pyvc.libmodels.polars_model import PolarsModel, fresh_df
from pyvc.libmodels.strings import StrModel
from pyvc.libmodels.listfuns import ListFunModel

ORDER = ["BREAK", "TITLE", "SUBLINE", "SUBLINE_HEADER", "FIGURE_BEFORE", "HEADERS", "HEADING0", "HEADING1", "HEADING2", "BODY", "FOOTNOTE", "SOURCE",
         "FIGURE_AFTER"]


def mark(tag):
    return f"\x01{tag}\x01"


def show(loc, first, last):
    """unit ShouldShow: all | first & is_first | last & is_last"""
    return Or(loc == lit("all"), And(loc == lit("first"), first), And(loc == lit("last"), last))


class RenderPage(Contract):
    target = "encoding/renderer.py::PageRenderer.render"
    serves = ["C06", "C05", "C08", "C07", "C01"]
    models = [PolarsModel(), StrModel(), ListFunModel()]
    variants = ["no_groups", "groups1", "groups2"]
    max_paths = 60000

    def setup(self, c):
        M = {"no_groups": 0, "groups1": 1, "groups2": 2}[c.variant]
        ren_cls = c.cls("rtflite.encoding.renderer", "PageRenderer")
        es = c.alloc(RecObj("RTFEncodingService", {}, pyclass=c.cls("rtflite.services.encoding_service", "RTFEncodingService"), fresh=False))
        ds = c.alloc(RecObj("RTFDocumentService", {}, pyclass=c.cls("rtflite.services.document_service", "RTFDocumentService"), fresh=False))
        fs = c.alloc(RecObj("RTFFigureService", {}, pyclass=c.cls("rtflite.services.figure_service", "RTFFigureService"), fresh=False))
        c.bind("self", c.alloc(RecObj("PageRenderer", {"encoding_service": es, "document_service": ds, "figure_service": fs}, pyclass=ren_cls, fresh=False)))
        B = lambda n: z3.Bool(fresh_name(n))

        def text_component(name, listy=True):
            has = B(f"{name}_configured")
            tnone = B(f"{name}_text_none")
            if listy:
                txt = c.fresh(f"{name}_text", T.List(T.Str))
                nonempty = c.obj(txt).length > 0
            else:
                txt = c.fresh(f"{name}_text", T.Str)
                nonempty = txt != lit("")
            rec = c.alloc(RecObj(name, {"text": Opt(tnone, txt)}, fresh=False))
            return Opt(Not(has), rec), And(has, Not(tnone), nonempty), rec
        title, title_has, title_rec = text_component("RTFTitle")
        subline, subline_has, subline_rec = text_component("RTFSubline")
        foot, foot_has, foot_rec = text_component("RTFFootnote", listy=False)
        src, src_has, src_rec = text_component("RTFSource", listy=False)
        fig_has, figs_none, fig_pos = B("figure_configured"), B("figures_none"), c.fresh("fig_pos", T.Str)
        figs = c.fresh("figures", T.List(T.Str))
        fig_rec = c.alloc(RecObj("RTFFigure", {"figures": Opt(figs_none, figs), "fig_pos": fig_pos}, fresh=False))
        figure = Opt(Not(fig_has), fig_rec)
        fig_any = And(fig_has, Not(figs_none), c.obj(figs).length > 0)
        nh = z3.Int(fresh_name("n_headers"))
        c.requires("header_count", nh >= 0)
        headers = c.alloc(ListObj(length=nh, get=lambda k: z3.Const(fresh_name("hdr"), StrSort), fresh=False))
        col_width = c.fresh("col_width", T.Real)
        c.requires("table_width_positive", col_width > 0)
        pt, pf, ps = c.fresh("page_title", T.Str), c.fresh("page_footnote", T.Str), c.fresh("page_source", T.Str)
        rpage = c.alloc(RecObj("RTFPage", {"col_width": col_width, "page_title": pt, "page_footnote": pf, "page_source": ps}, fresh=False))
        newp, pbr = c.fresh("new_page", T.Bool), c.fresh("pageby_row", T.Str)
        body = c.alloc(RecObj("RTFBody", {"new_page": newp, "pageby_row": pbr}, pyclass=c.cls("rtflite.input", "RTFBody"), fresh=False))
        doc_df = fresh_df(c.st, "doc_df")
        doc = c.alloc(RecObj("RTFDocument", {"rtf_title": title, "rtf_subline": subline, "rtf_footnote": foot, "rtf_source": src, "rtf_figure": figure,
                                             "rtf_column_header": headers, "rtf_body": body, "rtf_page": rpage, "df": doc_df}, fresh=False))
        first, last, needs = c.fresh("is_first_page", T.Bool), c.fresh("is_last_page", T.Bool), c.fresh("needs_header", T.Bool)
        # page-top group values (strategies: unit GetGroupHeaders): one entry per page_by level, None for a level without a heading
        vals = [Opt(B(f"group_value{l}_none"), z3.Const(fresh_name(f"group_value{l}"), ValSort)) for l in range(M)]
        info = None
        if M:
            gv = c.alloc(DictObj(items={f"pb{l}": vals[l] for l in range(M)}, fresh=False))
            info_present = B("pageby_info_present")
            info = Opt(Not(info_present), c.alloc(DictObj(items={"group_values": gv, "header_text": lit("")}, fresh=False)))
        else:
            info_present = z3.BoolVal(False)
        sub_present = B("subline_header_present")
        sub_info = Opt(Not(sub_present), c.alloc(DictObj(items={"group_values": c.alloc(DictObj(items={"s0": z3.Const(fresh_name("sub_val"), ValSort)}, fresh=False))}, fresh=False)))
        fb, sbd = Opt(B("no_footnote_border"), c.fresh("footnote_border", T.Str)), Opt(B("no_source_border"), c.fresh("source_border", T.Str))
        borders = c.alloc(DictObj(items={"footnote": fb.payload, "source": sbd.payload}, present={"footnote": Not(fb.isnone), "source": Not(sbd.isnone)}, fresh=False))
        page_number = c.fresh("page_number", T.Int)
        total_pages = c.fresh("total_pages", T.Int)
        # the strategies' postconditions on every PageContext they build (units Paginate*: C06.is_first_iff_number_1, ...)
        c.requires("page_numbering", And(page_number >= 1, page_number <= total_pages, first == (page_number == 1), last == (page_number == total_pages)))
        page = c.alloc(RecObj("PageContext", {"is_first_page": first, "is_last_page": last, "needs_header": needs, "subline_header": sub_info,
                                              "pageby_header_info": info, "component_borders": borders, "page_number": page_number,
                                              "total_pages": total_pages, "row_start": c.fresh("row_start", T.Int),
                                              "data": fresh_df(c.st, "page_df"), "col_widths": c.fresh("cw", T.List(T.Real)), "table_attrs": None,
                                              "final_body_attrs": None, "group_boundaries": None}, fresh=False))
        c.bind("document", doc)
        c.bind("page", page)
        spanning = Or(Not(newp), pbr != lit("column"))
        sub_text_nonempty = B("subline_heading_nonempty")       # unit SublineHeader: '' exactly when the group has nothing to display
        P = {"BREAK": Not(first), "TITLE": And(title_has, show(pt, first, last)), "SUBLINE": And(subline_has, show(pt, first, last)),
             "SUBLINE_HEADER": And(sub_present, sub_text_nonempty), "FIGURE_BEFORE": And(fig_any, fig_pos == lit("before"), first),
             "HEADERS": And(needs, nh > 0), "BODY": z3.BoolVal(True), "FOOTNOTE": And(foot_has, show(pf, first, last)),
             "SOURCE": And(src_has, show(ps, first, last)), "FIGURE_AFTER": And(fig_any, fig_pos == lit("after"), last)}
        for l in range(3):
            P[f"HEADING{l}"] = And(info_present, spanning, Not(vals[l].isnone)) if l < M else z3.BoolVal(False)
        c.v.update(P=P, M=M, vals=vals, col_width=col_width, doc=doc, page=page, title_rec=title_rec, subline_rec=subline_rec, foot_rec=foot_rec,
                   src_rec=src_rec, fig_rec=fig_rec, fb=fb, sbd=sbd, page_number=page_number, sub_text_nonempty=sub_text_nonempty, body=body,
                   title_has=title_has, subline_has=subline_has, foot_has=foot_has, src_has=src_has, fig_any=fig_any, first=first, last=last, pt=pt, pf=pf, ps=ps)

    # ---- callee contracts ----------------------------------------------------------------------------------------------------------
    @property
    def summaries(self):
        v = lambda: self._v

        def same_obj(x, ref):
            if isinstance(x, Opt):
                x = x.payload
            return isinstance(x, Ref) and isinstance(ref, Ref) and x.oid == ref.oid

        def page_break(I, st, args, kwargs, node):
            site = getattr(node, "lineno", None)
            I.oblige(st, f"C06.page_break_built_from_this_document@L{site}", z3.BoolVal(same_obj(args[1], v()["doc"])), "post", site)
            return mark("BREAK")

        def text_block(tag, rec_key, has_key):
            def fn(I, st, args, kwargs, node):
                site = getattr(node, "lineno", None)
                I.oblige(st, f"C06.{tag.lower()}_block_is_this_documents_component@L{site}", z3.BoolVal(same_obj(args[1], v()[rec_key])), "post", site)
                # EncodeTitle / EncodeSubline: '' exactly when the component has no text
                return mark(tag) if I.decide(st, v()[has_key], f"{tag}.has_text") else ""
            return fn

        def subline_header(I, st, args, kwargs, node):
            return mark("SUBLINE_HEADER") if I.decide(st, v()["sub_text_nonempty"], "subline_heading.nonempty") else ""

        def figure(I, st, args, kwargs, node):
            site = getattr(node, "lineno", None)
            I.ctx.assume_lib("RTFFigureService.encode_figure: '' without figures, a non-empty string otherwise (units EncodeSingleFigure, GetDimension)")
            I.oblige(st, f"C06.figure_block_is_this_documents_figure@L{site}", z3.BoolVal(any(same_obj(a, v()["fig_rec"]) for a in args)), "post", site)
            tag = "FIGURE_BEFORE" if st.ghost.get("__body_done__") is None else "FIGURE_AFTER"
            return mark(tag) if I.decide(st, v()["fig_any"], "figure.any") else ""

        def headers(I, st, args, kwargs, node):
            return st.alloc(ListObj(items=[mark("HEADERS")], fresh=True))

        def spanning(I, st, args, kwargs, node):
            vv = v()
            site = getattr(node, "lineno", None)
            k = st.ghost.get("__headings__", 0)
            text = norm_str(kwargs.get("text"))
            lvl = None
            for l in range(vv["M"]):
                if z3.is_expr(text) and text.eq(val_str(vv["vals"][l].payload)):
                    lvl = l
            I.oblige(st, f"C05.page_top_heading_shows_a_group_value_of_this_page@L{site}", z3.BoolVal(lvl is not None), "post", site)
            pw = kwargs.get("page_width")
            I.oblige(st, f"C08.page_top_heading_spans_the_table_width@L{site}", z3.BoolVal(False) if pw is None else to_z3(pw) == to_z3(vv["col_width"]), "post", site)
            I.oblige(st, f"C05.heading_styled_from_this_documents_body@L{site}", z3.BoolVal(same_obj(kwargs.get("rtf_body_attrs"), vv["body"])), "post", site)
            st.ghost["__headings__"] = k + 1
            return st.alloc(ListObj(items=[mark(f"HEADING{lvl if lvl is not None else 9}")], fresh=True))

        def render_body(I, st, args, kwargs, node):
            vv = v()
            site = getattr(node, "lineno", None)
            I.oblige(st, f"C02.body_rendered_from_this_page@L{site}", z3.BoolVal(same_obj(args[1], vv["doc"]) and same_obj(args[2], vv["page"])), "post", site)
            st.ghost["__body_done__"] = True
            return st.alloc(ListObj(items=[mark("BODY")], fresh=True))

        def note(tag, rec_key, border_key):
            def fn(I, st, args, kwargs, node):
                vv = v()
                site = getattr(node, "lineno", None)
                I.oblige(st, f"C06.{tag.lower()}_is_this_documents_component@L{site}", z3.BoolVal(same_obj(args[1], vv[rec_key])), "post", site)
                pcw = args[3] if len(args) > 3 else kwargs.get("page_col_width")
                I.oblige(st, f"C08.{tag.lower()}_laid_out_on_the_table_width@L{site}", z3.BoolVal(False) if pcw is None else to_z3(pcw) == to_z3(vv["col_width"]), "post", site)
                bs = kwargs.get("border_style")
                want = vv[border_key]
                from contracts.attributes import same
                I.oblige(st, f"C07.{tag.lower()}_gets_the_pages_closing_border_override@L{site}", same(bs, want), "post", site)
                return st.alloc(ListObj(items=[mark(tag)], fresh=True))      # EncodeFootnote/EncodeSource: non-empty for a component with text
            return fn
        return {"RTFDocumentService.generate_page_break": page_break, "RTFEncodingService.encode_title": text_block("TITLE", "title_rec", "title_has"),
                "RTFEncodingService.encode_subline": text_block("SUBLINE", "subline_rec", "subline_has"),
                "PageRenderer._generate_subline_header": subline_header, "RTFFigureService.encode_figure": figure,
                "PageRenderer._render_column_headers": headers, "RTFEncodingService.encode_spanning_row": spanning,
                "PageRenderer._render_body": render_body, "RTFEncodingService.encode_footnote": note("FOOTNOTE", "foot_rec", "fb"),
                "RTFEncodingService.encode_source": note("SOURCE", "src_rec", "sbd"),
                "PageRenderer._should_show": lambda I, st, args, kwargs, node: show(to_z3(norm_str(args[1])), self._v["first"], self._v["last"])}

    def setup_loops(self, c):
        self._v = c.v

    def ensures(self, c, out):
        P = c.v["P"]
        lst = out.state.obj(out.value)
        if not (isinstance(lst, ListObj) and lst.items is not None):
            return {"chunk_list_is_concrete_in_the_marker_abstraction": z3.BoolVal(False)}
        items = [norm_str(x) for x in lst.items]
        tags = []
        other = []
        for x in items:
            if isinstance(x, str) and x.startswith("\x01"):
                tags.append(x.strip("\x01"))
            else:
                other.append(x)
        cl = {}
        for t in ORDER:
            cl[f"C06.{t.lower()}_present_exactly_when_configured_for_this_page"] = (z3.BoolVal(t in tags) == P[t]) if t != "HEADING2" or c.v["M"] > 2 else z3.BoolVal(t not in tags)
            cl[f"C06.{t.lower()}_at_most_once"] = z3.BoolVal(tags.count(t) <= 1)
        pos = [ORDER.index(t) if t in ORDER else 99 for t in tags]
        cl["C06.components_in_the_fixed_order"] = z3.BoolVal(all(a < b for a, b in zip(pos, pos[1:])) and 99 not in pos)
        cl["C01.only_separator_chunks_besides_components"] = z3.BoolVal(all(isinstance(x, str) and x.strip("\n") == "" for x in other))
        cl["C06.page_break_is_the_first_chunk"] = z3.BoolVal("BREAK" not in tags or items[0] == mark("BREAK"))
        return cl


UNITS = [RenderPage()]
