"""C03 carriers: services/document_service.py::calculate_additional_rows_per_page (A2), pagination/core.py::calculate_row_metadata (A3),
_calculate_header_rows; budget lemma."""
import z3
from z3 import And, Or, Not, Implies, ForAll, Exists, If, IntVal, Select, Store

from pyvc.contract import Contract
from pyvc.interp import LoopSpec
from pyvc import types as T
from pyvc.state import lazy_alloc, OutOfSubset
from pyvc.units import LemmaUnit
from pyvc.values import (RecObj, ListObj, DictObj, FrameObj, Ref, Opt, StrSort, ValSort, lit, norm_str, to_z3, val_null, val_str, fresh_name,
                         Rope, rope_of)
from pyvc.libmodels.polars_model import PolarsModel, DfObj, fresh_df, cell_value
from pyvc.libmodels.strings import StrModel
from pyvc.seqs import safe_view, seq_view


def header_list(c, name):
    """Symbolic list of Optional column headers whose text is Optional: (ref, n, HN, TN)."""
    n = z3.Int(fresh_name(name + ".n"))
    HN = z3.Function(fresh_name(name + ".is_none"), z3.IntSort(), z3.BoolSort())
    TN = z3.Function(fresh_name(name + ".text_is_none"), z3.IntSort(), z3.BoolSort())
    c.requires(f"{name}_len", n >= 0)
    memo = {}

    def get(j):
        j = j if z3.is_expr(j) else IntVal(j)
        key = str(z3.simplify(j))
        if key not in memo:
            rec = lazy_alloc(RecObj("RTFColumnHeader", {"text": Opt(TN(j), z3.Const(fresh_name("hdr.text"), ValSort))}, fresh=False))
            memo[key] = Opt(HN(j), rec)
        return memo[key]
    return c.alloc(ListObj(length=n, get=get, fresh=False)), n, HN, TN


class AdditionalRows(Contract):
    """calculate_additional_rows_per_page: [subline_by] + #headers that have text + [footnote with text] + [source with text]."""
    target = "services/document_service.py::RTFDocumentService.calculate_additional_rows_per_page"
    serves = ["C03", "C04"]
    variants = ["flat", "none"]

    def setup(self, c):
        cls = c.cls("rtflite.services.document_service", "RTFDocumentService")
        c.bind("self", c.alloc(RecObj("RTFDocumentService", {}, pyclass=cls, fresh=False)))
        sub = c.fresh("subline_by", T.Option(T.List(T.Str)))
        body = c.alloc(RecObj("RTFBody", {"subline_by": sub}, fresh=False))

        def comp(name):
            isn = z3.Bool(fresh_name(name + ".isnone"))
            txt = c.fresh(name + ".text", T.Option(T.List(T.Str)))
            return Opt(isn, c.alloc(RecObj(name, {"text": txt}, fresh=False))), isn, txt
        fn, fn_none, fn_txt = comp("rtf_footnote")
        src, src_none, src_txt = comp("rtf_source")
        if c.variant == "flat":
            hdrs, n, HN, TN = header_list(c, "headers")
            c.v.update(n=n, HN=HN, TN=TN)
            CNT = z3.Function("headers_with_text_before", z3.IntSort(), z3.IntSort())
            k = z3.Int("ck")
            c.requires("ghost_count_def", And(CNT(0) == 0, ForAll([k], Implies(And(0 <= k, k < n), CNT(k + 1) == CNT(k) + If(And(Not(HN(k)), Not(TN(k))), 1, 0)),
                                                                 patterns=[CNT(k)])))
            c.v["CNT"] = CNT
        else:
            hdrs = None
        # every field a reservation rule might consult is present (so that a changed rule is judged by the ensures, not by a missing attribute)
        rpage = c.alloc(RecObj("RTFPage", {"page_title": c.fresh("page_title", T.Str), "page_footnote": c.fresh("page_footnote", T.Str),
                                           "page_source": c.fresh("page_source", T.Str), "nrow": c.fresh("nrow", T.Int)}, fresh=False))
        doc = c.alloc(RecObj("RTFDocument", {"rtf_body": body, "rtf_column_header": hdrs, "rtf_footnote": fn, "rtf_source": src, "rtf_page": rpage,
                                             "rtf_title": None, "rtf_subline": None}, fresh=False))
        c.bind("document", doc)
        has = lambda isn, txt: And(Not(isn), Not(txt.isnone), c.obj(txt.payload).length > 0)
        c.v.update(sub=sub, fn=has(fn_none, fn_txt), src=has(src_none, src_txt))

    def base(self, c):
        sub = c.v["sub"]
        return If(And(Not(sub.isnone), c.obj(sub.payload).length > 0), 1, 0)

    def setup_loops(self, c):
        if c.variant != "flat":
            self.loops = {}
            return
        CNT = c.v["CNT"]
        self.loops = {2: LoopSpec(inv=lambda v: {"count_so_far": v.additional_rows == self.base(c) + CNT(v.i)})}
        self.loops_optional = {2}

    def ensures(self, c, out):
        r = to_z3(out.value)
        hdr = c.v["CNT"](c.v["n"]) if c.variant == "flat" else IntVal(0)
        return {"reserved_rows": r == self.base(c) + hdr + If(c.v["fn"], 1, 0) + If(c.v["src"], 1, 0)}


UNITS = [AdditionalRows()]


# =====================================================================================================================
# calculate_row_metadata (A3)
from pyvc.libmodels.frames import MetaFrameModel, pl_DataFrame_from_rows
from contracts.strategies import NamedColumns, COLIDX
from contracts.attributes import AT, AttrVal, ATTR_SORT, same

W = z3.Function("string_width_inches", StrSort, z3.IntSort(), z3.RealSort(), z3.RealSort())       # get_string_width(text, font, size)
HROWS = z3.Function("header_rows", StrSort, z3.IntSort())
HR = z3.Function("heading_rows_of_text", StrSort, z3.IntSort())      # _calculate_header_rows(text, table width, font size) within one carrier call
META_COLS = dict(row_index=z3.IntSort(), data_rows=z3.IntSort(), pageby_header_rows=z3.IntSort(), continuation_header_rows=z3.IntSort(),
                 subline_header_rows=z3.IntSort(),
                 column_header_rows=z3.IntSort(), total_rows=z3.IntSort(), page=z3.IntSort(), is_group_start=z3.BoolSort(), is_subline_start=z3.BoolSort())


class NamedRowModel:
    """polars: df.row(i, named=True)[name] is cell (i, index of name)."""

    def call_method(self, I, st, recv, name, args, kwargs, node):
        if isinstance(recv, Ref) and isinstance(st.heap.get(recv.oid), DfObj) and name == "row" and kwargs.get("named") is True:
            d = st.obj(recv)
            i = to_z3(args[0])
            I.check(st, And(i >= 0, i < d.n), "IndexError", "df.row.index", getattr(node, "lineno", None))
            return ("namedrow", recv, i)
        return NotImplemented

    def get_item(self, I, st, base, key, node):
        if isinstance(base, tuple) and base and base[0] == "namedrow":
            d = st.obj(base[1])
            return cell_value(st, d, base[2], COLIDX(to_z3(norm_str(key))))
        return NotImplemented


def key_str(d, r, col):
    v = d.cell(r, COLIDX(lit(col)))
    return If(val_null(v), lit("None"), val_str(v))


class RowMetadata(Contract):
    """calculate_row_metadata: per row, data_rows >= 1 and >= the line count of every measured cell AT THAT CELL'S OWN FONT AND SIZE;
    group / subline start flags are exactly the key changes (str comparison over all key columns); heading rows are budgeted only
    at group starts; total = sum; row_index is the identity; then pages are assigned (AssignPages)."""
    target = "pagination/core.py::PageBreakCalculator.calculate_row_metadata"
    serves = ["C03", "C04", "C05"]
    variants = ["plain", "page_by2", "subline1_pageby1"]
    max_paths = 20000
    abstract_division = True       # W / width: only "the same quotient" matters here (lemma line_estimate_covers_ceiling speaks about int(x)+1)

    @property
    def models(self):
        return [NamedRowModel(), NamedColumns(), MetaFrameModel(), PolarsModel(), StrModel()]

    def setup(self, c):
        cls = c.cls("rtflite.pagination.core", "PageBreakCalculator")
        nrow = c.fresh("nrow", T.Int)
        c.requires("nrow_pos", nrow >= 1)
        pag = c.alloc(RecObj("RTFPagination", {"nrow": nrow}, fresh=False))
        c.bind("self", c.alloc(RecObj("PageBreakCalculator", {"pagination": pag}, pyclass=cls, fresh=False)))
        df = fresh_df(c.st, "df")
        c.bind("df", df)
        d = c.obj(df)
        cw = c.param("col_widths", T.List(T.Real, minlen=1))
        cwo = c.obj(cw)
        k = z3.Int("wk")
        c.requires("col_widths_from_col_widths_contract", And(cwo.get(IntVal(0)) > 0, ForAll([k], Implies(And(0 <= k, k + 1 < cwo.length), cwo.get(k) < cwo.get(k + 1)))))
        pb = {"plain": [], "page_by2": ["pb0", "pb1"], "subline1_pageby1": ["pb0"]}[c.variant]
        sb = {"plain": [], "page_by2": [], "subline1_pageby1": ["sb0"]}[c.variant]
        c.bind("page_by", c.alloc(ListObj(items=list(pb), fresh=False)) if pb else None)
        c.bind("subline_by", c.alloc(ListObj(items=list(sb), fresh=False)) if sb else None)
        acls = c.cls("rtflite.attributes", "TableAttributes")
        c.bind("table_attrs", c.alloc(RecObj("TableAttributes", {n: AttrVal(n) for n in ATTR_SORT}, pyclass=acls, fresh=False)))
        c.param("removed_column_indices", T.List(T.Int))
        c.param("additional_rows_per_page", T.Int)
        c.param("new_page", T.Bool)
        for col in pb + sb:
            c.requires(f"column_{col}_exists", And(COLIDX(lit(col)) >= 0, COLIDX(lit(col)) < d.w))
        j = z3.Int("cj")
        c.requires("column_index_of_its_own_name", ForAll([j], Implies(And(0 <= j, j < d.w), COLIDX(d.colname(j)) == j), patterns=[d.colname(j)]))
        for name in ("text_font", "text_font_size"):
            c.requires(f"{name}_set", Not(AT(name, 0, 0).isnone))
        # displayed-column bookkeeping: REMOVED(c), DISP(c) = number of displayed columns before c (ghost), widths match the displayed columns
        rem = c.obj(c.v["removed_column_indices"])
        jj = z3.Int("rj")
        REM = z3.Function("column_is_removed", z3.IntSort(), z3.BoolSort())
        cc0 = z3.Int("rc")
        c.requires("def_removed_columns", ForAll([cc0], REM(cc0) == Exists([jj], And(0 <= jj, jj < rem.length, rem.get(jj) == cc0)), patterns=[REM(cc0)]))
        REMOVED = lambda col: REM(col)
        DISP = z3.Function("displayed_before", z3.IntSort(), z3.IntSort())
        a, b = z3.Ints("da db")
        c.requires("ghost_displayed_count", And(DISP(0) == 0, ForAll([a], Implies(And(0 <= a, a < d.w), DISP(a + 1) == DISP(a) + If(REMOVED(a), 0, 1)), patterns=[DISP(a)])))
        c.requires("lemma_displayed_count_monotone", ForAll([a, b], Implies(And(0 <= a, a <= b, b <= d.w), And(DISP(a) <= DISP(b), DISP(b) - DISP(a) <= b - a)),
                                                             patterns=[z3.MultiPattern(DISP(a), DISP(b))]))
        c.requires("one_width_per_displayed_column", DISP(d.w) == cwo.length)          # obligation at the call site (_encode_body_section)
        c.v.update(d=d, pb=pb, sb=sb, cwo=cwo, REMOVED=REMOVED, DISP=DISP)

    def lines_needed(self, c, r, col):
        """int(W(text, own font, own size) / column width) + 1 for displayed column `col` of row r (the code's own estimate; it is
        >= ceil(W / width), the property's lower bound)."""
        d, cwo, DISP = c.v["d"], c.v["cwo"], c.v["DISP"]
        from pyvc import ops
        wi = DISP(col)
        v = d.cell(r, col)
        text = If(val_null(v), lit("None"), val_str(v))
        font = AT("text_font", r, wi).payload
        size = AT("text_font_size", r, wi).payload
        width = cwo.get(wi) - If(wi > 0, cwo.get(wi - 1), 0)
        q = ops.RDIV(W(text, font, size), width)
        return ops.py_int(q) + 1

    def rendered_heading_rows(self, c, cols, k):
        """heading rows _render_body / render emit before row k (unit RenderBody / RenderPage): at row 0 every non-divider level, at
        a later row the non-divider levels from the first changed level down, none if no level changed"""
        d = c.v["d"]
        nd = [If(key_str(d, k, col) != lit("-----"), 1, 0) for col in cols]
        changed = [Or(k == 0, key_str(d, k - 1, col) != key_str(d, k, col)) for col in cols]
        total = IntVal(0)
        for l in reversed(range(len(cols))):
            # levels l.. are rendered iff some level <= l changed
            upto = Or(*changed[:l + 1])
            total = total + If(upto, nd[l], 0)
        return total

    def weighted_heading_rows(self, c, cols, k, page_top):
        """the rows (HR = _calculate_header_rows of the level's text) of the headings shown before row k: at a page top every non-divider level;
        at a group start inside a page the non-divider levels from the first changed level downwards (row 0: every level)"""
        d = c.v["d"]
        w = [If(key_str(d, k, col) != lit("-----"), HR(key_str(d, k, col)), 0) for col in cols]
        if page_top:
            return z3.Sum(*w) if len(w) > 1 else w[0]
        changed = [Or(k == 0, key_str(d, k - 1, col) != key_str(d, k, col)) for col in cols]
        total = IntVal(0)
        for l in range(len(cols)):
            total = total + If(Or(*changed[:l + 1]), w[l], 0)
        return total

    def chg(self, c, cols, k):
        d = c.v["d"]
        if not cols:
            return z3.BoolVal(True)
        return Or(k == 0, *[key_str(d, k - 1, col) != key_str(d, k, col) for col in cols])

    # ---- handlers ---------------------------------------------------------------------------------------------------------
    @property
    def handlers(self):
        def gsw(I, st, args, kwargs, node):
            site = getattr(node, "lineno", None)
            text = to_z3(norm_str(args[0]))
            font, size = kwargs.get("font"), kwargs.get("font_size")
            row_idx, width_idx = I.lookup(st, "row_idx"), I.lookup(st, "width_idx")
            # C03: the line estimate must use the cell's own font and size (table_attrs describes the displayed columns)
            I.oblige(st, f"C03.lines_at_own_font.font@L{site}", same(font, AT("text_font", row_idx, width_idx)), "post", site)
            I.oblige(st, f"C03.lines_at_own_font.size@L{site}", same(size, AT("text_font_size", row_idx, width_idx)), "post", site)
            from pyvc import ops
            f = font.payload if isinstance(font, Opt) else font
            s_ = size.payload if isinstance(size, Opt) else size
            w = W(text, to_z3(f) if not z3.is_expr(f) or z3.is_int(f) else z3.ToInt(f), ops.to_real(s_))
            st.assume(w >= 0)
            return w

        def new_bv(I, st, cv, args, kwargs, node):
            return st.alloc(RecObj("BroadcastValue", {"value": kwargs.get("value"), "dimension": kwargs.get("dimension")}, pyclass=cv.pyclass))
        return {"get_string_width": gsw, "pl.DataFrame": pl_DataFrame_from_rows, "new:BroadcastValue": new_bv}

    @property
    def summaries(self):
        def header_rows(I, st, args, kwargs, node):
            # unit HeaderRows: a function of the heading text (table width and font size are fixed within one call of the carrier), at least 1
            t = to_z3(norm_str(args[1]))
            st.assume(HR(t) >= 1)
            return HR(t)

        def iloc(I, st, args, kwargs, node):
            bv = st.obj(args[0])
            val = bv.fields["value"]
            if not isinstance(val, AttrVal):
                raise OutOfSubset("BroadcastValue.iloc on a value that is not an attribute of table_attrs")
            return AT(val.name, args[1], args[2])

        def assign_pages(I, st, args, kwargs, node):
            site = getattr(node, "lineno", None)
            meta = st.obj(args[1])
            k = z3.Int("ak")
            I.oblige(st, f"call._assign_pages#pre.heights_pos@L{site}", ForAll([k], Implies(And(0 <= k, k < meta.n), Select(meta.cols["total_rows"], k) >= 1)), "pre", site)
            I.oblige(st, f"call._assign_pages#pre.page_top_headings_cover_group_start_headings@L{site}",
                     ForAll([k], Implies(And(0 <= k, k < meta.n), Select(meta.cols["continuation_header_rows"], k) >= Select(meta.cols["pageby_header_rows"], k))), "pre", site)
            cols = dict(meta.cols)
            cols["page"] = z3.Array(fresh_name("assigned.page"), z3.IntSort(), z3.IntSort())
            st.ghost["assign_args"] = (args[2], args[3])
            return st.alloc(FrameObj(meta.n, cols, fresh=True))
        return {"PageBreakCalculator._calculate_header_rows": header_rows, "BroadcastValue.iloc": iloc, "PageBreakCalculator._assign_pages": assign_pages}

    # ---- loops ------------------------------------------------------------------------------------------------------------------
    def setup_loops(self, c):
        d, pb, sb = c.v["d"], c.v["pb"], c.v["sb"]
        n = d.n

        def changes_inv(var, cols):
            def inv(v):
                lst = v.obj(getattr(v, var))
                ln, g = safe_view(v.state, lst, z3.BoolVal(True))
                idx = v.i + 1
                k = z3.Int("k")
                return {"length": ln == n, "first_row_starts_a_group": Implies(n > 0, to_z3(g(IntVal(0))) == True),
                        "changes_so_far": ForAll([k], Implies(And(1 <= k, k < idx, k < n), to_z3(g(k)) == self.chg(c, cols, k)))}
            return inv

        def before_rows(I, st):
            cols = {nm: z3.Array(fresh_name(f"meta.{nm}"), z3.IntSort(), so) for nm, so in META_COLS.items()}
            st.env["row_metadata_list"] = st.alloc(FrameObj(IntVal(0), cols, fresh=True))

        def havoc_rows(I, st, name, ref):
            o = st.obj(ref)
            o.n = z3.Int(fresh_name("meta.n"))
            o.cols = {nm: z3.Array(fresh_name(f"meta.{nm}"), z3.IntSort(), so) for nm, so in META_COLS.items()}
            return ref

        def rows_inv(v):
            fr = v.obj(v.row_metadata_list)
            cols = fr.cols
            k = z3.Int("k")
            cl = {"one_record_per_row": fr.n == v.i}
            lc = z3.Int("lc")
            parts = {
                "row_index": lambda k: Select(cols["row_index"], k) == k,
                "data_rows_at_least_one": lambda k: Select(cols["data_rows"], k) >= 1,
                "data_rows_cover_cells": lambda k: ForAll([lc], Implies(And(0 <= lc, lc < d.w, Not(c.v["REMOVED"](lc))),
                                                                        Select(cols["data_rows"], k) >= self.lines_needed(c, k, lc))),
                "heading_rows_nonneg": lambda k: And(Select(cols["pageby_header_rows"], k) >= 0, Select(cols["subline_header_rows"], k) >= 0),
                # the subline heading is reserved once per page by calculate_additional_rows_per_page: it must not be added per row again
                "total_is_data_plus_page_by_headings": lambda k: Select(cols["total_rows"], k) == Select(cols["data_rows"], k) + Select(cols["pageby_header_rows"], k),
                "subline_rows_only_at_subline_starts": lambda k: Implies(Select(cols["subline_header_rows"], k) > 0, self.chg(c, sb, k) if sb else z3.BoolVal(False)),
                "group_start_flag": lambda k: Select(cols["is_group_start"], k) == (self.chg(c, pb, k) if pb else z3.BoolVal(False)),
                "subline_start_flag": lambda k: Select(cols["is_subline_start"], k) == (self.chg(c, sb, k) if sb else z3.BoolVal(False)),
                "heading_rows_only_at_group_starts": lambda k: Implies(Select(cols["pageby_header_rows"], k) > 0, self.chg(c, pb, k) if pb else z3.BoolVal(False)),
                "page_unassigned": lambda k: Select(cols["page"], k) == 0,
            }
            if pb:
                # C05: a group whose page_by values are all the divider '-----' has no heading, so it must not cost a row
                parts["C05.divider_only_group_costs_no_heading_row"] = lambda k: Implies(And(*[key_str(d, k, col) == lit("-----") for col in pb]),
                                                                                           Select(cols["pageby_header_rows"], k) == 0)
            if pb:
                # C03: the renderer shows ONE heading row per page_by level from the first level that changed downwards (dividers
                # excluded); the budget of a group-start row has to cover all of them
                parts["C03.heading_budget_covers_every_heading_row_rendered_at_a_group_start"] = \
                    lambda k: Select(cols["pageby_header_rows"], k) >= self.rendered_heading_rows(c, pb, k)
                # ... and at the top of a page every non-divider level is shown again (render step 7): continuation_header_rows covers them
                parts["C03.page_top_heading_rows_cover_every_level_shown_at_a_page_top"] = \
                    lambda k: Select(cols["continuation_header_rows"], k) >= z3.Sum(*[If(key_str(d, k, col) != lit("-----"), 1, 0) for col in pb]) \
                    if len(pb) > 1 else Select(cols["continuation_header_rows"], k) >= If(key_str(d, k, pb[0]) != lit("-----"), 1, 0)
                parts["page_top_headings_cover_group_start_headings"] = lambda k: Select(cols["continuation_header_rows"], k) >= Select(cols["pageby_header_rows"], k)
                # C04 / C05 (no needless break, a divider costs nothing): the budgets are EXACTLY the heading rows of the levels shown - every
                # non-divider level at a page top; at a group start the non-divider levels from the first changed level downwards; nothing else
                parts["C04.page_top_heading_budget_is_exactly_the_non_divider_levels"] = \
                    lambda k: Select(cols["continuation_header_rows"], k) == self.weighted_heading_rows(c, pb, k, page_top=True)
                parts["C04.group_start_heading_budget_is_exactly_the_changed_levels_downwards"] = \
                    lambda k: Select(cols["pageby_header_rows"], k) == self.weighted_heading_rows(c, pb, k, page_top=False)
            else:
                parts["no_page_by_no_page_top_headings"] = lambda k: And(Select(cols["continuation_header_rows"], k) == 0, Select(cols["pageby_header_rows"], k) == 0)
            for nm, f in parts.items():
                cl["records." + nm] = ForAll([k], Implies(And(0 <= k, k < v.i), f(k)))
            return cl

        REMOVED, DISP = c.v["REMOVED"], c.v["DISP"]

        def cols_inv(v):
            cc = z3.Int("cc")
            r = v.state.env["row_idx"]
            return {"max_lines_at_least_one": v.max_lines_in_row >= 1,
                    "row": And(0 <= to_z3(r), to_z3(r) < d.n),
                    "width_idx_counts_displayed_columns": v.width_idx == DISP(v.i),
                    "max_lines_covers_measured_cells": ForAll([cc], Implies(And(0 <= cc, cc < v.i, Not(REMOVED(cc))), v.max_lines_in_row >= self.lines_needed(c, to_z3(r), cc)))}
        loops = {4: LoopSpec(inv=rows_inv, before=before_rows, havoc={"row_metadata_list": havoc_rows}),
                 5: LoopSpec(inv=cols_inv)}
        if pb:
            loops[0] = LoopSpec(inv=changes_inv("page_by_changes", pb), havoc={"page_by_changes": T.List(T.Bool)})
        if sb:
            loops[2] = LoopSpec(inv=changes_inv("subline_by_changes", sb), havoc={"subline_by_changes": T.List(T.Bool)})
        self.loops = loops
        self.loops_optional = {0, 2}

    def ensures(self, c, out):
        d, pb, sb = c.v["d"], c.v["pb"], c.v["sb"]
        fr = out.state.obj(out.value)
        cols = fr.cols
        k = z3.Int("k")
        inr = And(0 <= k, k < d.n)
        sel = lambda nm: Select(cols[nm], k)
        add, newp = out.state.ghost.get("assign_args", (None, None))
        return {"one_record_per_row": fr.n == d.n,
                "row_index_identity": ForAll([k], Implies(inr, sel("row_index") == k)),
                "C04.group_start_iff_page_by_key_changes": ForAll([k], Implies(inr, sel("is_group_start") == (self.chg(c, pb, k) if pb else z3.BoolVal(False)))),
                "C04.subline_start_iff_subline_key_changes": ForAll([k], Implies(inr, sel("is_subline_start") == (self.chg(c, sb, k) if sb else z3.BoolVal(False)))),
                "C03.data_rows_at_least_one": ForAll([k], Implies(inr, sel("data_rows") >= 1)),
                "C03.data_rows_cover_every_displayed_cell_at_its_own_font": ForAll([k, z3.Int("lc")], Implies(And(inr, 0 <= z3.Int("lc"), z3.Int("lc") < d.w, Not(c.v["REMOVED"](z3.Int("lc")))),
                                                                                                       sel("data_rows") >= self.lines_needed(c, k, z3.Int("lc")))),
                "C04.required.no_double_reservation(total=data+page_by_headings)": ForAll([k], Implies(inr, sel("total_rows") == sel("data_rows") + sel("pageby_header_rows"))),
                "C05.heading_rows_budgeted_only_at_group_starts": ForAll([k], Implies(And(inr, sel("pageby_header_rows") > 0), self.chg(c, pb, k) if pb else z3.BoolVal(False))),
                "C04.reservation_and_new_page_forwarded_to_assign_pages": And(to_z3(add) == c.v["additional_rows_per_page"], to_z3(newp) == c.v["new_page"]) if add is not None else z3.BoolVal(False)}


UNITS.append(RowMetadata())


def disp_lemma(index):
    D = z3.Function("D", z3.IntSort(), z3.IntSort())
    rem = z3.Function("rem", z3.IntSort(), z3.BoolSort())
    w, a, b, j = z3.Ints("w a b j")
    defs = [D(0) == 0, ForAll([j], Implies(And(0 <= j, j < w), D(j + 1) == D(j) + If(rem(j), 0, 1)))]
    goal = lambda x, y: And(D(x) <= D(y), D(y) - D(x) <= y - x)
    return [("base", defs + [0 <= a, a <= w], goal(a, a)), ("step", defs + [0 <= a, a <= b, b < w, goal(a, b)], goal(a, b + 1))]


def lines_lemma(index):
    """int(x) + 1 >= ceil(x) for x >= 0 (real arithmetic): the code's estimate is at least the number of lines the cell needs."""
    x = z3.Real("x")
    fl = z3.ToInt(x)
    ceil = If(z3.ToReal(fl) == x, fl, fl + 1)
    return [("int_plus_one_covers_ceiling", [x >= 0], fl + 1 >= ceil)]


def budget_lemma(index):
    """C03 composition for the data part of a page: A1's budget (sum of total_rows <= max(1, nrow - add) or a single row) with
    add = rows reserved for the repeating components gives sum + add <= nrow whenever nrow - add >= 1."""
    s, add, nrow = z3.Ints("s add nrow")
    avail = If(nrow - add >= 1, nrow - add, 1)
    return [("page_rows_plus_reserved_within_nrow", [s <= avail, nrow - add >= 1, add >= 0], s + add <= nrow)]


LEMMAS = [LemmaUnit("displayed_count_monotone", disp_lemma), LemmaUnit("line_estimate_covers_ceiling", lines_lemma), LemmaUnit("budget_composition", budget_lemma)]


class HeaderRows(Contract):
    """PageBreakCalculator._calculate_header_rows(text, total_width, font, font_size): at least one row and at least the number of lines the
    heading text needs on the table width (ceil(W / total_width), W the string width at the given font and size) - the fact RowMetadata uses
    for the heading budget (C03)."""
    target = "pagination/core.py::PageBreakCalculator._calculate_header_rows"
    serves = ["C03"]
    models = [StrModel()]

    def setup(self, c):
        cls = c.cls("rtflite.pagination.core", "PageBreakCalculator")
        c.bind("self", c.alloc(RecObj("PageBreakCalculator", {}, pyclass=cls, fresh=False)))
        c.param("header_text", T.Str)
        tw = c.param("total_width", T.Real)
        c.requires("table_width_positive", tw > 0)
        c.param("font", T.Int)
        c.param("font_size", T.Int)
        self._v = c.v

    @property
    def handlers(self):
        def gsw(I, st, args, kwargs, node):
            site = getattr(node, "lineno", None)
            v = self._v
            I.oblige(st, f"C03.heading_measured_at_the_given_font_and_size@L{site}",
                     And(to_z3(norm_str(args[0])) == to_z3(v["header_text"]), to_z3(kwargs.get("font")) == to_z3(v["font"]), to_z3(kwargs.get("font_size")) == to_z3(v["font_size"])),
                     "post", site)
            w = z3.Real("heading_text_width")
            st.assume(w >= 0)
            return w
        return {"get_string_width": gsw}

    def ensures(self, c, out):
        w, tw = z3.Real("heading_text_width"), c.v["total_width"]
        r = to_z3(out.value)
        return {"C03.at_least_one_row": r >= 1,
                "C03.covers_the_lines_the_heading_needs_on_the_table_width": z3.ToReal(r) * tw >= w}


UNITS.append(HeaderRows())
