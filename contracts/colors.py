"""Contracts for services/color_service.py (DESIGN A17): C12."""
import z3
from z3 import And, Or, Not, Implies, ForAll, Exists, If, IntVal

from pyvc.contract import Contract
from pyvc.interp import LoopSpec
from pyvc import types as T
from pyvc.units import LemmaUnit, TableUnit
from pyvc.values import RecObj, ListObj, Ref, Opt, Tok, Rope, StrSort, lit, rope_of, norm_str, str_cat
from pyvc.libmodels.tables import BigTableModel
from pyvc.libmodels.listfuns import ListFunModel, filt_terms, sorted_term
from pyvc.libmodels.strings import StrModel
from pyvc.libmodels.bytesmodel import BytesModel
from pyvc.seqs import as_symlist
from pyvc.values import to_z3


def zs(x):
    return to_z3(norm_str(x))

MASTER = z3.Function("tbl_name_to_type", StrSort, z3.IntSort())
RTF = z3.Function("tbl_name_to_rtf", StrSort, StrSort)
VALID = z3.Function("in_name_to_type", StrSort, z3.BoolSort())
VALID_RTF = z3.Function("in_name_to_rtf", StrSort, z3.BoolSort())
PRED = "_x and _x != 'black'"
LISTFUNS = ListFunModel(keys={"self._name_to_type[x]": ("master", MASTER)})


def sorted_used(A, n):
    F, m = filt_terms(PRED, A, n)
    return sorted_term("master", F, m), m


def spec_axioms(c, A, n):
    """Defining axioms of the spec function sorted_used(U) (same facts the list-function models assume at the program
    points): the filter keeps exactly the non-empty non-black names."""
    F, m = filt_terms(PRED, A, n)
    k, j = z3.Ints("sk sj")
    pred = lambda x: And(x != lit(""), x != lit("black"))
    c.requires("spec_filter_def", And(m >= 0, m <= n,
               ForAll([k], Implies(And(0 <= k, k < m), And(pred(F[k]), Exists([j], And(0 <= j, j < n, A[j] == F[k]))))),
               ForAll([j], Implies(And(0 <= j, j < n, pred(A[j])), Exists([k], And(0 <= k, k < m, F[k] == A[j]))))))


def _service(c, ctx_colors=None):
    mod = c.ctx.index.real_module("rtflite.dictionary.color_table")
    cs = c.cls("rtflite.services.color_service", "ColorService")
    fields = {
        "_name_to_type": c.ctx.convert_global(c.st, mod.name_to_type, "color_table._name_to_type"),
        "_name_to_rtf": c.ctx.convert_global(c.st, mod.name_to_rtf, "color_table._name_to_rtf"),
        "_current_document_colors": ctx_colors,
    }
    x = z3.Const("x", StrSort)
    # both tables have the same key set (TableUnit color_tables_consistent checks the real tables exhaustively)
    c.requires("tables_same_keys", ForAll([x], VALID(x) == VALID_RTF(x)))
    return c.alloc(RecObj("ColorService", fields, pyclass=cs, fresh=False, origin="GLOBAL"))


def validate_color_list_summary(I, st, args, kwargs, node):
    """Contract of ColorService.validate_color_list on a list: raises ColorValidationError iff some element is not a
    known colour; otherwise returns a list with the same elements in the same order."""
    lst = args[1]
    o = st.obj(lst)
    n, g = as_symlist(st, o)
    k = z3.Int("vk")
    I.check(st, ForAll([k], Implies(And(0 <= k, k < n), VALID(g(k)))), "ColorValidationError", "validate_color_list.all_valid",
            getattr(node, "lineno", None))
    return lst


class GetRtfColorIndex(Contract):
    """get_rtf_color_index: 0 for ''/black; position+1 in sorted(filter(used)) when present; 0 when absent (C12)."""
    target = "services/color_service.py::ColorService.get_rtf_color_index"
    serves = ["C12"]
    models = [BigTableModel(), LISTFUNS]
    summaries = {"ColorService.validate_color_list": validate_color_list_summary}
    raises = {"ColorValidationError": lambda c, out: {}}
    variants = ["explicit", "context"]

    def setup(self, c):
        used = c.fresh("used", T.List(T.Str))
        c.param("color", T.Str)
        if c.variant == "explicit":
            c.bind("self", _service(c, None))
            c.bind("used_colors", used)
        else:
            c.bind("self", _service(c, used))
            c.bind("used_colors", None)
        uo = c.obj(used)
        c.v.update(A=uo.arr, n=uo.length)
        spec_axioms(c, uo.arr, uo.length)

    def ensures(self, c, out):
        col, A, n = c.v["color"], c.v["A"], c.v["n"]
        S, m = sorted_used(A, n)
        r = out.value
        r = r if z3.is_expr(r) else IntVal(r)
        j = z3.Int("j")
        present = Exists([j], And(0 <= j, j < m, S[j] == col))
        default = Or(col == lit(""), col == lit("black"))
        return {"default_is_zero": Implies(default, r == 0),
                "present_gives_position": Implies(And(Not(default), present), And(1 <= r, r <= m, S[r - 1] == col)),
                "absent_gives_zero": Implies(And(Not(default), Not(present)), r == 0)}


class GenerateColorTable(Contract):
    """generate_rtf_color_table(used): '' iff no non-default colour; else `{\\colortbl;` + entry k+1 = rtf(S[k]) + `}`."""
    target = "services/color_service.py::ColorService.generate_rtf_color_table"
    serves = ["C12", "C01"]
    models = [BigTableModel(), LISTFUNS, BytesModel()]
    summaries = {"ColorService.validate_color_list": validate_color_list_summary}
    raises = {"ColorValidationError": lambda c, out: {}}

    def setup(self, c):
        used = c.param("used_colors", T.List(T.Str))
        c.bind("self", _service(c, None))
        uo = c.obj(used)
        c.v.update(A=uo.arr, n=uo.length)
        spec_axioms(c, uo.arr, uo.length)

    def setup_loops(self, c):
        A, n = c.v["A"], c.v["n"]
        S, m = sorted_used(A, n)

        def inv(v):
            parts = v.obj(v.rtf_parts)
            L, g = as_symlist(v.state, parts)
            k = z3.Int("k")
            return {"len": L == v.i + 1,
                    "head": zs(g(IntVal(0))) == lit("{\\colortbl;"),
                    "entries": ForAll([k], Implies(And(0 <= k, k < v.i), zs(g(k + 1)) == str_cat(lit("\n"), RTF(S[k]))))}
        # loops: 0 = needs_color_table comprehension (inlined: keyed by callee), the for loop over sorted colours is the last one
        self.loops = {2: LoopSpec(inv=inv, havoc={"rtf_parts": T.List(T.Str)})}

    def ensures(self, c, out):
        A, n = c.v["A"], c.v["n"]
        S, m = sorted_used(A, n)
        r = norm_str(out.value)
        if isinstance(r, str):
            return {"empty_iff_no_colour": And(z3.BoolVal(r == ""), m == 0)}
        ps = rope_of(r).pieces
        if not (len(ps) == 1 and isinstance(ps[0], Tok) and ps[0].tag == "JOIN"):
            return {"is_join_of_parts": z3.BoolVal(False)}
        tk = ps[0].fields
        k = z3.Int("k")
        g, L = tk["get"], tk["length"]
        return {"nonempty_iff_colour": m >= 1,
                "joined_without_separator": z3.BoolVal(tk["sep"] == ""),
                "entry_count": L == m + 2,
                "opens_with_default_entry": g(IntVal(0)) == lit("{\\colortbl;"),
                "entry_k_plus_1_is_rtf_of_sorted_k": ForAll([k], Implies(And(0 <= k, k < m), g(k + 1) == str_cat(lit("\n"), RTF(S[k])))),
                "closes_group": g(m + 1) == lit("\n}")}


def c12_lemma(index):
    """Composition: index r >= 1 returned for `col` over U  ==>  entry r of the table generated for U is rtf(col)."""
    A = z3.Array("U", z3.IntSort(), StrSort)
    n, r, k = z3.Ints("n r k")
    col = z3.Const("col", StrSort)
    S, m = sorted_used(A, n)
    entry = z3.Function("table_entry", z3.IntSort(), StrSort)
    hyps = [And(1 <= r, r <= m, S[r - 1] == col),                                                   # GetRtfColorIndex.present_gives_position
            ForAll([k], Implies(And(0 <= k, k < m), entry(k + 1) == str_cat(lit("\n"), RTF(S[k]))))]  # GenerateColorTable.entry_k_plus_1...
    return [("index_resolves_to_requested_rgb", hyps, entry(r) == str_cat(lit("\n"), RTF(col)))]


def color_tables_consistent(index):
    mod = index.real_module("rtflite.dictionary.color_table")
    t, rtf, rgb = mod.name_to_type, mod.name_to_rtf, mod.name_to_rgb
    yield ("same_key_sets", set(t) == set(rtf) == set(rgb), {"sizes": [len(t), len(rtf), len(rgb)]})
    yield ("master_index_injective", len(set(t.values())) == len(t), {})
    bad = [k for k in t if rtf[k] != "\\red%d\\green%d\\blue%d;" % tuple(rgb[k])]
    yield ("rtf_code_matches_rgb", not bad, {"first_bad": bad[:3]})
    yield ("black_and_empty_are_default", "black" in t and "" not in t, {})


UNITS = [GetRtfColorIndex(), GenerateColorTable()]
LEMMAS = [LemmaUnit("c12_index_resolves", c12_lemma)]
TABLES = [TableUnit("color_tables_consistent", color_tables_consistent)]


# ---- collect_document_colors: every colour-bearing field of every component class is collected (coverage scan on the real AST) ------
def collected_colour_fields(index):
    """(component group -> set of attribute names) read by the real collect_document_colors: `body.<attr>` for bodies,
    getattr(component, '<attr>') for the six text components (a shared loop), getattr(header, '<attr>') for column headers."""
    import ast
    fn = index.find_function("rtflite.services.color_service", "ColorService.collect_document_colors")
    out = {"body": set(), "component": set(), "header": set()}
    # names bound to a literal tuple / list of strings inside the function (e.g. border_color_attrs = ("border_color_left", ...))
    consts = {}
    for n in ast.walk(fn):
        if isinstance(n, ast.Assign) and len(n.targets) == 1 and isinstance(n.targets[0], ast.Name) and isinstance(n.value, (ast.Tuple, ast.List)) \
                and all(isinstance(e, ast.Constant) and isinstance(e.value, str) for e in n.value.elts):
            consts[n.targets[0].id] = [e.value for e in n.value.elts]

    def names_of(arg, loops):
        """attribute names an expression can denote: a string constant, or a loop variable ranging over a literal sequence"""
        if isinstance(arg, ast.Constant) and isinstance(arg.value, str):
            return [arg.value]
        if isinstance(arg, ast.Name) and arg.id in loops:
            return loops[arg.id]
        return []

    def visit(node, loops):
        if isinstance(node, ast.For) and isinstance(node.target, ast.Name):
            it = node.iter
            vals = None
            if isinstance(it, (ast.Tuple, ast.List)) and all(isinstance(e, ast.Constant) and isinstance(e.value, str) for e in it.elts):
                vals = [e.value for e in it.elts]
            elif isinstance(it, ast.Name) and it.id in consts:
                vals = consts[it.id]
            inner = dict(loops)
            if vals is not None:
                inner[node.target.id] = vals
            for ch in node.body + node.orelse:
                visit(ch, inner)
            return
        if isinstance(node, ast.Call) and isinstance(node.func, ast.Name) and node.func.id == "extract_colors_from_attribute" and node.args:
            a = node.args[0]
            if isinstance(a, ast.Attribute) and isinstance(a.value, ast.Name) and a.value.id == "body":
                out["body"].add(a.attr)
            elif isinstance(a, ast.Call) and isinstance(a.func, ast.Name) and a.func.id == "getattr" and len(a.args) >= 2 and isinstance(a.args[0], ast.Name):
                if a.args[0].id in out:
                    out[a.args[0].id].update(names_of(a.args[1], loops))
        for ch in ast.iter_child_nodes(node):
            visit(ch, loops)
    visit(fn, {})
    # which objects the shared component loop ranges over
    comps = set()
    for n in ast.walk(fn):
        if isinstance(n, ast.Assign) and len(n.targets) == 1 and isinstance(n.targets[0], ast.Name) and n.targets[0].id == "components" \
                and isinstance(n.value, ast.List):
            for e in n.value.elts:
                if isinstance(e, ast.Attribute):
                    comps.add(e.attr)
    return out, comps


def colour_collection_table(index):
    """One obligation per (component class, colour-bearing field of the real pydantic model): the collector reads it."""
    inp = index.real_module("rtflite.input")
    got, comps = collected_colour_fields(index)
    classes = {"RTFBody": ("body", None), "RTFColumnHeader": ("header", None), "RTFTitle": ("component", "rtf_title"),
               "RTFSubline": ("component", "rtf_subline"), "RTFFootnote": ("component", "rtf_footnote"), "RTFSource": ("component", "rtf_source"),
               "RTFPageHeader": ("component", "rtf_page_header"), "RTFPageFooter": ("component", "rtf_page_footer")}
    for cname, (group, docfield) in classes.items():
        cls = getattr(inp, cname)
        if docfield is not None:
            yield f"{cname}.is_visited_by_the_component_loop", docfield in comps, f"document.{docfield} in the `components` list: {sorted(comps)}"
        for f in cls.model_fields:
            if "color" in f:
                yield f"{cname}.{f}.is_collected", f in got[group], f"{group} attributes collected: {sorted(got[group])}"


from pyvc.units import TableUnit
TABLES = list(globals().get("TABLES", [])) + [TableUnit("colour_collection_covers_every_colour_field", colour_collection_table)]


# ---- font table: a function without inputs, evaluated once on the real code (complete: there is nothing to quantify over) ----------
def font_table_facts(index):
    import re
    syn = index.real_module("rtflite.rtf.syntax").RTFSyntaxGenerator
    row = index.real_module("rtflite.row")
    s = syn.generate_font_table()
    ft = row.Utils._font_type()
    from contracts.readback import check_lexical
    depth, low = 0, 0
    for ch in s:
        depth += (ch == "{") - (ch == "}")
        low = min(low, depth)
    yield "font_table_is_one_balanced_ascii_group", depth == 0 and low >= 0 and s.startswith("{\\fonttbl") and all(ord(c) < 128 for c in s), s[:60]
    entries = re.findall(r"\{\\f(\d+)([^{};]*?) ([^{};]+);\}", s)
    nums = [int(e[0]) for e in entries]
    yield "entries_are_f0_to_f9_once_each_in_order", nums == list(range(10)), str(nums)
    types = list(ft["type"])
    yield "font_numbers_accepted_at_construction_are_1_to_10", types == list(range(1, 11)), str(types)
    for k, (num, _, name) in enumerate(entries):
        want = ft["name"][k] if k < len(ft["name"]) else None
        yield f"entry_f{k}_is_the_font_requested_as_number_{k + 1}", name == want, f"table names {name!r}, font {k + 1} is {want!r}"


TABLES = TABLES + [TableUnit("font_table", font_table_facts)]


# ---- document colour context: established once per encode, for the user's document (frame scan on the real AST) ---------------------------
def colour_context_sites(index):
    """Reachable call sites of set_document_context / clear_document_context and stores to the context outside color_service.py.
    Statements after a return / raise in the same block are unreachable and not counted."""
    import ast, os
    sites = []
    root = os.path.join(index.src, "rtflite") if hasattr(index, "src") and not index.src.endswith("rtflite") else index.src
    for dirpath, _, files in os.walk(root):
        for fn in files:
            if not fn.endswith(".py"):
                continue
            path = os.path.join(dirpath, fn)
            rel = os.path.relpath(path, root)
            if rel == os.path.join("services", "color_service.py"):
                continue
            tree = ast.parse(open(path, encoding="utf-8").read())

            def visit_block(stmts, owner):
                for s in stmts:
                    if isinstance(s, (ast.FunctionDef, ast.AsyncFunctionDef)):
                        visit_block(s.body, (owner + "." if owner else "") + s.name)
                        continue
                    if isinstance(s, ast.ClassDef):
                        visit_block(s.body, (owner + "." if owner else "") + s.name)
                        continue
                    for sub in ("body", "orelse", "finalbody"):
                        blk = getattr(s, sub, None)
                        if isinstance(blk, list) and blk and isinstance(blk[0], ast.stmt):
                            visit_block(blk, owner)
                    for h in getattr(s, "handlers", []) or []:
                        visit_block(h.body, owner)
                    # expressions of this statement itself (not of nested blocks)
                    shallow = [n for n in ast.iter_child_nodes(s) if not isinstance(n, ast.stmt) and not isinstance(n, ast.ExceptHandler)]
                    for top in shallow:
                        for n in ast.walk(top):
                            if isinstance(n, ast.Call) and isinstance(n.func, ast.Attribute) and n.func.attr in ("set_document_context", "clear_document_context"):
                                sites.append((rel, owner, n.func.attr, s.lineno))
                            if isinstance(n, ast.Attribute) and n.attr in ("_current_document_colors", "_DOCUMENT_COLORS") and isinstance(getattr(n, "ctx", None), ast.Store):
                                sites.append((rel, owner, "store:" + n.attr, s.lineno))
                            if isinstance(n, ast.Name) and n.id == "_DOCUMENT_COLORS":
                                sites.append((rel, owner, "use:_DOCUMENT_COLORS", s.lineno))
                    if isinstance(s, (ast.Return, ast.Raise)):
                        break
            visit_block(tree.body, "")
    return sites


def colour_context_table(index):
    sites = colour_context_sites(index)
    enc = os_join = None
    allowed_owner = "UnifiedRTFEncoder.encode"
    foreign = [s for s in sites if not (s[0].replace("\\", "/") == "encoding/unified_encoder.py" and s[1] == allowed_owner)]
    own = [s for s in sites if s not in foreign]
    yield ("C12.document_colour_context_is_established_only_by_encode_for_its_document", not foreign,
           {"foreign_sites": [list(s) for s in foreign[:6]], "input": {"site": list(foreign[0])} if foreign else None})
    yield ("C12.encode_sets_the_context_once_and_clears_it_once", sorted(s[2] for s in own) == ["clear_document_context", "set_document_context"],
           {"sites": [list(s) for s in own]})


TABLES = TABLES + [TableUnit("colour_context_frame", colour_context_table)]
