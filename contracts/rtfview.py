"""Token view helpers over built strings (Ropes): control words and their parameters (DESIGN 1.5)."""
import re
import z3
from pyvc.values import Rope, Dec, Fmt, Chr, Tok, rope_of

_CW = re.compile(r"\\([a-zA-Z]+)$")


def ctl_params(r):
    """[(control word, parameter piece)] for every control word that is directly followed by a non-literal piece,
    plus literal parameters `\\word123`."""
    out = []
    pieces = rope_of(r).pieces
    for i, p in enumerate(pieces):
        if isinstance(p, str):
            for m in re.finditer(r"\\([a-zA-Z]+)(-?\d+)", p):
                out.append((m.group(1), int(m.group(2))))
            m = _CW.search(p)
            if m and i + 1 < len(pieces) and not isinstance(pieces[i + 1], str):
                out.append((m.group(1), pieces[i + 1]))
    return out


def param(r, word, nth=0):
    vals = [v for w, v in ctl_params(r) if w == word]
    if len(vals) <= nth:
        return None
    return vals[nth]


def param_int(r, word, nth=0):
    """z3 Int term of the numeric parameter of `word`, or None if absent / not an integer rendering."""
    v = param(r, word, nth)
    if v is None:
        return None
    if isinstance(v, int):
        return z3.IntVal(v)
    if isinstance(v, Dec):
        return v.n
    return None


def all_params_integral(r):
    """Lexical validity: every non-literal piece that follows a control word renders an integer."""
    from pyvc.values import Fmt
    return not any(isinstance(v, Fmt) for _, v in ctl_params(r)) and not any(isinstance(p, Fmt) for p in rope_of(r).pieces)


def literal_text(r):
    return "".join(p if isinstance(p, str) else "\x00" for p in rope_of(r).pieces)
