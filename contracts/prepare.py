"""services/encoding_service.py::RTFEncodingService.prepare_dataframe_for_body_encoding: column removal for subline_by / page_by
(C02 rows and column order kept, C08 relative widths of the displayed columns, C09 list attributes re-indexed by the ORIGINAL column,
C14 the caller's attribute object is not written)."""
import ast

import z3
from z3 import And, Or, Not, Implies, ForAll, Exists, If, IntVal

from pyvc.contract import Contract
from pyvc.interp import LoopSpec
from pyvc import types as T
from pyvc.values import ListObj, MatrixObj, RowView, RecObj, Ref, Opt, SetObj, lit, to_z3, norm_str, StrSort, ValSort, fresh_name
from pyvc.state import OutOfSubset
from pyvc.seqs import as_symlist, safe_view, seq_view, EnumVal
from pyvc.libmodels.polars_model import PolarsModel, DfObj, fresh_df
from pyvc.libmodels.strings import StrModel

from contracts.attributes import to_list_summary
from contracts.processor import h_deepcopy

NI = NotImplemented


class KeptModel:
    """Assumed stdlib / polars contracts used by this unit, stated over the contract's REMOVED predicate:
    * a list comprehension with a filter keeps exactly the elements whose predicate holds, in their original order: with
      KEPT(k) = the k-th index (increasing) that is not removed, the result is [xs[KEPT(k)] for k < M];
    * [columns.index(c) for c in names] over a set of existing, unique column names is the set of their positions;
    * DataFrame.select(names) keeps all rows and exactly the named columns in the listed order."""
    assumed = ["list comprehension with a filter = the satisfying elements in their original order (KEPT enumeration)",
               "polars column names are unique, so columns.index(name) is the position of that name",
               "polars DataFrame.select(names): all rows, the named columns in the listed order"]

    def __init__(self, contract):
        self.k = contract

    # -- [columns.index(col) for col in <symbolic set>] -----------------------------------------------------------------------------
    def set_comprehension(self, I, st, e, first):
        v = self.k._v
        if ast.unparse(e.elt) != "original_df.columns.index(col)":
            return NI
        I.ctx.assume_lib(self.assumed[1])
        so = st.obj(first)
        d = v["d"]
        site = e.lineno
        nm = z3.Const(fresh_name("name"), StrSort)
        jj = z3.Int(fresh_name("j"))
        # list.index raises ValueError for a name that is not a column (construction validates the key lists: a requires of this unit)
        I.oblige(st, f"safety.removed_names_are_columns@L{site}",
                 ForAll([nm], Implies(so.member(nm), Exists([jj], And(0 <= jj, jj < d.w, d.colname(jj) == nm)))), "safety", site)
        bag = ListObj(length=z3.Int(fresh_name("n_removed")), get=lambda j: z3.Int(fresh_name("removed_index")), fresh=True)
        bag.member_override = lambda x, so=so, d=d: And(0 <= to_z3(x), to_z3(x) < d.w, so.member(d.colname(to_z3(x))))
        return st.alloc(bag)

    def contains(self, I, st, container, x, node):
        if isinstance(container, Ref):
            o = st.obj(container)
            if isinstance(o, ListObj) and getattr(o, "member_override", None) is not None:
                return o.member_override(x)
        return NI

    def list_sort(self, I, st, ref, o, kwargs, node):
        if getattr(o, "member_override", None) is not None:
            return None                      # sorting does not change membership, and only membership of this list is ever used
        return NI

    # -- filters ---------------------------------------------------------------------------------------------------------------------
    def filter_comprehension(self, I, st, e, first):
        v = self.k._v
        g = e.generators[0]
        site = e.lineno
        W, REMOVED, KEPT, M = v["d"].w, v["REMOVED"], v["KEPT"], v["M"]
        if isinstance(first, EnumVal) and isinstance(g.target, ast.Tuple) and len(g.target.elts) == 2:
            iname, xname = g.target.elts[0].id, g.target.elts[1].id
            inner = first.inner
            if first.start != 0:
                return NI
        elif isinstance(g.target, ast.Name):
            iname, xname, inner = None, g.target.id, first
        else:
            return NI
        if not (isinstance(e.elt, ast.Name) and e.elt.id == xname):
            return NI
        sv = seq_view(st, inner)
        if sv is None:
            return NI
        n, get = sv
        I.ctx.assume_lib(self.assumed[0])
        i = z3.Int(fresh_name("fi"))
        s2 = st.fork()
        s2.env = {"__parent__": s2.env, "__module__": s2.env.get("__module__"), xname: get(i)}
        if iname:
            s2.env[iname] = i
        I.ctx.mute += 1
        try:
            cs = [to_z3(I.eval_cond(s2, c)) for c in g.ifs]
        finally:
            I.ctx.mute -= 1
        keep_i = And(*cs)
        I.oblige(st, f"C02.filtered_list_has_one_entry_per_original_column@L{site}", to_z3(n) == W, "post", site)
        I.oblige(st, f"C02.filter_keeps_exactly_the_displayed_columns@L{site}", ForAll([i], Implies(And(0 <= i, i < W), keep_i == Not(REMOVED(i)))), "post", site)
        return st.alloc(ListObj(length=M, get=lambda k, get=get: get(KEPT(to_z3(k))), fresh=True))

    # -- DataFrame.select ------------------------------------------------------------------------------------------------------------
    def call_method(self, I, st, recv, name, args, kwargs, node):
        if name == "select" and isinstance(recv, Ref) and isinstance(st.heap.get(recv.oid), DfObj):
            v = self.k._v
            d = st.obj(recv)
            I.ctx.assume_lib(self.assumed[2])
            n, g = as_symlist(st, st.obj(args[0]))
            POS = v["COLPOS"]
            nd = DfObj(d.n, to_z3(n), lambda r, c, d=d, g=g: d.cell(r, POS(to_z3(norm_str(g(to_z3(c)))))), lambda j, g=g: to_z3(norm_str(g(to_z3(j)))))
            return st.alloc(nd)
        return NI


class PrepareFrame(Contract):
    """prepare_dataframe_for_body_encoding(df, rtf_attrs).  With REMOVED(i) := column i is a subline_by key, or a page_by key that is
    shown as a heading row (new_page false, or pageby_row other than 'column'), and KEPT(k) the k-th displayed column:
    the reduced frame keeps every row and shows exactly the displayed columns in their original order with their own cells; the
    caller's attribute object is returned unchanged when nothing is removed; otherwise a deep copy is returned whose col_rel_width
    is [w[KEPT(k)]] (when it had one width per original column) and whose list attributes are the rows x displayed-columns grids of
    the broadcast originals, column k taken from ORIGINAL column KEPT(k); the caller's object is never written."""
    target = "services/encoding_service.py::RTFEncodingService.prepare_dataframe_for_body_encoding"
    serves = ["C02", "C08", "C09", "C14"]
    variants = ["nothing", "page_by.rows", "page_by.newpage_column", "page_by.newpage_first_row", "subline", "subline_and_page_by"]
    max_paths = 4000

    def __init__(self):
        super().__init__()
        self.models = [KeptModel(self), PolarsModel(), StrModel()]

    def setup(self, c):
        cls = c.cls("rtflite.services.encoding_service", "RTFEncodingService")
        c.bind("self", c.alloc(RecObj("RTFEncodingService", {}, pyclass=cls, fresh=False)))
        df = fresh_df(c.st, "df")
        d = c.obj(df)
        a, b = z3.Ints("ca cb")
        c.requires("polars_column_names_are_unique", ForAll([a, b], Implies(And(0 <= a, a < b, b < d.w), d.colname(a) != d.colname(b))))
        COLPOS = z3.Function(fresh_name("column_position"), StrSort, z3.IntSort())
        c.requires("column_position_of_a_name", ForAll([a], Implies(And(0 <= a, a < d.w), COLPOS(d.colname(a)) == a)))
        var = c.variant
        sub = c.fresh("subline_by", T.List(T.Str)) if "subline" in var else None
        pb = c.fresh("page_by", T.List(T.Str)) if "page_by" in var else None
        newp = {"page_by.rows": False, "page_by.newpage_column": True, "page_by.newpage_first_row": True}.get(var, c.fresh("new_page", T.Bool) if pb else False)
        pbr = {"page_by.newpage_column": "column", "page_by.newpage_first_row": "first_row"}.get(var, c.fresh("pageby_row", T.Str) if pb else "column")
        nm = z3.Const("nm", StrSort)
        kk = z3.Int("kk")

        def in_list(ref, x):
            n, g = as_symlist(c.st, c.obj(ref))
            return Exists([kk], And(0 <= kk, kk < to_z3(n), to_z3(g(kk)) == x))
        # construction validates the key lists (RTFDocument._validate_section_columns): every key names a column
        for nm_, lst in (("subline_by", sub), ("page_by", pb)):
            if lst is not None:
                c.requires(f"{nm_}_keys_are_columns", ForAll([nm], Implies(in_list(lst, nm), Exists([a], And(0 <= a, a < d.w, d.colname(a) == nm)))))
        pb_removed = z3.BoolVal(False)
        if pb is not None:
            pb_removed = Or(Not(to_z3(newp)), to_z3(norm_str(pbr)) != lit("column")) if not (isinstance(newp, bool) and isinstance(pbr, str)) \
                else z3.BoolVal((not newp) or pbr != "column")
        removed_name = lambda x: Or(in_list(sub, x) if sub is not None else z3.BoolVal(False), And(pb_removed, in_list(pb, x)) if pb is not None else z3.BoolVal(False))
        REMOVED = z3.Function(fresh_name("column_is_removed"), z3.IntSort(), z3.BoolSort())
        c.requires("REMOVED_definition", ForAll([a], Implies(And(0 <= a, a < d.w), REMOVED(a) == removed_name(d.colname(a)))), )
        # KEPT: the increasing enumeration of the displayed columns (mathematical fact about finite sets; part of the filter contract)
        KEPT = z3.Function(fresh_name("kept_column"), z3.IntSort(), z3.IntSort())
        M = z3.Int(fresh_name("n_displayed"))
        c.requires("KEPT_enumerates_the_displayed_columns_in_order",
                   And(M >= 0, M <= d.w,
                       ForAll([a], Implies(And(0 <= a, a < M), And(0 <= KEPT(a), KEPT(a) < d.w, Not(REMOVED(KEPT(a)))))),
                       ForAll([a, b], Implies(And(0 <= a, a < b, b < M), KEPT(a) < KEPT(b))),
                       ForAll([a], Implies(And(0 <= a, a < d.w, Not(REMOVED(a))), Exists([b], And(0 <= b, b < M, KEPT(b) == a))))))
        # attributes: col_rel_width (optional list), one representative list attribute (matrix), a scalar and an unset attribute
        relnone = z3.Bool(fresh_name("col_rel_width_is_none"))
        rel = c.fresh("col_rel_width", T.List(T.Real))
        fmt = c.fresh("text_format", T.Matrix(T.Str))
        body_cls = c.cls("rtflite.input", "RTFBody")
        attrs = c.alloc(RecObj("RTFBody", {"subline_by": sub, "page_by": pb, "new_page": newp, "pageby_row": pbr, "col_rel_width": Opt(relnone, rel),
                                           "text_format": fmt, "text_font_size": c.fresh("text_font_size", T.Real), "text_color": None},
                               pyclass=body_cls, fresh=False, origin="CALLER"))
        real_fields = [n for n, f in (body_cls.pyclass if hasattr(body_cls, "pyclass") else body_cls).model_fields.items() if "list[list[" in str(f.annotation).replace("typing.", "").replace("List", "list")]
        names = [n for n in real_fields if n != "col_rel_width"]
        self._anyfield = z3.Const("any_list_valued_field_name", StrSort)
        c.requires("generic_attribute_is_one_of_the_real_nested_list_fields", Or(*[self._anyfield == lit(n) for n in names]) if names else z3.BoolVal(False))
        c.bind("df", df)
        c.bind("rtf_attrs", attrs)
        fm = c.obj(fmt)
        c.requires("attribute_matrix_nonempty", And(fm.rows >= 1, fm.cols >= 1))
        c.v.update(df=df, d=d, attrs=attrs, sub=sub, pb=pb, REMOVED=REMOVED, KEPT=KEPT, M=M, COLPOS=COLPOS, rel=rel, relnone=relnone, fmt=fmt,
                   fmt_cell=fm.cell, fmt_R=fm.rows, fmt_C=fm.cols, removed_name=removed_name,
                   any_removed=Exists([a], And(0 <= a, a < d.w, REMOVED(a))))

    @property
    def handlers(self):
        def h_type(I, st, args, kwargs, node):
            # representative-field abstraction of type(processed_attrs).model_fields (see DESIGN 0a.2): col_rel_width, one list-valued
            # formatting attribute, one scalar attribute, one unset attribute - every other field is treated by the same loop body
            # The list-valued formatting attribute is enumerated under a SYMBOLIC name (any nested-list-capable field of the real class other than
            # col_rel_width), so code that treats fields differently by their names is followed for every such name.
            return st.alloc(RecObj("ModelClass", {"model_fields": st.alloc(ListObj(items=["col_rel_width", self._anyfield, "text_font_size", "text_color"], fresh=False))}, fresh=False))

        def _named(args):
            nm = norm_str(args[1]) if len(args) > 1 else None
            return z3.is_expr(nm) and nm.eq(self._anyfield)

        def h_getattr(I, st, args, kwargs, node):
            from pyvc.calls import call_builtin
            if _named(args):
                return I.get_attr(st, args[0], "text_format", node)
            return call_builtin(I, st, "getattr", args, kwargs, node)

        def h_setattr(I, st, args, kwargs, node):
            from pyvc.calls import call_builtin
            if _named(args):
                I.set_attr(st, args[0], "text_format", args[2], node)
                return None
            return call_builtin(I, st, "setattr", args, kwargs, node)

        def model_copy(I, st, args, kwargs, node):
            if kwargs.get("deep") is not True:
                raise OutOfSubset("model_copy without deep=True")
            I.ctx.assume_lib("pydantic: model_copy(deep=True) returns a fresh object graph with equal content")
            return h_deepcopy(I, st, [I.lookup(st, "rtf_attrs")], {}, node)

        def new_bv(I, st, cv, args, kwargs, node):
            return st.alloc(RecObj("BroadcastValue", {"value": kwargs.get("value"), "dimension": kwargs.get("dimension")}, pyclass=cv.pyclass))
        return {"type": h_type, "rtf_attrs.model_copy": model_copy, "new:BroadcastValue": new_bv, "getattr": h_getattr, "setattr": h_setattr}

    summaries = {"BroadcastValue.to_list": to_list_summary}

    def setup_loops(self, c):
        self._v = v = c.v
        d, KEPT, M = v["d"], v["KEPT"], v["M"]
        from pyvc.state import lazy_alloc

        def grid_cell(st):
            ex = st.env.get("expanded")
            em = st.obj(ex)
            return em, em.cell

        def inv_rows(vv):
            st = vv._state
            out = vv.obj(vv.sliced_expanded)
            n, g = safe_view(st, out, None)
            em, cell = grid_cell(st)
            cl = {"range": And(0 <= vv.i, vv.i <= em.rows), "one_sliced_row_per_row_so_far": to_z3(n) == vv.i}
            idx = st.ghost.get("__iter_index__")
            if idx is not None and z3.is_expr(vv.i) and z3.simplify(vv.i - 1).eq(z3.simplify(to_z3(idx))):
                # end of the iteration that sliced row i-1: the row just appended is [row[KEPT(k)] for k < M]
                last = g(z3.simplify(vv.i - 1))
                sv = seq_view(st, last) if last is not None else None
                k = z3.Int("k")
                if sv is None:
                    cl["C09.appended_row_is_a_list"] = z3.BoolVal(False)
                else:
                    cl["C09.appended_row_is_the_row_restricted_to_the_displayed_columns"] = And(
                        to_z3(sv[0]) == M, ForAll([k], Implies(And(0 <= k, k < M), to_z3(sv[1](k)) == to_z3(cell(vv.i - 1, KEPT(k))))))
            return cl

        def havoc_rows(I, st, name, ref):
            # the rows sliced so far, in the shape the per-iteration obligation establishes: row r = [grid[r][KEPT(k)] for k < M]
            o = st.obj(ref)
            em, cell = grid_cell(st)
            memo = {}

            def get(r, cell=cell):
                key = str(z3.simplify(to_z3(r)))
                if key not in memo:
                    memo[key] = lazy_alloc(ListObj(length=M, get=lambda k, r=r: cell(to_z3(r), KEPT(to_z3(k))), fresh=True))
                return memo[key]
            o.items, o.length, o.get = None, z3.Int(fresh_name("n_sliced_rows")), get
            return ref
        self.loops = {3: LoopSpec(inv=inv_rows, havoc={"sliced_expanded": havoc_rows})}
        self.loops_optional = {3}

    def ensures(self, c, out):
        v = c.v
        d, KEPT, M, REMOVED = v["d"], v["KEPT"], v["M"], v["REMOVED"]
        res = out.value
        if not (isinstance(res, tuple) and len(res) == 3):
            return {"returns_three_values": z3.BoolVal(False)}
        proc, orig, pattrs = res
        st = out.state
        pd, od = st.obj(proc), st.obj(orig)
        r, k = z3.Ints("r k")
        anyrem = v["any_removed"]
        cl = {"C02.original_frame_is_the_input": And(od.n == d.n, od.w == d.w, ForAll([r, k], od.cell(r, k) == d.cell(r, k))),
              "C02.reduced_frame_keeps_every_row": pd.n == d.n}
        same_attrs = isinstance(pattrs, Ref) and pattrs.oid == v["attrs"].oid
        if same_attrs:
            cl["C02.nothing_removed_frame_unchanged"] = And(Not(anyrem), pd.w == d.w, ForAll([r, k], pd.cell(r, k) == d.cell(r, k)))
        else:
            cl["C14.attributes_returned_after_removal_are_a_private_copy"] = z3.BoolVal(isinstance(pattrs, Ref) and bool(st.obj(pattrs).fresh))
            cl["C02.removal_happens_only_when_a_key_column_is_hidden"] = anyrem
            cl["C02.reduced_frame_shows_exactly_the_displayed_columns_in_order"] = And(
                pd.w == M, ForAll([k], Implies(And(0 <= k, k < M), And(pd.colname(k) == d.colname(KEPT(k)),
                                                                          ForAll([r], pd.cell(r, k) == d.cell(r, KEPT(k)))))))
            pa = st.obj(pattrs)
            w = pa.fields.get("col_rel_width")
            rn, rg = as_symlist(st, st.obj(v["rel"]))
            sliceable = And(Not(v["relnone"]), to_z3(rn) == d.w)          # one width per original column: the case the property speaks about
            if isinstance(w, Ref):
                wn, wg = as_symlist(st, st.obj(w))
                # (branch refinement may have replaced the optional by its list on the path that looked at it)
                cl["C08.one_relative_width_per_displayed_column"] = Implies(sliceable, to_z3(wn) == M)
                cl["C08.relative_width_k_is_that_of_original_column_KEPT_k"] = Implies(sliceable, ForAll([k], Implies(And(0 <= k, k < M), to_z3(wg(k)) == to_z3(rg(KEPT(k))))))
                cl["C08.relative_widths_left_alone_when_not_per_column"] = Implies(Not(sliceable), And(Not(v["relnone"]), to_z3(wn) == to_z3(rn),
                                                                                                      ForAll([k], Implies(And(0 <= k, k < to_z3(rn)), to_z3(wg(k)) == to_z3(rg(k))))))
            elif isinstance(w, Opt):
                # left as it was: only when there was nothing to slice (unset, or not one width per original column)
                cl["C08.relative_widths_left_alone_only_when_not_per_column"] = Not(sliceable)
            elif w is None:
                cl["C08.relative_widths_unset_only_when_unset_before"] = v["relnone"]
            else:
                cl["C08.relative_widths_of_the_displayed_columns"] = z3.BoolVal(False)
            f = pa.fields.get("text_format")
            fo = st.obj(f) if isinstance(f, Ref) else None
            if fo is None or not isinstance(fo, (ListObj, MatrixObj)):
                cl["C09.list_attribute_is_a_grid"] = z3.BoolVal(False)
            elif isinstance(fo, ListObj) and fo.items is not None and len(fo.items) == 0:
                cl["C09.empty_grid_only_for_an_empty_frame"] = d.n == 0
            else:
                fn, fg = seq_view(st, f)
                R0, C0, cell0 = v["fmt_R"], v["fmt_C"], v["fmt_cell"]
                rr = z3.Int("rr")
                r0 = seq_view(st, fg(rr))
                cl["C09.list_attribute_has_one_row_per_frame_row"] = to_z3(fn) == d.n
                if r0 is None:
                    cl["C09.list_attribute_rows_are_lists"] = z3.BoolVal(False)
                else:
                    cl["C09.list_attribute_column_k_comes_from_original_column_KEPT_k"] = ForAll([rr, k], Implies(
                        And(0 <= rr, rr < d.n, 0 <= k, k < M),
                        And(to_z3(r0[0]) == M, to_z3(r0[1](k)) == to_z3(cell0(rr % R0, KEPT(k) % C0)))))
        # the caller's attribute object is untouched
        ca = st.obj(v["attrs"])
        cl["C14.callers_attributes_not_written"] = z3.BoolVal(ca.fields.get("text_format") == v["fmt"] and isinstance(ca.fields.get("col_rel_width"), Opt)
                                                              and ca.fields["col_rel_width"].payload == v["rel"])
        return cl


UNITS = [PrepareFrame()]
