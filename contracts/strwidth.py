"""Contracts for strwidth.py::get_string_width (DESIGN A23): C20."""
import z3
from z3 import And, Or, Not, Implies, ForAll, If, RealVal

from pyvc.contract import Contract
from pyvc import types as T
from pyvc.units import LemmaUnit, TableUnit, BoundedUnit
from pyvc.values import RecObj, StrSort, Opt, lit, norm_str, to_z3, rope_term, Rope
from pyvc.libmodels.fs import FsModel, PathVal, sterm, P_JOIN
from pyvc.libmodels.strings import StrModel

G = z3.Function("pillow_getlength", StrSort, z3.RealSort(), StrSort, z3.RealSort())      # (font file, size, text) -> pixels
FONTS_DIR = z3.Const("rtflite_fonts_dir", StrSort)


def h_files(I, st, args, kwargs, node):
    return PathVal(FONTS_DIR)


def h_truetype(I, st, args, kwargs, node):
    from pyvc import ops
    return st.alloc(RecObj("FreeTypeFont", {"path": sterm(args[0]), "size": ops.to_real(kwargs["size"])}, fresh=True))


class _FontModel:
    def call_method(self, I, st, recv, name, args, kwargs, node):
        from pyvc.values import Ref
        if isinstance(recv, Ref) and isinstance(st.obj(recv), RecObj) and st.obj(recv).cls == "FreeTypeFont" and name == "getlength":
            o = st.obj(recv)
            I.ctx.assume_lib("Pillow: FreeTypeFont.getlength(text) is a function G(font file, size, text) of its arguments")
            return G(o.fields["path"], o.fields["size"], to_z3(norm_str(args[0])))
        return NotImplemented


class GetStringWidth(Contract):
    """get_string_width: result = conv_unit(G(file(font), size, text), dpi); ValueError (only) for an unsupported font or unit;
    a font number and its name give the same result."""
    target = "strwidth.py::get_string_width"
    serves = ["C20", "C03"]
    models = [_FontModel(), FsModel(), StrModel()]
    handlers = {"pkg_resources.files": h_files, "ImageFont.truetype": h_truetype}
    variants = [f"{f}.{u}" for f in ("number", "name") for u in ("in", "mm", "px", "other")]

    def setup(self, c):
        fkind, unit = c.variant.split(".")
        c.param("text", T.Str)
        if fkind == "number":
            c.param("font", T.Int)
        else:
            c.param("font", T.Str)
        fs = c.param("font_size", T.Real)
        dpi = c.param("dpi", T.Real)
        c.requires("positive_size_and_dpi", And(fs > 0, dpi > 0))
        if unit == "other":
            u = c.param("unit", T.Str)
            c.requires("unit_unknown", And(u != lit("in"), u != lit("mm"), u != lit("px")))
        else:
            c.bind("unit", unit)
        sw = c.ctx.index.real_module("rtflite.strwidth")
        c.v.update(names=dict(sw.RTF_FONT_NAMES), paths=dict(sw._FONT_PATHS), unit=unit, fkind=fkind, int_size=bool(sw._PILLOW_REQUIRES_INT_SIZE))

    def font_ok(self, c):
        f = c.v["font"]
        if c.v["fkind"] == "number":
            return Or(*[f == k for k in c.v["names"]])
        return Or(*[f == lit(k) for k in c.v["paths"]])

    @property
    def raises(self):
        def r(c, out):
            return {"only_for_unsupported_font_or_unit": Or(Not(self.font_ok(c)), z3.BoolVal(c.v["unit"] == "other"))}
        return {"ValueError": r}

    def ensures(self, c, out):
        v = c.v
        f, fs, dpi, text = v["font"], v["font_size"], v["dpi"], v["text"]
        if v["fkind"] == "number":
            fname = None
            for k, nm in v["names"].items():
                fname = lit(nm) if fname is None else If(f == k, lit(nm), fname)
        else:
            fname = f
        ffile = None
        for nm, p in v["paths"].items():
            ffile = lit(p) if ffile is None else If(fname == lit(nm), lit(p), ffile)
        px = G(P_JOIN(FONTS_DIR, ffile), fs, text)
        want = {"px": px, "in": px / dpi, "mm": (px / dpi) * RealVal("25.4")}[v["unit"]]
        return {"supported_font_and_unit": self.font_ok(c),
                "width_is_unit_conversion_of_pillow_length": out.value == want,
                "size_passed_unrounded(pillow>=10)": z3.BoolVal(not v["int_size"])}


def conversion_lemma(index):
    """Each metric fact holds for the result iff it holds for G, because every conversion is multiplication by a positive constant;
    the three unit results are exact conversions of one another."""
    g1, g2, dpi = z3.Reals("g1 g2 dpi")
    hy = [dpi > 0]
    conv = {"px": lambda x: x, "in": lambda x: x / dpi, "mm": lambda x: (x / dpi) * RealVal("25.4")}
    obs = []
    for u, cv in conv.items():
        obs += [(f"{u}.zero_iff_zero", hy, (cv(g1) == 0) == (g1 == 0)), (f"{u}.nonneg_iff_nonneg", hy, (cv(g1) >= 0) == (g1 >= 0)),
                (f"{u}.monotone_iff_monotone", hy, (cv(g1) <= cv(g2)) == (g1 <= g2)),
                (f"{u}.ratio_preserved", hy + [g2 > 0], cv(g1) * g2 == cv(g2) * g1)]
    obs += [("mm_is_in_times_25_4", hy, conv["mm"](g1) == conv["in"](g1) * RealVal("25.4")), ("in_is_px_over_dpi", hy, conv["in"](g1) * dpi == conv["px"](g1))]
    return obs


def font_maps(index):
    import os
    sw = index.real_module("rtflite.strwidth")
    fm = index.real_module("rtflite.fonts_mapping").FontMapping
    names, nums, paths = dict(sw.RTF_FONT_NAMES), dict(sw.RTF_FONT_NUMBERS), dict(sw._FONT_PATHS)
    yield ("numbers_1_to_10", sorted(names) == list(range(1, 11)), {"numbers": sorted(names)})
    yield ("name_number_maps_inverse", all(nums[names[k]] == k for k in names) and all(names[nums[n]] == n for n in nums), {})
    yield ("every_font_has_a_file", all(n in paths for n in names.values()), {"missing": [n for n in names.values() if n not in paths]})
    fdir = os.path.join(index.pkg, "fonts")
    missing = [p for p in paths.values() if not os.path.exists(os.path.join(fdir, p))]
    yield ("font_files_exist", not missing, {"missing": missing})
    ft = fm.get_font_table()
    yield ("font_table_order_f0_to_f9", list(ft["type"]) == list(range(1, 11)) and [names[k] for k in range(1, 11)] == list(ft["name"]), {})


def pillow_metric_audit(index, tier, seed):
    """BOUNDED stand-in (B5): the metric facts about G on seeded strings x 10 fonts x sizes x dpi, through the real function."""
    import random
    sw = index.real_module("rtflite.strwidth")
    rng = random.Random(seed)
    # printable characters only: U+00AD (soft hyphen, a zero-advance format character) and the unassigned U+03A2 are excluded
    alphabet = [chr(c) for c in range(32, 127)] + [chr(c) for c in range(0xA1, 0x100) if c != 0xAD] + [chr(c) for c in range(0x391, 0x3CA) if c != 0x3A2]
    n = 400 if tier == "quick" else 8000
    fails, cases = [], 0
    for _ in range(n):
        font = rng.randint(1, 10)
        size = rng.choice([4, 6, 8.5, 9, 10.5, 12, 18, 24, 36, 48])
        dpi = rng.choice([36, 72, 96, 300, 600])
        s = "".join(rng.choice(alphabet) for _ in range(rng.randint(0, 30)))
        t = s + rng.choice(alphabet)
        cases += 1
        w = sw.get_string_width(s, font=font, font_size=size, unit="px", dpi=dpi)
        w_in = sw.get_string_width(s, font=font, font_size=size, unit="in", dpi=dpi)
        w_mm = sw.get_string_width(s, font=font, font_size=size, unit="mm", dpi=dpi)
        w_name = sw.get_string_width(s, font=sw.RTF_FONT_NAMES[font], font_size=size, unit="px", dpi=dpi)
        w_t = sw.get_string_width(t, font=font, font_size=size, unit="px", dpi=dpi)
        w2 = sw.get_string_width(s, font=font, font_size=2 * size, unit="px", dpi=dpi)
        bad = None
        if sw.get_string_width("", font=font, font_size=size) != 0:
            bad = "empty string has non-zero width"
        elif w < 0:
            bad = "negative width"
        elif abs(w_in - w / dpi) > 1e-9 * max(1, w) or abs(w_mm - w_in * 25.4) > 1e-9 * max(1, w):
            bad = "unit conversion mismatch"
        elif w_name != w:
            bad = "font number and name differ"
        elif w_t < w - 1e-9:
            bad = "appending a character decreased the width"
        elif w > 0 and abs(w2 - 2 * w) > 0.01 * 2 * w + 1e-9:
            bad = "width does not scale with size within 1%"
        elif font == 9 and s and abs(w - len(s) * sw.get_string_width("M", font=9, font_size=size, unit="px", dpi=dpi)) > 1e-6 * max(1, w):
            bad = "monospace width is not count x advance"
        if bad:
            fails.append({"name": bad.replace(" ", "_"), "input": {"text": s, "font": font, "size": size, "dpi": dpi}, "observed": [w, w_in, w_mm, w_name, w_t, w2]})
            break
    for bad_call in (dict(font=11), dict(font="Comic Sans"), dict(unit="pt")):
        try:
            sw.get_string_width("x", **bad_call)
            fails.append({"name": "unsupported_argument_accepted", "input": bad_call})
        except ValueError:
            pass
    return {"bound": f"{n} seeded cases: strings over ASCII/Latin-1/Greek (len 0..30) x fonts 1..10 x sizes 4..48 x dpi 36..600", "cases": cases, "failures": fails}


UNITS = [GetStringWidth()]
LEMMAS = [LemmaUnit("unit_conversions", conversion_lemma)]
TABLES = [TableUnit("font_maps", font_maps)]
BOUNDED = [BoundedUnit("pillow_metric_facts", pillow_metric_audit)]
