"""Contract for services/encoding_service.py::RTFEncodingService.encode_spanning_row (group heading row; C08, C05, C09, C01)."""
import z3
from z3 import And, Or, Not, Implies, If, IntVal

from pyvc.contract import Contract
from pyvc import types as T
from pyvc.values import ListObj, RecObj, Ref, Opt, lit, to_z3, norm_str, StrSort
from pyvc.state import OutOfSubset
from pyvc.libmodels.strings import StrModel

from contracts.attributes import AT, ATTR_SORT, AttrVal

NI = NotImplemented
SPANROW = z3.Function("rtf_spanning_row", StrSort, z3.RealSort(), StrSort)     # (text, width) -> the row's RTF (emitters: unit RowAsRtf)

class AttrNoneModel:
    """`<attribute of the TableAttributes under contract> is None` is that attribute's none-flag."""
    assumed = []

    def compare(self, I, st, op, a, b, node):
        import ast
        if isinstance(op, (ast.Is, ast.IsNot)) and ((isinstance(a, AttrVal) and b is None) or (isinstance(b, AttrVal) and a is None)):
            av = a if isinstance(a, AttrVal) else b
            if av.name not in ATTR_SORT:
                raise OutOfSubset(f"attribute {av.name} has no declared sort")
            none = AT(av.name, 0, 0).isnone
            return none if isinstance(op, ast.Is) else Not(none)
        return NI


def _eq(x, want):
    x = norm_str(x)
    if isinstance(x, Opt):
        return And(Not(x.isnone), _eq(x.payload, want))
    if x is None:
        return z3.BoolVal(False)
    zx = to_z3(x)
    if zx.sort() != want.sort():
        from pyvc import ops
        zx, want = ops.to_real(zx), ops.to_real(want)
    return zx == want


class EncodeSpanningRow(Contract):
    """encode_spanning_row(text, page_width, rtf_body_attrs, col_idx): exactly one Row of exactly one Cell whose width is
    page_width (so the heading's right edge is the table's) and whose text is `text`; the result is that row's RTF.  The
    heading's own formatting defaults are not part of any listed property and are deliberately left unconstrained."""
    target = "services/encoding_service.py::RTFEncodingService.encode_spanning_row"
    serves = ["C08", "C05", "C01", "C11"]
    models = [AttrNoneModel(), StrModel()]
    variants = ["attrs", "none"]
    merge_calls = ("get_attr",)      # the 21 look-ups each branch on "attribute unset": join them as ite values instead of 2^21 paths

    def setup(self, c):
        has = c.variant == "attrs"
        cls = c.cls("rtflite.services.encoding_service", "RTFEncodingService")
        c.bind("self", c.alloc(RecObj("RTFEncodingService", {}, pyclass=cls, fresh=False)))
        text = c.param("text", T.Str)
        pw = c.param("page_width", T.Real)
        col = c.param("col_idx", T.Int)
        c.requires("col_idx_nonneg", col >= 0)
        if has:
            acls = c.cls("rtflite.attributes", "TableAttributes")
            fields = {name: AttrVal(name) for name in ATTR_SORT}
            c.bind("rtf_body_attrs", c.alloc(RecObj("TableAttributes", fields, pyclass=acls, fresh=False, origin="CALLER")))
        else:
            c.bind("rtf_body_attrs", None)
        c.v.update(text=text, pw=pw, col=col, has=has)
        c.ghost("rows_built", IntVal(0))
        c.ghost("cells_built", IntVal(0))

    @property
    def handlers(self):
        v = self._v = getattr(self, "_v", None) or {}

        def new_bv(I, st, cv, args, kwargs, node):
            return st.alloc(RecObj("BroadcastValue", {"value": kwargs.get("value"), "dimension": kwargs.get("dimension")}, pyclass=cv.pyclass))

        def new_text(I, st, cv, args, kwargs, node):
            vv = self._v
            site = getattr(node, "lineno", None)
            I.oblige(st, f"C05.heading_text_is_the_given_text@L{site}", _eq(kwargs.get("text"), to_z3(vv["text"])), "post", site)
            if vv["has"]:
                # C11 (conversion is controlled per component by text_convert): the group heading is part of the body, so when the
                # body sets text_convert the heading converts exactly when the body's value for its column says so.  What the heading
                # does when the attribute is unset is not stated by the property (an RTFBody always sets it) and is left free.
                tc = AT("text_convert", 0, vv["col"])
                I.oblige(st, f"C11.heading_converts_exactly_when_the_bodys_text_convert_says_so@L{site}",
                         Implies(Not(tc.isnone), _eq(kwargs.get("convert"), to_z3(tc.payload))), "post", site)
            return st.alloc(RecObj("TextContent", dict(kwargs), pyclass=cv.pyclass))

        def new_border(I, st, cv, args, kwargs, node):
            return st.alloc(RecObj("Border", {"style": kwargs.get("style")}, pyclass=cv.pyclass))

        def new_cell(I, st, cv, args, kwargs, node):
            vv = self._v
            site = getattr(node, "lineno", None)
            I.oblige(st, f"C08.spanning_cell_width_is_the_given_table_width@L{site}", _eq(kwargs.get("width"), to_z3(vv["pw"])), "post", site)
            t = kwargs.get("text")
            I.oblige(st, f"C05.cell_carries_the_heading_text@L{site}", z3.BoolVal(isinstance(t, Ref) and st.obj(t).cls == "TextContent"), "post", site)
            st.ghost["cells_built"] = st.ghost["cells_built"] + 1
            return st.alloc(RecObj("Cell", dict(kwargs), pyclass=cv.pyclass))

        def new_row(I, st, cv, args, kwargs, node):
            vv = self._v
            site = getattr(node, "lineno", None)
            cells = st.obj(kwargs["row_cells"])
            one = isinstance(cells, ListObj) and cells.items is not None and len(cells.items) == 1 and isinstance(cells.items[0], Ref) \
                and st.obj(cells.items[0]).cls == "Cell"
            I.oblige(st, f"C01.spanning_row_has_exactly_one_cell@L{site}", z3.BoolVal(bool(one)), "post", site)
            st.ghost["rows_built"] = st.ghost["rows_built"] + 1
            return st.alloc(RecObj("Row", dict(kwargs), pyclass=cv.pyclass))
        return {"new:BroadcastValue": new_bv, "new:TextContent": new_text, "new:Border": new_border, "new:Cell": new_cell, "new:Row": new_row}

    @property
    def summaries(self):
        def iloc(I, st, args, kwargs, node):
            bv = st.obj(args[0])
            val = bv.fields["value"]
            if not isinstance(val, AttrVal) or val.name not in ATTR_SORT:
                raise OutOfSubset("BroadcastValue.iloc on a value that is not a declared attribute of the body")
            a = AT(val.name, args[1], args[2])
            # the caller established `val is not None` on this path (AttrNoneModel), so the lookup yields the payload
            return a.payload

        def row_as_rtf(I, st, args, kwargs, node):
            vv = self._v
            return st.alloc(ListObj(items=[SPANROW(to_z3(vv["text"]), to_z3(vv["pw"]))]))
        return {"BroadcastValue.iloc": iloc, "Row._as_rtf": row_as_rtf}

    def setup_loops(self, c):
        self._v = c.v

    def ensures(self, c, out):
        from pyvc.seqs import seq_view
        n, g = seq_view(out.state, out.value)
        gh = out.state.ghost
        return {"one_row_one_cell_built": And(gh["rows_built"] == 1, gh["cells_built"] == 1),
                "result_is_that_rows_rtf": And(n == 1, to_z3(g(0)) == SPANROW(to_z3(c.v["text"]), to_z3(c.v["pw"])))}


UNITS = [EncodeSpanningRow()]
