"""Native replays: bounded concrete searches on the REAL code of the tree under check.  Each returns
{"found": bool, "input": ..., "observed": ...}.  A hit is a reachable failing input (used for the VIOLATION
replay file); the deciding step stays the refuted verification condition."""
import itertools
import math
import random
import re


def _r(found, **kw):
    d = {"found": found}
    d.update(kw)
    return d


# ---- C08 -------------------------------------------------------------------------------------------
def replay_col_widths(index, ob, seed, saved=None):
    row = index.real_module("rtflite.row")
    rng = random.Random(seed)
    cases = [([1.0], 6.0), ([1, 1, 1], 6.25), ([0.2, 10, 3], 2.0), ([2, 1], 9.0)]
    for _ in range(300):
        n = rng.randint(1, 12)
        cases.append(([round(rng.uniform(0.2, 10), 3) for _ in range(n)], round(rng.uniform(2, 12), 3)))
    for rel, cw in cases:
        try:
            out = row.Utils._col_widths(rel, cw)
        except Exception as e:
            return _r(True, input={"rel_widths": rel, "col_width": cw}, observed=f"{type(e).__name__}: {e}")
        tot = sum(rel)
        want = [cw * sum(rel[: k + 1]) / tot for k in range(len(rel))]
        ok = len(out) == len(rel) and all(abs(a - b) < 1e-9 for a, b in zip(out, want)) and abs(out[-1] - cw) < 1e-9 \
            and all(out[k] < out[k + 1] for k in range(len(out) - 1)) and out[0] > 0
        if not ok:
            return _r(True, input={"rel_widths": rel, "col_width": cw}, observed=out, expected=want)
    return _r(False, tried=len(cases))


def replay_inch_to_twip(index, ob, seed, saved=None):
    row = index.real_module("rtflite.row")
    for x in [8.27, 11.69, 0.15, 1.25, 1.00625, 6.25, 0.0, 0.0003472, 2.5, 8.5]:
        r = row.Utils._inch_to_twip(x)
        if not isinstance(r, int) or abs(r - 1440 * x) > 0.5 + 1e-9:
            return _r(True, input={"inch": x}, observed=r)
    return _r(False)


# ---- C06 -------------------------------------------------------------------------------------------
def replay_page_geometry(index, ob, seed, saved=None):
    rtf = index.real_module("rtflite")
    import polars as pl
    for w, h, orient in [(8.27, 11.69, "portrait"), (11.69, 8.27, "landscape"), (8.5, 11, "portrait"), (7.3, 9.1, "portrait")]:
        doc = rtf.RTFDocument(df=pl.DataFrame({"a": list(range(7))}), rtf_page=rtf.RTFPage(width=w, height=h, orientation=orient, nrow=4))
        s = doc.rtf_encode()
        vals = re.findall(r"\\paperw(-?\d+)\\paperh(-?\d+)", s)
        marg = re.findall(r"\\margl(-?\d+)\\margr(-?\d+)\\margt(-?\d+)\\margb(-?\d+)\\headery(-?\d+)\\footery(-?\d+)", s)
        want = (str(round(w * 1440)), str(round(h * 1440)))
        if len(vals) < 2 or any(v != want for v in vals) or len(set(marg)) != 1 or len(marg) != len(vals):
            return _r(True, input={"width": w, "height": h, "orientation": orient, "rows": 7, "nrow": 4},
                      observed={"paper": vals, "margins": marg}, expected=want)
    return _r(False)


def replay_should_show(index, ob, seed, saved=None):
    ren = index.real_module("rtflite.encoding.renderer")
    proc = index.real_module("rtflite.pagination.processor")

    class P:
        def __init__(s, f, l):
            s.is_first_page, s.is_last_page = f, l
    for loc in ("all", "first", "last", "bogus"):
        for f in (False, True):
            for l in (False, True):
                want = loc == "all" or (loc == "first" and f) or (loc == "last" and l)
                a = bool(ren.PageRenderer._should_show(None, loc, P(f, l)))
                b = bool(proc.PageFeatureProcessor._should_show_element(None, loc, P(f, l)))
                if a != want or b != want:
                    return _r(True, input={"location": loc, "first": f, "last": l}, observed={"_should_show": a, "_should_show_element": b}, expected=want)
    return _r(False)


# ---- C10 -------------------------------------------------------------------------------------------
def rtf_decode_text(s):
    """Decode an escaped run per RTF rules: ASCII stands for itself; \\uN (signed 16 bit) followed by one fallback char
    under \\uc1; surrogate pairs combine.  Returns (text, problems)."""
    out, problems, i, units = [], [], 0, []
    while i < len(s):
        if s.startswith("\\uc1\\u", i):
            m = re.match(r"\\uc1\\u(-?\d+)(.?)", s[i:])
            n = int(m.group(1))
            if not -32768 <= n <= 32767:
                problems.append(f"\\u{n} out of signed 16-bit range")
            if m.group(2) == "":
                problems.append("missing fallback character")
            units.append(n + 65536 if n < 0 else n)
            i += len(m.group(0))
        else:
            if ord(s[i]) > 127:
                problems.append(f"raw non-ASCII byte U+{ord(s[i]):04X}")
            units.append(ord(s[i]))
            i += 1
    k = 0
    while k < len(units):
        u = units[k]
        if 0xD800 <= u <= 0xDBFF and k + 1 < len(units) and 0xDC00 <= units[k + 1] <= 0xDFFF:
            out.append(chr(0x10000 + ((u - 0xD800) << 10) + (units[k + 1] - 0xDC00)))
            k += 2
        else:
            if 0xD800 <= u <= 0xDFFF:
                problems.append("lone surrogate")
                out.append("?")
            else:
                out.append(chr(u))
            k += 1
    return "".join(out), problems


def replay_convert_special_chars(index, ob, seed, saved=None):
    row = index.real_module("rtflite.row")
    rng = random.Random(seed)
    cps = [0xE9, 0xB1, 0x80 + 0x20, 0xFF, 0x100, 0x3B1, 0x7FFF, 0x8000, 0xFFFD, 0x10000, 0x1F600, 0x10FFFF, 0x41, 0x7E, 0x20]
    cps += [rng.randint(0xA0, 0x10FFFF) for _ in range(400)]
    for cp in cps:
        if 0xD800 <= cp <= 0xDFFF or cp in (92, 123, 125):
            continue
        text = "a" + chr(cp) + "b"
        for conv in (False,):
            got = row.TextContent(text=text, convert=conv)._convert_special_chars()
            dec, problems = rtf_decode_text(got)
            if dec != text or problems:
                return _r(True, input={"text": text, "code_point": hex(cp), "convert": conv}, observed=got, decoded=dec, problems=problems)
    return _r(False, tried=len(cps))


# ---- C12 -------------------------------------------------------------------------------------------
def replay_color_index(index, ob, seed, saved=None):
    cs = index.real_module("rtflite.services.color_service")
    svc = cs.ColorService()
    rng = random.Random(seed)
    names = list(svc._name_to_type)
    for _ in range(200):
        used = rng.sample(names, rng.randint(1, 8)) + rng.choice([[], [""], ["black"]])
        rng.shuffle(used)
        table = svc.generate_rtf_color_table(used)
        entries = [e.strip() for e in table[len("{\\colortbl;"):].rstrip("}").split("\n") if e.strip()]
        for col in used:
            idx = svc.get_rtf_color_index(col, used)
            if col in ("", "black"):
                ok = idx == 0
            else:
                ok = 1 <= idx <= len(entries) and entries[idx - 1] == svc._name_to_rtf[col]
            if not ok:
                return _r(True, input={"used_colors": used, "color": col}, observed={"index": idx, "table": table})
    return _r(False)


# ---- C16 -------------------------------------------------------------------------------------------
def replay_figures(index, ob, seed, saved=None):
    fs = index.real_module("rtflite.services.figure_service").RTFFigureService
    rng = random.Random(seed)
    import struct
    for _ in range(60):
        data = bytes(rng.randrange(256) for _ in range(rng.choice([0, 1, 39, 40, 41, 80, 200])))
        hx = fs._binary_to_hex(data)
        if hx.replace("\n", "") != data.hex() or any(len(l) > 80 for l in hx.split("\n")):
            return _r(True, input={"data_hex": data.hex()}, observed=hx, function="_binary_to_hex")
    for dims, idx in [([1.0, 2.0, 3.0], 1), ([1.0, 2.0], 5), ([1.0, 2.0], 2), ([3.0, 4.5, 7.0], 6), ([4.0], 0), (2.5, 3)]:
        got = fs._get_dimension(dims, idx)
        want = dims if not isinstance(dims, list) else dims[min(idx, len(dims) - 1)]
        if got != want:
            return _r(True, input={"dimension": dims, "index": idx}, observed=got, expected=want, function="_get_dimension")
    w, h = rng.randint(1, 70000), rng.randint(1, 70000)
    png = b"\x89PNG\r\n\x1a\n" + b"\x00\x00\x00\rIHDR" + struct.pack(">II", w, h) + b"\x08\x02\x00\x00\x00" + bytes(20)
    if fs._get_png_dimensions(png) != (w, h):
        return _r(True, input={"png_width": w, "png_height": h}, observed=fs._get_png_dimensions(png), function="_get_png_dimensions")
    jw, jh = rng.randint(1, 65535), rng.randint(1, 65535)
    jpg = b"\xff\xd8" + b"\xff\xe0" + struct.pack(">H", 16) + bytes(14) + b"\xff\xc0" + struct.pack(">HBHH", 17, 8, jh, jw) + bytes(30)
    if fs._get_jpeg_dimensions(jpg) != (jw, jh):
        return _r(True, input={"jpeg_width": jw, "jpeg_height": jh}, observed=fs._get_jpeg_dimensions(jpg), function="_get_jpeg_dimensions")
    for fmt, blip in (("png", "\\pngblip"), ("jpeg", "\\jpegblip"), ("emf", "\\emfblip")):
        for al, word in (("center", "\\qc "), ("left", "\\ql "), ("right", "\\qr ")):
            out = fs._encode_single_figure(png if fmt == "png" else jpg, fmt, 3.3, 2.2, al)
            m = re.match(r"(\\q[clr] )\{\\pict(\\[a-z]+blip)\\picw(\d+)\\pich(\d+)\\picwgoal(\d+)\\pichgoal(\d+) ([0-9a-f\n]*)\}$", out)
            src = png if fmt == "png" else jpg
            exp_dims = (w, h) if fmt == "png" else ((jw, jh) if fmt == "jpeg" else None)
            ok = bool(m) and m.group(1) == word and m.group(2) == blip and int(m.group(5)) == int(3.3 * 1440) and int(m.group(6)) == int(2.2 * 1440) \
                and m.group(7).replace("\n", "") == src.hex() and (fmt == "emf" or (int(m.group(3)), int(m.group(4))) == exp_dims)
            if not ok:
                return _r(True, input={"format": fmt, "alignment": al, "width": 3.3, "height": 2.2}, observed=out[:200], function="_encode_single_figure")
    # encode_figure / rtf_read_figure / _read_image_data on real files: one picture per figure, in order, positional sizes, page breaks between
    import os, tempfile, shutil
    rtf = index.real_module("rtflite")
    figmod = index.real_module("rtflite.figure")
    tmp = tempfile.mkdtemp(prefix="verif_c16_")
    try:
        for n in (1, 2, 3, 4):
            paths, blobs = [], []
            for k in range(n):
                ext = [".png", ".jpg", ".emf", ".jpeg"][(k + n) % 4]
                blob = (png if ext == ".png" else jpg if ext in (".jpg", ".jpeg") else b"EMF") + bytes(rng.randrange(256) for _ in range(rng.randint(0, 90)))
                pth = os.path.join(tmp, f"f{n}_{k}{ext}")
                with open(pth, "wb") as f:
                    f.write(blob)
                paths.append(pth)
                blobs.append(blob)
                if figmod._read_image_data(__import__("pathlib").Path(pth)) != blob:
                    return _r(True, input={"file_bytes_hex": blob.hex()[:120]}, observed="different bytes", function="_read_image_data")
            widths = [round(rng.uniform(1, 6), 2) for _ in range(rng.randint(1, n + 1))]
            heights = [round(rng.uniform(1, 6), 2) for _ in range(rng.randint(1, n + 1))]
            out = fs.encode_figure(rtf.RTFFigure(figures=paths, fig_width=widths, fig_height=heights))
            inp = {"suffixes": [os.path.splitext(p)[1] for p in paths], "fig_width": widths, "fig_height": heights}
            if not out.endswith("\\par ") :
                return _r(True, input=inp, observed=out[-40:], function="encode_figure", expected="closing \\par")
            chunks = out[:-len("\\par ")].split("\\page ")
            if len(chunks) != n:
                return _r(True, input=inp, observed=f"{len(chunks)} page chunks", expected=n, function="encode_figure")
            for k, ch in enumerate(chunks):
                m = re.match(r"(\\q[clr] )\{\\pict(\\[a-z]+blip)\\picw(\d+)\\pich(\d+)\\picwgoal(\d+)\\pichgoal(\d+) ([0-9a-f\n]*)\}$", ch)
                wk, hk = widths[min(k, len(widths) - 1)], heights[min(k, len(heights) - 1)]
                ext = os.path.splitext(paths[k])[1]
                blip = {".png": "\\pngblip", ".jpg": "\\jpegblip", ".jpeg": "\\jpegblip", ".emf": "\\emfblip"}[ext]
                if not (m and m.group(2) == blip and m.group(7).replace("\n", "") == blobs[k].hex() and int(m.group(5)) == int(wk * 1440) and int(m.group(6)) == int(hk * 1440)):
                    return _r(True, input=dict(inp, figure=k), observed=ch[:160], function="encode_figure")
        # the same file listed twice is embedded twice (one figure per listed path, in the given order)
        pa, pb = os.path.join(tmp, "f3_0" + os.path.splitext([p for p in os.listdir(tmp) if p.startswith("f3_0")][0])[1]), None
        cand = sorted(p for p in os.listdir(tmp) if p.startswith("f3_"))
        if len(cand) >= 2:
            pa, pb = os.path.join(tmp, cand[0]), os.path.join(tmp, cand[1])
            rep = [pa, pb, pa]
            data, fmts = figmod.rtf_read_figure(rep)
            want = [open(p, "rb").read() for p in rep]
            if [bytes(d) for d in data] != want:
                return _r(True, input={"figures": ["a", "b", "a"]}, observed=f"{len(data)} figures read", expected="3 figures: a, b, a", function="rtf_read_figure")
            out = fs.encode_figure(rtf.RTFFigure(figures=rep, fig_width=[1.0, 2.0, 3.0], fig_height=2.0))
            if out.count("{\\pict") != 3 or out.count("\\page ") != 2 or "\\picwgoal4320" not in out.split("\\page ")[-1]:
                return _r(True, input={"figures": ["a", "b", "a"], "fig_width": [1.0, 2.0, 3.0]}, observed=f"{out.count(chr(123) + chr(92) + 'pict')} pictures, {out.count(chr(92) + 'page ')} page breaks",
                          expected="3 pictures, 2 page breaks, third figure 3.0 in wide", function="encode_figure")
    finally:
        shutil.rmtree(tmp, ignore_errors=True)
    return _r(False)


# ---- C19 -------------------------------------------------------------------------------------------
def replay_validators(index, ob, seed, saved=None):
    rtf = index.real_module("rtflite")
    probes = [
        ("RTFBody", dict(border_width=0)), ("RTFBody", dict(border_left="bogus")), ("RTFBody", dict(cell_height=-1)),
        ("RTFBody", dict(col_rel_width=[0, 1])), ("RTFBody", dict(text_font=[1, 11])), ("RTFBody", dict(text_font_size=[[9, -1]])),
        ("RTFBody", dict(text_color=["red", "notacolour"])), ("RTFBody", dict(text_justification=[["l", "x"]])),
        ("RTFBody", dict(cell_vertical_justification="middle")), ("RTFBody", dict(border_color_top=[["red", "nope"]])),
        ("RTFBody", dict(text_format="bq")), ("RTFBody", dict(pageby_row="row")), ("RTFBody", dict(new_page=True)),
        ("RTFBody", dict(border_top=[["single", "single"], ["single", "zigzag"]])), ("RTFBody", dict(border_last=[[""], [""], ["bogus"]])),
        ("RTFBody", dict(text_font=[[1, 2], [3, 12]])), ("RTFBody", dict(text_justification=[["l"], ["q"]])), ("RTFBody", dict(cell_height=[[0.2], [0.0]])),
        ("RTFBody", dict(border_color_left=[["red"], ["nocolour"]])), ("RTFBody", dict(text_color=[["red", "blue"], ["blue", "nocolour"]])),
        ("RTFColumnHeader", dict(text=["a"], border_bottom=[["single"], ["bogus"]])),
        ("RTFPage", dict(width=-1)), ("RTFPage", dict(border_first="bogus")), ("RTFPage", dict(nrow=0)),
        ("RTFPage", dict(orientation="diagonal")), ("RTFPage", dict(page_title="middle")), ("RTFPage", dict(margin=[1, 1, 1])),
        ("RTFPage", dict(col_width=0)), ("RTFTitle", dict(text="t", text_font=99)), ("RTFFootnote", dict(text="t", border_top="zig")),
        ("RTFFigure", dict(figures=None, fig_align="top")), ("RTFFigure", dict(figures=None, fig_pos="middle")),
        # near-legal spellings (case and blank variants of legal keywords are unknown values too), mixed with legal ones at every depth
        ("RTFBody", dict(text_color=["red", "Red"])), ("RTFFootnote", dict(text="t", text_background_color=["red", "BLUE"])),
        ("RTFBody", dict(border_color_top=[["red", "blue"], ["black", "DarkGreen"]])), ("RTFColumnHeader", dict(text=["a"], text_color=[["black", "Red"]])),
        ("RTFTitle", dict(text="t", text_color=" red")), ("RTFSource", dict(text="t", text_color="red ")),
        ("RTFBody", dict(border_left=["single", "Single"])), ("RTFBody", dict(border_top=[["single"], ["DOUBLE"]])),
        ("RTFBody", dict(text_justification=["l", "L"])), ("RTFBody", dict(cell_vertical_justification=["top", "Top"])),
        ("RTFPage", dict(orientation="Portrait")), ("RTFPage", dict(page_title="First")), ("RTFPage", dict(page_footnote="ALL")),
        ("RTFPage", dict(border_first="Single")), ("RTFBody", dict(text_format=["b", "B"])), ("RTFBody", dict(pageby_row="Column")),
        ("RTFBody", dict(text_justification=[["l", "c "]])), ("RTFFigure", dict(figures=None, fig_align="Center")),
        ("RTFFigure", dict(figures=None, fig_pos="Above")), ("RTFBody", dict(border_color_bottom=["red", "grey 50"])),
    ]
    for cls, kw in probes:
        try:
            getattr(rtf, cls)(**kw)
            got = "accepted"
        except ValueError:
            continue
        except Exception as e:
            got = type(e).__name__
        return _r(True, input={"class": cls, "kwargs": {k: repr(v) for k, v in kw.items()}}, observed=got, expected="ValueError")
    try:
        rtf.RTFFigure(figures="/nonexistent/figure.png")
        return _r(True, input={"figures": "/nonexistent/figure.png"}, observed="accepted", expected="FileNotFoundError")
    except FileNotFoundError:
        pass
    except Exception as e:
        return _r(True, input={"figures": "/nonexistent/figure.png"}, observed=type(e).__name__, expected="FileNotFoundError")
    # document-level rules (validate_column_names / validate_figure_data)
    import os, tempfile, polars as pl
    tmp = tempfile.mkdtemp(prefix="verif_c19_")
    try:
        png = os.path.join(tmp, "a.png")
        with open(png, "wb") as f:
            f.write(b"\x89PNG\r\n\x1a\n" + b"\x00\x00\x00\rIHDR" + (3).to_bytes(4, "big") + (2).to_bytes(4, "big") + b"\x08\x02\x00\x00\x00")
        df = pl.DataFrame({"g": ["a", "b"], "x": ["1", "2"]})
        df2 = pl.DataFrame({"h": ["a", "b"], "y": ["1", "2"]})
        fig = lambda: rtf.RTFFigure(figures=png)
        docs = [
            ("a frame together with a figure", "ValueError", lambda: rtf.RTFDocument(df=df, rtf_figure=fig())),
            ("neither a frame nor a figure", "ValueError", lambda: rtf.RTFDocument()),
            ("two frames, one body", "ValueError", lambda: rtf.RTFDocument(df=[df, df2], rtf_body=[rtf.RTFBody()])),
            ("one frame in a list, two bodies", "ValueError", lambda: rtf.RTFDocument(df=[df], rtf_body=[rtf.RTFBody(), rtf.RTFBody()])),
            ("two frames, body not a list", "ValueError", lambda: rtf.RTFDocument(df=[df, df2], rtf_body=rtf.RTFBody())),
            ("two frames, three nested header lists", "ValueError",
             lambda: rtf.RTFDocument(df=[df, df2], rtf_body=[rtf.RTFBody(), rtf.RTFBody()], rtf_column_header=[[None], [None], [None]])),
            ("group_by column missing", "ValueError", lambda: rtf.RTFDocument(df=df, rtf_body=rtf.RTFBody(group_by=["nope"]))),
            ("page_by column missing", "ValueError", lambda: rtf.RTFDocument(df=df, rtf_body=rtf.RTFBody(page_by=["g", "nope"]))),
            ("subline_by column missing", "ValueError", lambda: rtf.RTFDocument(df=df, rtf_body=rtf.RTFBody(subline_by=["nope"]))),
            ("page_by column of the second section missing", "ValueError",
             lambda: rtf.RTFDocument(df=[df, df2], rtf_body=[rtf.RTFBody(page_by=["g"]), rtf.RTFBody(page_by=["g"])])),
            ("second figure file missing", "FileNotFoundError", lambda: rtf.RTFFigure(figures=[png, os.path.join(tmp, "missing.png")])),
        ]
        for what, want, make in docs:
            try:
                make()
                got = "accepted"
            except Exception as e:
                got = type(e).__name__
                if isinstance(e, {"ValueError": ValueError, "FileNotFoundError": FileNotFoundError}[want]):
                    continue
            return _r(True, input={"document": what}, observed=got, expected=want)
        legal = [("figure document", lambda: rtf.RTFDocument(rtf_figure=fig())), ("path list kept in order", lambda: rtf.RTFFigure(figures=[png, png])),
                 ("two matching sections", lambda: rtf.RTFDocument(df=[df, df2], rtf_body=[rtf.RTFBody(page_by=["g"]), rtf.RTFBody(page_by=["h"])]))]
        for what, make in legal:
            try:
                obj = make()
            except Exception as e:
                return _r(True, input={"document": what}, observed=type(e).__name__, expected="accepted")
            if what.startswith("path list") and [str(x) for x in obj.figures] != [png, png]:
                return _r(True, input={"document": what}, observed=[str(x) for x in obj.figures], expected=[png, png])
    finally:
        import shutil
        shutil.rmtree(tmp, ignore_errors=True)
    return _r(False, tried=len(probes) + len(docs) + len(legal))


def replay_broadcast(index, ob, seed, saved=None):
    attrs = index.real_module("rtflite.attributes")
    rng = random.Random(seed)
    for _ in range(200):
        R, C = rng.randint(1, 3), rng.randint(1, 3)
        val = [[f"v{r}{c}" for c in range(C)] for r in range(R)]
        d0, d1 = rng.randint(0, 5), rng.randint(1, 5)
        bv = attrs.BroadcastValue(value=[list(x) for x in val], dimension=(d0, d1))
        r, c = rng.randint(0, 9), rng.randint(0, 9)
        if bv.iloc(r, c) != val[r % R][c % C]:
            return _r(True, input={"value": val, "row": r, "col": c}, observed=bv.iloc(r, c), function="iloc")
        tl = bv.to_list()
        want = [[val[i % R][j % C] for j in range(d1)] for i in range(d0)]
        if tl != want:
            return _r(True, input={"value": val, "dimension": [d0, d1]}, observed=tl, expected=want, function="to_list")
        if d0 > 0:
            ri, ci = rng.randrange(d0), rng.randrange(d1)
            out = attrs.BroadcastValue(value=[list(x) for x in val], dimension=(d0, d1)).update_cell(ri, ci, "NEW")
            want2 = [list(x) for x in want]
            want2[ri][ci] = "NEW"
            if out != want2:
                return _r(True, input={"value": val, "dimension": [d0, d1], "cell": [ri, ci]}, observed=out, expected=want2, function="update_cell")
    return _r(False)


# ---- C18 -------------------------------------------------------------------------------------------
def replay_exports(index, ob, seed, saved=None):
    """Fault injection on the real write_* methods with converter stubs; FS state observed before/after."""
    import os, tempfile, shutil, polars as pl
    from pathlib import Path
    rtf = index.real_module("rtflite")
    enc = index.real_module("rtflite.encode")
    base = tempfile.mkdtemp(prefix="verif_c18_")
    created = []
    real_td = tempfile.TemporaryDirectory

    class Rec(real_td):
        def __init__(self, *a, **k):
            super().__init__(*a, **k)
            created.append(self.name)
    import contextlib, io
    _quiet = contextlib.redirect_stdout(io.StringIO())
    _quiet.__enter__()
    try:
        enc.tempfile.TemporaryDirectory = Rec

        class Conv:
            def __init__(self, mode):
                self.mode = mode

            def convert(self, input_files, output_dir, format, overwrite):
                if self.mode == "fail_before":
                    raise RuntimeError("conversion failed")
                out = Path(output_dir) / (Path(input_files).stem + "." + format)
                out.write_text("converted:" + Path(input_files).read_text())
                if self.mode == "fail_after":
                    raise RuntimeError("conversion failed late")
                if self.mode == "malformed":
                    return [out]
                return out
        doc = rtf.RTFDocument(df=pl.DataFrame({"a": [1, 2]}))
        good = doc.rtf_encode()
        for meth, ext in (("write_rtf", "rtf"), ("write_docx", "docx"), ("write_html", "html"), ("write_pdf", "pdf")):
            for scenario in ("encode_fails", "fail_before", "fail_after", "malformed", "ok"):
                if meth == "write_rtf" and scenario not in ("encode_fails", "ok"):
                    continue
                for pre in (None, "OLD CONTENT"):
                    d = os.path.join(base, f"{meth}_{scenario}_{'pre' if pre else 'new'}", "sub")
                    target = os.path.join(d, f"out.{ext}")
                    if pre is not None:
                        os.makedirs(d, exist_ok=True)
                        Path(target).write_text(pre)
                    doc2 = rtf.RTFDocument(df=pl.DataFrame({"a": [1, 2]}))
                    if scenario == "encode_fails":
                        object.__setattr__(doc2, "rtf_encode", lambda: (_ for _ in ()).throw(ValueError("encode failed")))
                    del created[:]
                    kw = {} if meth == "write_rtf" else {"converter": Conv(scenario)}
                    raised = None
                    try:
                        getattr(doc2, meth)(target, **kw)
                    except Exception as e:
                        raised = type(e).__name__
                    leftovers = [t for t in created if os.path.exists(t)]
                    now = Path(target).read_text() if os.path.exists(target) else None
                    listing = sorted(os.listdir(d)) if os.path.isdir(d) else []
                    if scenario == "ok":
                        want = good if meth == "write_rtf" else "converted:" + good
                        okk = raised is None and now == want and not leftovers and listing == [f"out.{ext}"]
                    else:
                        okk = raised is not None and now == pre and not leftovers and listing == ([f"out.{ext}"] if pre else [])
                    if not okk:
                        return _r(True, input={"method": meth, "scenario": scenario, "preexisting": pre}, observed={"raised": raised, "target": now,
                                  "leftover_temp_dirs": leftovers, "listing": listing})
        return _r(False)
    finally:
        _quiet.__exit__(None, None, None)
        enc.tempfile.TemporaryDirectory = real_td
        shutil.rmtree(base, ignore_errors=True)


# ---- C14 / C15 -------------------------------------------------------------------------------------
_C14_BASELINE = r'''
import json, sys, polars as pl, rtflite as rtf
def target(kind):
    if kind == "multi_coloured":
        return rtf.RTFDocument(df=[pl.DataFrame({"a": [1, 2]}), pl.DataFrame({"b": [3, 4]})],
                               rtf_body=[rtf.RTFBody(text_color="red"), rtf.RTFBody(text_color="blue")])
    if kind == "plain_no_page_border":
        return rtf.RTFDocument(df=pl.DataFrame({"b": [3, 4]}), rtf_body=rtf.RTFBody(), rtf_page=rtf.RTFPage(border_last=""))
    if kind == "coloured":
        return rtf.RTFDocument(df=pl.DataFrame({"a": [1, 2, 3]}), rtf_body=rtf.RTFBody(text_color=["green"]), rtf_title=rtf.RTFTitle(text="t", text_color="red"))
    if kind == "paginated_default_header":
        return rtf.RTFDocument(df=pl.DataFrame({"a": [str(i) for i in range(30)], "b": [str(i) for i in range(30)]}), rtf_page=rtf.RTFPage(nrow=12))
print(json.dumps({k: target(k).rtf_encode() for k in ("multi_coloured", "plain_no_page_border", "coloured", "paginated_default_header")}))
'''


def replay_purity(index, ob, seed, saved=None):
    """Histories of prior operations, then encode a target; compare with a fresh interpreter on the same tree."""
    import json, subprocess, sys, os, polars as pl
    rtf = index.real_module("rtflite")
    env = dict(os.environ, PYTHONPATH=index.src)
    p = subprocess.run([sys.executable, "-c", _C14_BASELINE], capture_output=True, text=True, env=env)
    base = json.loads(p.stdout.strip().splitlines()[-1])

    def tgt(kind, body=None):
        if kind == "multi_coloured":
            return rtf.RTFDocument(df=[pl.DataFrame({"a": [1, 2]}), pl.DataFrame({"b": [3, 4]})],
                                   rtf_body=[rtf.RTFBody(text_color="red"), rtf.RTFBody(text_color="blue")])
        if kind == "plain_no_page_border":
            return rtf.RTFDocument(df=pl.DataFrame({"b": [3, 4]}), rtf_body=body or rtf.RTFBody(), rtf_page=rtf.RTFPage(border_last=""))
        if kind == "paginated_default_header":
            return rtf.RTFDocument(df=pl.DataFrame({"a": [str(i) for i in range(30)], "b": [str(i) for i in range(30)]}), rtf_page=rtf.RTFPage(nrow=12))
        return rtf.RTFDocument(df=pl.DataFrame({"a": [1, 2, 3]}), rtf_body=rtf.RTFBody(text_color=["green"]), rtf_title=rtf.RTFTitle(text="t", text_color="red"))

    def failing_encode():
        d = rtf.RTFDocument(df=pl.DataFrame({"g": ["A", "B", "A"], "v": [1, 2, 3]}), rtf_body=rtf.RTFBody(group_by=["g"], text_color="red"))
        try:
            d.rtf_encode()
        except ValueError:
            return "ValueError"
        return "no error"
    histories = []
    # 1. a failed encode, then documents of every kind
    histories.append(("encode raising ValueError", lambda: failing_encode(), None))
    # 2. encode twice
    for kind in ("multi_coloured", "coloured", "plain_no_page_border", "paginated_default_header"):
        d = tgt(kind)
        a, b = d.rtf_encode(), d.rtf_encode()
        if a != b or a != base[kind]:
            return _r(True, input={"history": [f"encode {kind} twice"]}, observed="outputs differ from each other or from a fresh interpreter")
    failing_encode()
    for kind in ("multi_coloured", "coloured", "plain_no_page_border"):
        if tgt(kind).rtf_encode() != base[kind]:
            return _r(True, input={"history": ["encode grouped document that raises ValueError", f"encode {kind}"]}, observed="output differs from a fresh interpreter")
    # 3. shared component: multi-section document sharing its last body with a later plain document
    shared = rtf.RTFBody()
    rtf.RTFDocument(df=[pl.DataFrame({"a": [1, 2]}), pl.DataFrame({"b": [3, 4]})], rtf_body=[rtf.RTFBody(), shared]).rtf_encode()
    if tgt("plain_no_page_border", shared).rtf_encode() != base["plain_no_page_border"]:
        return _r(True, input={"history": ["encode multi-section document whose last RTFBody is shared", "encode plain document using that RTFBody"]},
                  observed="output differs from a fresh interpreter")
    # 3b. one component object used for two documents of different column counts: the second document must not see widths the first one computed
    body = rtf.RTFBody()
    hdr = rtf.RTFColumnHeader(text=["A", "B"])
    before = (body.col_rel_width, hdr.col_rel_width)
    rtf.RTFDocument(df=pl.DataFrame({"a": [1], "b": [2]}), rtf_body=body, rtf_column_header=[hdr])
    if (body.col_rel_width, hdr.col_rel_width) != before:
        return _r(True, input={"history": ["body = RTFBody(); hdr = RTFColumnHeader(text=['A','B'])", "RTFDocument(2-column frame, rtf_body=body, rtf_column_header=[hdr])"]},
                  observed=f"constructor wrote into the caller's components: body.col_rel_width={body.col_rel_width}, header.col_rel_width={hdr.col_rel_width}")
    try:
        got = rtf.RTFDocument(df=pl.DataFrame({"a": [1], "b": [2], "c": [3]}), rtf_body=body).rtf_encode()
        want = rtf.RTFDocument(df=pl.DataFrame({"a": [1], "b": [2], "c": [3]}), rtf_body=rtf.RTFBody()).rtf_encode()
        if got != want:
            return _r(True, input={"history": ["RTFDocument(2-column frame, rtf_body=body)", "RTFDocument(3-column frame, rtf_body=body).rtf_encode()"]},
                      observed="output differs from the same document built with a fresh RTFBody()")
    except Exception as e:
        return _r(True, input={"history": ["RTFDocument(2-column frame, rtf_body=body)", "RTFDocument(3-column frame, rtf_body=body).rtf_encode()"]}, observed=type(e).__name__)
    # 4. the caller's DataFrame
    df = pl.DataFrame({"g": ["A", "A", "B"], "v": [1, 2, 3]})
    snap = df.clone()
    rtf.RTFDocument(df=df, rtf_body=rtf.RTFBody(group_by=["g"])).rtf_encode()
    if not df.equals(snap):
        return _r(True, input={"history": ["encode grouped document"]}, observed="caller DataFrame modified")
    return _r(False)


def replay_threads(index, ob, seed, saved=None):
    """Forced schedule A.set . B.set . A.render . B.render around the real set_document_context."""
    import threading, polars as pl
    rtf = index.real_module("rtflite")
    csm = index.real_module("rtflite.services.color_service")

    def doc(c):
        return rtf.RTFDocument(df=pl.DataFrame({"a": [1, 2]}), rtf_body=rtf.RTFBody(text_color=[c]))
    seq = {c: doc(c).rtf_encode() for c in ("red", "blue")}
    a_set, b_set = threading.Event(), threading.Event()
    orig = csm.ColorService.set_document_context
    out = {}

    def patched(self, document=None, used_colors=None):
        r = orig(self, document, used_colors)
        me = threading.current_thread().name
        if me == "A":
            a_set.set()
            b_set.wait(5)
        elif me == "B":
            a_set.wait(5)
            b_set.set()
        return r
    csm.ColorService.set_document_context = patched
    try:
        ts = [threading.Thread(target=lambda c=c: out.__setitem__(c, doc(c).rtf_encode()), name=n) for n, c in (("A", "red"), ("B", "blue"))]
        [t.start() for t in ts]
        [t.join(20) for t in ts]
    finally:
        csm.ColorService.set_document_context = orig
    bad = [c for c in seq if out.get(c) != seq[c]]
    if bad:
        return _r(True, input={"schedule": "A.set_document_context ; B.set_document_context ; A renders ; B renders", "documents": ["red", "blue"]},
                  observed=f"thread results differ from sequential results for {bad}")
    return _r(False)


# ---- C13 -------------------------------------------------------------------------------------------
def replay_grouping(index, ob, seed, saved=None):
    """Key sequences over a small alphabet incl. null, 1-2 group_by levels: suppression vs the hierarchical-key rule, through the
    real GroupingService; non-contiguous orders must raise ValueError."""
    import itertools, polars as pl
    gs = index.real_module("rtflite.services.grouping_service").GroupingService()
    alpha = ["A", "B", None]

    def expected(cols):
        n = len(cols[0])
        out = [list(c) for c in cols]
        for l in range(len(cols)):
            for i in range(1, n):
                if all(cols[m][i] == cols[m][i - 1] for m in range(l + 1)):
                    out[l][i] = None
        return out

    def contiguous(keys):
        seen, prev = set(), object()
        for k in keys:
            if k != prev:
                if k in seen:
                    return False
                seen.add(k)
                prev = k
        return True
    for n in range(1, 5):
        for g in itertools.product(alpha, repeat=n):
            for h in ([None] if n > 3 else list(itertools.product(["x", "y", None], repeat=n))):
                cols = [list(g)] + ([list(h)] if h is not None else [])
                names = ["g", "h"][: len(cols)]
                df = pl.DataFrame({nm: pl.Series(nm, c, dtype=pl.Utf8) for nm, c in zip(names, cols)} | {"v": list(range(n))})
                ok_sorted = contiguous(cols[0]) and (len(cols) == 1 or contiguous(list(zip(*cols))))
                try:
                    out = gs.enhance_group_by(df, names)
                except ValueError:
                    if ok_sorted:
                        return _r(True, input={"columns": dict(zip(names, cols))}, observed="ValueError for contiguous keys")
                    continue
                if not ok_sorted:
                    return _r(True, input={"columns": dict(zip(names, cols))}, observed="non-contiguous keys accepted")
                got = [out[nm].to_list() for nm in names]
                if got != expected(cols) or out["v"].to_list() != list(range(n)):
                    return _r(True, input={"columns": dict(zip(names, cols))}, observed=got, expected=expected(cols))
                # restore_page_context: at every page start each group_by column shows the original value again (null keys included),
                # every other cell and every other column stays as suppressed -- all subsets of page starts
                if n <= 3 or h is None:
                    for mask in range(1, 2 ** n):
                        starts = [i for i in range(n) if mask >> i & 1]
                        try:
                            back = gs.restore_page_context(out, df, names, starts)
                        except Exception as e:
                            return _r(True, input={"columns": dict(zip(names, cols)), "page_starts": starts}, observed=f"{type(e).__name__}: {e}")
                        want = [[cols[l][i] if i in starts else got[l][i] for i in range(n)] for l in range(len(cols))]
                        gotb = [back[nm].to_list() for nm in names]
                        if gotb != want or back["v"].to_list() != list(range(n)) or back.columns != out.columns:
                            return _r(True, input={"columns": dict(zip(names, cols)), "page_starts": starts}, observed=gotb, expected=want)
    return _r(False)


def replay_document_init(index, ob, seed, saved=None):
    """RTFDocument construction on the real code: every header without own widths carries its own section's body widths; an unset
    body width list becomes equal shares, a one-element list is repeated."""
    import polars as pl
    rtf = index.real_module("rtflite")
    frames = [pl.DataFrame({"a": ["1"], "b": ["2"]}), pl.DataFrame({"c": ["1"], "d": ["2"], "e": ["3"]}), pl.DataFrame({"f": ["1"], "g": ["2"], "h": ["3"], "i": ["4"]})]
    widths = [[1, 2], [3, 1, 1], [1, 1, 2, 5]]
    cases = []
    for nsec in (2, 3):
        for own in (False, True):
            cases.append({"kind": "multi_nested", "sections": nsec, "first_header_has_own_widths": own})
    cases += [{"kind": "single", "body_widths": w} for w in (None, [2], [1, 3])]
    for case in cases:
        if saved is not None and case != saved.get("input", saved):
            continue
        try:
            if case["kind"] == "multi_nested":
                n = case["sections"]
                bodies = [rtf.RTFBody(col_rel_width=widths[k]) for k in range(n)]
                hdrs = [[rtf.RTFColumnHeader(text=list(frames[k].columns), col_rel_width=([9] * frames[k].width if (case["first_header_has_own_widths"] and k == 0) else None))]
                        for k in range(n)]
                doc = rtf.RTFDocument(df=frames[:n], rtf_body=bodies, rtf_column_header=hdrs)
                for k in range(n):
                    want = [9] * frames[k].width if (case["first_header_has_own_widths"] and k == 0) else widths[k]
                    got = list(doc.rtf_column_header[k][0].col_rel_width)
                    if [float(x) for x in got] != [float(x) for x in want]:
                        return _r(True, input=case, observed=f"section {k}: header widths {got}, its body has {widths[k]} (expected {want})")
            else:
                w = case["body_widths"]
                doc = rtf.RTFDocument(df=frames[1], rtf_body=rtf.RTFBody(col_rel_width=w))
                want = [1, 1, 1] if w is None else (w * 3 if len(w) == 1 else w)
                got = list(doc.rtf_body.col_rel_width)
                if [float(x) for x in got] != [float(x) for x in want]:
                    return _r(True, input=case, observed=f"body widths {got}, expected {want}")
                hw = list(doc.rtf_column_header[0].col_rel_width)
                if [float(x) for x in hw] != [float(x) for x in want]:
                    return _r(True, input=case, observed=f"default header widths {hw}, body has {want}")
        except Exception as e:
            return _r(True, input=case, observed=f"{type(e).__name__}: {e}")
    return _r(False, tried=len(cases))


def replay_colour_collection(index, ob, seed, saved=None):
    """A colour placed on any colour-bearing field of a component must appear in the document's colour table and be referenced by a
    non-zero index (native run of the real pipeline)."""
    import re
    import polars as pl
    rtf = index.real_module("rtflite")
    df = pl.DataFrame({"x": ["r0"], "y": [1]})
    cases = []
    for comp in ("RTFColumnHeader", "RTFFootnote", "RTFSource", "RTFBody"):
        for fld in ("text_color", "text_background_color", "border_color_left", "border_color_right", "border_color_top", "border_color_bottom"):
            cases.append({"component": comp, "field": fld, "colour": "red"})
    for case in cases:
        if saved is not None and case != saved.get("input", saved):
            continue
        comp, fld = case["component"], case["field"]
        kw = {fld: ["red"]}
        try:
            if comp == "RTFColumnHeader":
                doc = rtf.RTFDocument(df=df, rtf_column_header=[rtf.RTFColumnHeader(text=["X", "Y"], **kw)])
            elif comp == "RTFFootnote":
                doc = rtf.RTFDocument(df=df, rtf_footnote=rtf.RTFFootnote(text="fn", **kw))
            elif comp == "RTFSource":
                doc = rtf.RTFDocument(df=df, rtf_source=rtf.RTFSource(text="src", as_table=True, **kw))
            else:
                doc = rtf.RTFDocument(df=df, rtf_body=rtf.RTFBody(**kw))
            s = doc.rtf_encode()
        except Exception as e:
            return _r(True, input=case, observed=f"{type(e).__name__}: {e}")
        ct = re.search(r"\{\\colortbl[^}]*\}", s)
        if not ct or "\\red255\\green0\\blue0" not in ct.group(0):
            return _r(True, input=case, observed=f"colour table {ct.group(0) if ct else None!r} has no entry for red")
    return _r(False, tried=len(cases))


def replay_group_by_pipeline(index, ob, seed, saved=None):
    """group_by through the whole encode pipeline on the real code: a group cell is blank exactly when its (hierarchical) key repeats
    the previous row's and the row is not the first row of its page; non-contiguous keys are refused with ValueError."""
    import polars as pl
    from contracts.readback import parse
    rtf = index.real_module("rtflite")
    cases = []
    for nrow in (3, 4, 5, 6, 20):
        cases.append({"keys": ["A", "A", "B", "B", "A", "A", "C", "C"], "nrow": nrow, "expect": "ValueError"})
        cases.append({"keys": ["A", "A", "A", "B", "B", "C", "C", "C"], "nrow": nrow, "expect": "blanks"})
    for case in cases:
        if saved is not None and case != saved.get("input", saved):
            continue
        keys = case["keys"]
        df = pl.DataFrame({"g": keys, "x": [f"r{i}" for i in range(len(keys))]})
        try:
            doc = rtf.RTFDocument(df=df, rtf_page=rtf.RTFPage(nrow=case["nrow"]), rtf_body=rtf.RTFBody(group_by=["g"], as_colheader=False),
                                  rtf_column_header=[rtf.RTFColumnHeader(text=["G", "X"])])
            s = doc.rtf_encode()
        except ValueError as e:
            if case["expect"] == "ValueError":
                continue
            return _r(True, input=case, observed=f"contiguous keys refused: {e}")
        except Exception as e:
            return _r(True, input=case, observed=f"{type(e).__name__}: {e}")
        if case["expect"] == "ValueError":
            return _r(True, input=case, observed="non-contiguous group_by keys were rendered instead of being refused with ValueError")
        pages = parse(s).pages
        k = 0
        for pi, p in enumerate(pages):
            first_on_page = True
            for r in p.rows:
                t = [c.text for c in r.cells]
                if len(t) != 2 or t == ["G", "X"]:
                    continue
                want = keys[k] if (first_on_page or k == 0 or keys[k] != keys[k - 1]) else ""
                if t[0] != want or t[1] != f"r{k}":
                    return _r(True, input=case, observed=f"page {pi + 1}, data row {k}: rendered {t}, expected [{want!r}, 'r{k}']")
                k += 1
                first_on_page = False
        if k != len(keys):
            return _r(True, input=case, observed=f"{k} data rows read back, {len(keys)} expected")
    # null and the empty string are DIFFERENT group keys (both are displayed as an empty cell, but a change between them starts a new run)
    for keys, expect in ((["", "A", None], "ok"), (["", None, ""], "ValueError"), ([None, None, ""], "ok")):
        case = {"group_by": ["g"], "keys": [repr(k) for k in keys], "expect": expect}
        if saved is not None and case != saved.get("input", saved):
            continue
        dfn = pl.DataFrame({"g": pl.Series("g", keys, dtype=pl.Utf8), "x": [f"r{i}" for i in range(len(keys))]})
        try:
            rtf.RTFDocument(df=dfn, rtf_body=rtf.RTFBody(group_by=["g"], as_colheader=False)).rtf_encode()
            got = "ok"
        except ValueError:
            got = "ValueError"
        except Exception as e:
            got = type(e).__name__
        if got != expect:
            return _r(True, input=case, observed=got, expected=expect)
    dfn = pl.DataFrame({"g0": pl.Series("g0", [None, ""], dtype=pl.Utf8), "g1": ["A", "A"], "x": ["r0", "r1"]})
    try:
        s = rtf.RTFDocument(df=dfn, rtf_body=rtf.RTFBody(group_by=["g0", "g1"], as_colheader=False)).rtf_encode()
        got = [[c.text for c in r.cells] for p in parse(s).pages for r in p.rows if len(r.cells) == 3]
        if got != [["", "A", "r0"], ["", "A", "r1"]]:
            return _r(True, input={"group_by": ["g0", "g1"], "g0": ["None", "''"], "g1": ["A", "A"]}, observed=got,
                      expected=[["", "A", "r0"], ["", "A", "r1"]])
    except Exception as e:
        return _r(True, input={"group_by": ["g0", "g1"], "g0": ["None", "''"], "g1": ["A", "A"]}, observed=type(e).__name__)
    # two-level hierarchy whose key names are NOT in alphabetical order (the order of group_by is the hierarchy, outer level first)
    two = [{"SITE": ["x", "x"], "ARM": ["y", "x"]}, {"SITE": ["s1", "s1", "s2", "s2"], "ARM": ["a", "b", "a", "b"]},
           {"SITE": ["s1", "s1", "s1", "s2"], "ARM": ["a", "a", "b", "b"]}]
    for cols in two:
        case = {"group_by": ["SITE", "ARM"], "columns": cols}
        if saved is not None and case != saved.get("input", saved):
            continue
        n = len(cols["SITE"])
        df = pl.DataFrame({"ARM": cols["ARM"], "SITE": cols["SITE"], "v": [f"r{i}" for i in range(n)]})
        try:
            s = rtf.RTFDocument(df=df, rtf_body=rtf.RTFBody(group_by=["SITE", "ARM"], as_colheader=False),
                                rtf_column_header=[rtf.RTFColumnHeader(text=["AH", "SH", "VH"])]).rtf_encode()
        except Exception as e:
            return _r(True, input=case, observed=f"{type(e).__name__}: {e} (keys are contiguous for the hierarchy SITE > ARM)")
        got = [[c.text for c in r.cells] for p in parse(s).pages for r in p.rows if len(r.cells) == 3 and [c.text for c in r.cells] != ["AH", "SH", "VH"]]
        want = []
        for i in range(n):
            site_rep = i > 0 and cols["SITE"][i] == cols["SITE"][i - 1]
            arm_rep = site_rep and cols["ARM"][i] == cols["ARM"][i - 1]
            want.append(["" if arm_rep else cols["ARM"][i], "" if site_rep else cols["SITE"][i], f"r{i}"])
        if got != want:
            return _r(True, input=case, observed=got, expected=want)
    return _r(False, tried=len(cases) + len(two))


def replay_figure_document(index, ob, seed, saved=None):
    """Figure documents on the real code: figure i on page i with its own bytes, one page break between consecutive figures, title /
    footnote / source on exactly the pages their placement option selects."""
    import itertools
    import os
    import re
    import tempfile
    from PIL import Image
    rtf = index.real_module("rtflite")
    tmp = tempfile.mkdtemp(prefix="pyvc_fig_")
    try:
        paths = []
        for k in range(3):
            p = os.path.join(tmp, f"f{k}.png")
            Image.new("RGB", (3 + k, 2 + k), (40 * k, 10, 200)).save(p)
            paths.append(p)
        for nfig in (1, 2, 3):
            for pt, pf, ps in itertools.product(("first", "last", "all"), repeat=3):
                case = {"figures": nfig, "page_title": pt, "page_footnote": pf, "page_source": ps}
                if saved is not None and case != saved.get("input", saved):
                    continue
                try:
                    doc = rtf.RTFDocument(rtf_figure=rtf.RTFFigure(figures=paths[:nfig], fig_width=[2.0, 3.0], fig_height=1.5),
                                          rtf_page=rtf.RTFPage(page_title=pt, page_footnote=pf, page_source=ps), rtf_title=rtf.RTFTitle(text="TTL"),
                                          rtf_footnote=rtf.RTFFootnote(text="FNT", as_table=False), rtf_source=rtf.RTFSource(text="SRC"))
                    s = doc.rtf_encode()
                except Exception as e:
                    return _r(True, input=case, observed=f"{type(e).__name__}: {e}")
                pages = re.split(r"\\page(?![a-zA-Z])", s)
                if len(pages) != nfig:
                    return _r(True, input=case, observed=f"{len(pages)} pages for {nfig} figures")
                for i, pg in enumerate(pages):
                    m = re.search(r"\{\\pict[^ ]* ([0-9a-f\s]+)\}", pg)
                    data = open(paths[i], "rb").read().hex()
                    if not m or re.sub(r"\s+", "", m.group(1)) != data:
                        return _r(True, input=case, observed=f"page {i + 1} does not embed the bytes of figure {i + 1}")
                    wg = re.search(r"\\picwgoal(\d+)", pg)
                    want_w = int([2.0, 3.0][min(i, 1)] * 1440)
                    if not wg or int(wg.group(1)) != want_w:
                        return _r(True, input=case, observed=f"page {i + 1}: picwgoal {wg.group(1) if wg else None}, expected {want_w}")
                    for text, opt in (("TTL", pt), ("FNT", pf), ("SRC", ps)):
                        want = opt == "all" or (opt == "first" and i == 0) or (opt == "last" and i == nfig - 1)
                        if (text in pg) != want:
                            return _r(True, input=case, observed=f"page {i + 1} of {nfig}: {text} {'present' if text in pg else 'absent'}, placement {opt!r}")
        return _r(False)
    finally:
        import shutil
        shutil.rmtree(tmp, ignore_errors=True)


# ---- C11 -------------------------------------------------------------------------------------------
def replay_text_conversion(index, ob, seed, saved=None):
    """The real conversion functions (TextConverter, TextConversionService, TextContent) against the independent reference converter of
    contracts/textconv.py on commands x templates and on texts with several tokens; the known '>=' / '<=' deviation is not reported here."""
    from contracts.textconv import bounded_reference, reference_convert
    table = dict(index.real_module("rtflite.dictionary.unicode_latex").latex_to_char)
    conv = index.real_module("rtflite.text_conversion.converter").TextConverter()
    svc = index.real_module("rtflite.services.text_conversion_service").TextConversionService()
    rng = random.Random(seed)
    cmds = list(table)
    for _ in range(300):
        parts = []
        for _k in range(rng.randint(1, 4)):
            parts.append(rng.choice([rng.choice(cmds), "\\notacommand", "plain", " ", "x{y}", "\\mathbb{Zq}", "a\\b", "12.5", "\\"]))
        text = rng.choice(["", " ", "("]).join(parts)
        want = reference_convert(text, table)
        lit_only = text
        for a in ("^", "_", ">=", "<=", "\n", "\\pagenumber", "\\totalpage", "\\pagefield"):
            if a in text:
                lit_only = None
                break
        if lit_only is None:
            continue
        for name, fn in (("TextConverter.convert_latex_to_unicode", conv.convert_latex_to_unicode), ("TextConversionService._convert_single_text", svc._convert_single_text),
                         ("TextConversionService.convert_text_content", lambda t: svc.convert_text_content(t, True))):
            got = fn(text)
            if got != want:
                return _r(True, input={"text": text}, observed=got, expected=want, function=name)
        if svc.convert_text_content(text, False) != text:
            return _r(True, input={"text": text, "enable_conversion": False}, observed=svc.convert_text_content(text, False), expected=text, function="convert_text_content")
    # texts without any letter: digits, punctuation, the literal tokens (>= <= ^ _ newline)
    row = index.real_module("rtflite.row")

    def escape(s_):
        out = []
        for ch in s_:
            cp = ord(ch)
            if cp <= 127:
                out.append(ch)
            else:
                units = [cp] if cp <= 0xFFFF else [0xD800 + ((cp - 0x10000) >> 10), 0xDC00 + ((cp - 0x10000) & 0x3FF)]
                out.extend(f"\\uc1\\u{u - (0 if u < 32768 else 65536)}*" for u in units)
        return "".join(out)
    for text in (">=60", "<=0.05", "(>=18)", "12 <= 34 >= 5", "2^3", "1_2", "5\n6", ">= ", "100%", "3.5 (2.1)"):
        got_on = row.TextContent(text=text, convert=True)._convert_special_chars()
        got_off = row.TextContent(text=text, convert=False)._convert_special_chars()
        want_on = escape(reference_convert(text, table, strict=False))          # the known '>=' / '<=' delimiter-space deviation is not what is looked for
        if got_on != want_on or got_off != escape(text):
            return _r(True, input={"text": text}, observed={"convert_on": got_on, "convert_off": got_off}, expected={"convert_on": want_on, "convert_off": escape(text)},
                      function="TextContent._convert_special_chars")
    # the convert flag is bound per call: the same text (short and long, with commands) rendered with the flag on, off, on, off ... in
    # one process gives the on / off result every time, whatever was rendered before (no state may carry a conversion over)
    for text in ("\\alpha", "dose \\pm SD", "Significance level \\alpha = 0.05 two-sided; estimates shown as mean \\pm SD for the full analysis set",
                 "x" * 70 + " \\beta", "\\gamma " + "long text " * 30):
        want_on, want_off = escape(reference_convert(text, table, strict=False)), escape(text)
        for order in ((True, False, True, False), (False, True, False)):
            for flag in order:
                got = row.TextContent(text=text, convert=flag)._convert_special_chars()
                if got != (want_on if flag else want_off):
                    return _r(True, input={"text": text, "sequence_of_convert_flags": list(order), "failing_flag": flag}, observed=got,
                              expected=want_on if flag else want_off, function="TextContent._convert_special_chars")
    res = bounded_reference(index, "quick", seed)
    for f in res.get("failures", []):
        if f["name"] != "comparison_sign_followed_by_extra_space":
            return _r(True, input=f["input"], observed=f["observed"], expected=f["expected"], function="TextContent._convert_special_chars")
    return _r(False, cases=res.get("cases"))


def replay_colour_references(index, ob, seed, saved=None):
    """C12 read-back on the real pipeline: every \\cf / \\chcbpat reference of a body cell, looked up in the emitted colour table, is the RGB of
    the colour the user put on that cell ('' / black: no reference or index 0); Utils._get_color_index agrees with the colour service."""
    import re
    import polars as pl
    from contracts.readback import parse
    rtf = index.real_module("rtflite")
    row = index.real_module("rtflite.row")
    svc = index.real_module("rtflite.services.color_service").color_service
    rgb = {k: v for k, v in index.real_module("rtflite.dictionary.color_table").name_to_rgb.items()} if hasattr(index.real_module("rtflite.dictionary.color_table"), "name_to_rgb") else None
    rng = random.Random(seed)
    names = ["red", "blue", "green", "gold", "navy", "orchid", "black", ""]
    # 1. the helper against the service, explicit lists
    for _ in range(60):
        used = rng.sample(names, rng.randint(1, 5))
        col = rng.choice(names)
        want = 0 if col in ("", "black") else svc.get_rtf_color_index(col, used)
        got = row.Utils._get_color_index(col, used)
        if got != want:
            return _r(True, input={"color": col, "used_colors": used}, observed=got, expected=want, function="Utils._get_color_index")
    # 2. documents: per-cell colours, read back through the emitted colour table
    for trial in range(25):
        nr, nc = rng.randint(1, 4), rng.randint(1, 3)
        df = pl.DataFrame({f"c{j}": [f"r{i}c{j}" for i in range(nr)] for j in range(nc)})
        tc = [[rng.choice(names) for _ in range(nc)] for _ in range(nr)]
        bg = [[rng.choice(names[:4] + [""]) for _ in range(nc)] for _ in range(nr)]
        inp = {"text_color": tc, "text_background_color": bg}
        try:
            s = rtf.RTFDocument(df=df, rtf_body=rtf.RTFBody(text_color=tc, text_background_color=bg, as_colheader=False)).rtf_encode()
        except Exception as e:
            return _r(True, input=inp, observed=f"{type(e).__name__}: {e}")
        ct = re.search(r"\{\\colortbl\s*;([^}]*)\}", s)
        table = [e for e in (ct.group(1).replace("\n", "").split(";") if ct else []) if e.strip() != ""]

        def entry(idx):
            return table[idx - 1] if 1 <= idx <= len(table) else None

        def rgb_of(name):
            return svc.get_color_rtf_code(name).rstrip(";") if hasattr(svc, "get_color_rtf_code") else None
        doc = parse(s)
        rows = [r for p in doc.pages for r in p.rows]
        if len(rows) != nr:
            continue
        for i, r in enumerate(rows):
            for j, cell in enumerate(r.cells):
                for what, want_name, got_idx in (("text colour", tc[i][j], cell.cf), ("background", bg[i][j], cell.cb)):
                    if want_name in ("", "black"):
                        if got_idx not in (None, 0):
                            return _r(True, input=dict(inp, cell=[i, j]), observed=f"{what} index {got_idx}", expected="no reference / index 0")
                        continue
                    if got_idx in (None, 0) or entry(got_idx) is None or entry(got_idx).strip() != rgb_of(want_name).strip():
                        return _r(True, input=dict(inp, cell=[i, j]), observed=f"{what} index {got_idx} -> table entry {entry(got_idx) if got_idx else None!r}",
                                  expected=f"{want_name} = {rgb_of(want_name)!r}")
    # 2b. page_by shown as heading rows: rows below a group heading inside a page are encoded with a row offset; colours vary by row
    rowcols = ["red", "blue", "green", "gold", "navy", "orchid"]
    dfp = pl.DataFrame({"g": ["A", "A", "A", "B", "B", "B"], "x": [f"r{i}" for i in range(6)], "y": [f"v{i}" for i in range(6)]})
    tcm = [[c, c, c] for c in rowcols]
    inp = {"page_by": ["g"], "text_color_per_row": rowcols}
    try:
        s = rtf.RTFDocument(df=dfp, rtf_body=rtf.RTFBody(page_by=["g"], new_page=False, text_color=tcm, as_colheader=False)).rtf_encode()
    except Exception as e:
        return _r(True, input=inp, observed=f"{type(e).__name__}: {e}")
    ct = re.search(r"\{\\colortbl\s*;([^}]*)\}", s)
    table = [e for e in (ct.group(1).replace("\n", "").split(";") if ct else []) if e.strip() != ""]
    drows = [r for p in parse(s).pages for r in p.rows if len(r.cells) == 2]
    if len(drows) == 6:
        for i, r in enumerate(drows):
            want = svc.get_color_rtf_code(rowcols[i]).rstrip(";").strip()
            for cell in r.cells:
                got = table[cell.cf - 1].strip() if cell.cf and 1 <= cell.cf <= len(table) else None
                if got != want:
                    return _r(True, input=dict(inp, row=i), observed=f"text colour index {cell.cf} -> table entry {got!r}", expected=f"{rowcols[i]} = {want!r}")
    # 3. multi-section documents: each section has its own palette, references resolve in the ONE colour table of the document
    for pal in (["red", "darkgreen"], ["navy", "gold", "orchid"], ["blue", "blue"]):
        dfs = [pl.DataFrame({"a": [f"s{k}r{i}" for i in range(2)], "b": [f"s{k}x{i}" for i in range(2)]}) for k in range(len(pal))]
        inp = {"sections": len(pal), "text_color_per_section": pal}
        try:
            s = rtf.RTFDocument(df=dfs, rtf_body=[rtf.RTFBody(text_color=[c], as_colheader=False) for c in pal],
                                rtf_column_header=[[None] for _ in pal]).rtf_encode()
        except Exception as e:
            return _r(True, input=inp, observed=f"{type(e).__name__}: {e}")
        ct = re.search(r"\{\\colortbl\s*;([^}]*)\}", s)
        table = [e for e in (ct.group(1).replace("\n", "").split(";") if ct else []) if e.strip() != ""]
        rows = [r for p in parse(s).pages for r in p.rows]
        if len(rows) != 2 * len(pal):
            continue
        for k, r in enumerate(rows):
            want_name = pal[k // 2]
            want = svc.get_color_rtf_code(want_name).rstrip(";").strip()
            for cell in r.cells:
                got = table[cell.cf - 1].strip() if cell.cf and 1 <= cell.cf <= len(table) else None
                if got != want:
                    return _r(True, input=dict(inp, section=k // 2), observed=f"text colour index {cell.cf} -> table entry {got!r}", expected=f"{want_name} = {want!r}")
    return _r(False)


# ---- C10 -------------------------------------------------------------------------------------------
def _rtf_plain_text(s):
    """A small RTF reader: the text a reader shows (control words dropped, \\uN decoded with one fallback character skipped per \\uc1,
    \\\\ \\{ \\} unescaped, surrogate pairs joined); font / colour tables and \\* destinations skipped."""
    out, i, n = [], 0, len(s)
    skip_depth = None
    depth = 0
    pending_skip = 0
    units = []

    def flush_units():
        if units:
            b = b"".join(u.to_bytes(2, "little") for u in units)
            out.append(b.decode("utf-16-le", errors="replace"))
            units.clear()
    while i < n:
        ch = s[i]
        if ch == "{":
            depth += 1
            if skip_depth is None and (s.startswith("{\\fonttbl", i) or s.startswith("{\\colortbl", i) or s.startswith("{\\*", i) or s.startswith("{\\pict", i)):
                skip_depth = depth
            i += 1
            continue
        if ch == "}":
            if skip_depth is not None and depth == skip_depth:
                skip_depth = None
            depth -= 1
            i += 1
            continue
        if ch == "\\":
            if i + 1 < n and s[i + 1] in "\\{}":
                if skip_depth is None:
                    if pending_skip:
                        pending_skip -= 1
                    else:
                        flush_units()
                        out.append(s[i + 1])
                i += 2
                continue
            j = i + 1
            while j < n and s[j].isalpha():
                j += 1
            word = s[i + 1:j]
            k = j
            if k < n and (s[k] == "-" or s[k].isdigit()):
                k += 1
                while k < n and s[k].isdigit():
                    k += 1
            par = s[j:k]
            if k < n and s[k] == " ":
                k += 1
            if skip_depth is None:
                if word == "u" and par:
                    v = int(par)
                    units.append(v + 65536 if v < 0 else v)
                    pending_skip = 1
                elif word in ("par", "line", "cell", "row", "page", "tab"):
                    flush_units()
                    out.append("\n")
            i = k if word else i + 2
            continue
        if skip_depth is None and ch not in "\r\n":
            if pending_skip:
                pending_skip -= 1
            else:
                flush_units()
                out.append(ch)
        i += 1
    flush_units()
    return "".join(out)


def replay_unicode_document(index, ob, seed, saved=None):
    """C10 on whole documents: texts with Latin-1, BMP and astral characters placed in every text position (title, subline, column header,
    body cell, page_by heading, subline_by heading, footnote, source, page header / footer) are read back intact by an RTF reader."""
    import polars as pl
    rtf = index.real_module("rtflite")
    texts = ["Café München", "α-blocker ≥ 5 mg", "東京 \U0001F600", "naïve ± 0.5", "plain ascii", "ends with a no-break space\u00a0", "\u3000leading and trailing ideographic space\u3000"]
    positions = ["title", "subline", "header", "cell", "page_by_heading", "subline_by_heading", "footnote_table", "footnote_par", "footnote_lines", "source", "page_header", "page_footer"]
    for pos in positions:
        for t in texts:
            case = {"position": pos, "text": t}
            if saved is not None and case != saved.get("input", saved):
                continue
            df = pl.DataFrame({"g": [t, t, "other"], "x": ["a", "b", "c"], "y": ["1", "2", "3"]})
            kw, bkw = {}, {}
            if pos == "title":
                kw["rtf_title"] = rtf.RTFTitle(text=t)
            elif pos == "subline":
                kw["rtf_subline"] = rtf.RTFSubline(text=t)
            elif pos == "header":
                kw["rtf_column_header"] = [rtf.RTFColumnHeader(text=[t, "X", "Y"])]
            elif pos == "cell":
                pass
            elif pos == "page_by_heading":
                bkw["page_by"] = ["g"]
            elif pos == "subline_by_heading":
                bkw["subline_by"] = ["g"]
            elif pos == "footnote_table":
                kw["rtf_footnote"] = rtf.RTFFootnote(text=t, as_table=True)
            elif pos == "footnote_par":
                kw["rtf_footnote"] = rtf.RTFFootnote(text=t, as_table=False)
            elif pos == "footnote_lines":
                kw["rtf_footnote"] = rtf.RTFFootnote(text=["first line", t, "last line"])
            elif pos == "source":
                kw["rtf_source"] = rtf.RTFSource(text=t)
            elif pos == "page_header":
                kw["rtf_page_header"] = rtf.RTFPageHeader(text=t)
            elif pos == "page_footer":
                kw["rtf_page_footer"] = rtf.RTFPageFooter(text=t)
            try:
                s = rtf.RTFDocument(df=df, rtf_body=rtf.RTFBody(**bkw), **kw).rtf_encode()
            except Exception as e:
                return _r(True, input=case, observed=f"{type(e).__name__}: {e}")
            non_ascii = [c for c in s if ord(c) > 127]
            if non_ascii:
                return _r(True, input=case, observed=f"raw non-ASCII character U+{ord(non_ascii[0]):04X} in the RTF stream")
            plain = _rtf_plain_text(s)
            if pos == "footnote_lines" and not ("first line" in plain and "last line" in plain and t in plain[plain.index("first line"):plain.index("last line")]):
                return _r(True, input=case, observed="the three footnote lines are not read back in order", expected=["first line", t, "last line"])
            if t not in plain:
                near = [ln for ln in plain.split("\n") if ln.strip() and (t[:3] in ln or "\\u" in ln)][:2]
                return _r(True, input=case, observed=f"text not read back intact; reader shows {near}", expected=t)
    return _r(False, tried=len(positions) * len(texts))


# ---- C17 -------------------------------------------------------------------------------------------
def replay_assemble(index, ob, seed, saved=None):
    """Real documents written by write_rtf and assembled by the real assemble_rtf (the bounded read-back of contracts/assemble.py, all
    ordered pairs and singles): the first failing order is the replayed input."""
    from contracts.assemble import bounded_assemble
    res = bounded_assemble(index, "quick", seed)
    for f in res.get("failures", []):
        return _r(True, input=f.get("input"), observed=f.get("observed", f.get("name")))
    return _r(False, cases=res.get("cases"))


# ---- C18: the real converter with a fake LibreOffice executable ---------------------------------------------------------------------
_FAKE_SOFFICE = r"""#!/bin/sh
if [ "$1" = "--version" ]; then echo "LibreOffice 24.8.3.2 fake"; exit 0; fi
fmt=""; outdir=""; input=""
while [ $# -gt 0 ]; do
  case "$1" in
    --convert-to) fmt="$2"; shift 2 ;;
    --outdir) outdir="$2"; shift 2 ;;
    --*) shift ;;
    *) input="$1"; shift ;;
  esac
done
stem=$(basename "$input" .rtf)
mode=$(cat "$(dirname "$0")/mode")
case "$mode" in
  ok) printf 'CONVERTED' > "$outdir/$stem.$fmt"; exit 0 ;;
  fail_after_output) printf 'TRUNCATED' > "$outdir/$stem.$fmt"; exit 1 ;;
  fail_before_output) exit 1 ;;
  ok_no_output) exit 0 ;;
esac
"""


def replay_converter(index, ob, seed, saved=None):
    """write_docx / write_html / write_pdf through the REAL LibreOfficeConverter driven by a fake soffice executable that succeeds, fails
    before writing, fails after writing a truncated output, or succeeds without output: on every failure the export must raise and leave a
    pre-existing target byte-for-byte unchanged (no partial target where none existed)."""
    import os, stat, tempfile, shutil, contextlib, io
    import polars as pl
    rtf = index.real_module("rtflite")
    conv_mod = index.real_module("rtflite.convert")
    tmp = tempfile.mkdtemp(prefix="verif_c18conv_")
    try:
        bindir = os.path.join(tmp, "bin")
        os.makedirs(bindir)
        exe = os.path.join(bindir, "soffice")
        with open(exe, "w") as f:
            f.write(_FAKE_SOFFICE)
        os.chmod(exe, os.stat(exe).st_mode | stat.S_IXUSR | stat.S_IXGRP | stat.S_IXOTH)
        doc = rtf.RTFDocument(df=pl.DataFrame({"A": ["a", "b"]}))
        for mode in ("fail_after_output", "fail_before_output", "ok_no_output", "ok"):
            for fmt, meth in (("docx", "write_docx"), ("pdf", "write_pdf"), ("html", "write_html")):
                for pre in (True, False):
                    case = {"converter": mode, "format": fmt, "target_exists_before": pre}
                    if saved is not None and case != saved.get("input", saved):
                        continue
                    with open(os.path.join(bindir, "mode"), "w") as f:
                        f.write(mode)
                    target = os.path.join(tmp, f"out_{mode}_{fmt}_{int(pre)}", f"report.{fmt}")
                    os.makedirs(os.path.dirname(target), exist_ok=True)
                    if pre:
                        with open(target, "wb") as f:
                            f.write(b"ORIGINAL")
                    raised = None
                    try:
                        with contextlib.redirect_stdout(io.StringIO()), contextlib.redirect_stderr(io.StringIO()):
                            converter = conv_mod.LibreOfficeConverter(executable_path=exe)
                            getattr(doc, meth)(target, converter=converter)
                    except Exception as e:
                        raised = type(e).__name__
                    now = open(target, "rb").read() if os.path.exists(target) else None
                    if mode == "ok":
                        if raised or now != b"CONVERTED":
                            return _r(True, input=case, observed=f"raised={raised}, target={now!r}", expected="target holds the converter's output")
                        continue
                    if raised is None:
                        return _r(True, input=case, observed=f"no exception; target now {now!r}", expected="the export raises")
                    if now != (b"ORIGINAL" if pre else None):
                        return _r(True, input=case, observed=f"target now {now!r}", expected="ORIGINAL" if pre else "no target")
    finally:
        shutil.rmtree(tmp, ignore_errors=True)
    return _r(False)


def replay_component_keywords(index, ob, seed, saved=None):
    """Component constructors on the real code: a keyword given by the caller reaches the component with the caller's value, also when it is
    False / 0 (scalar spelling, as the package documentation writes it); and a body built with text_convert=False renders its cells verbatim."""
    import polars as pl
    from contracts.readback import parse
    rtf = index.real_module("rtflite")

    def flat(v):
        while isinstance(v, (list, tuple)) and len(v) > 0:
            v = v[0]
        return v
    probes = [("RTFBody", {}), ("RTFTitle", {"text": "t"}), ("RTFSubline", {"text": "t"}), ("RTFFootnote", {"text": "t"}), ("RTFSource", {"text": "t"}),
              ("RTFColumnHeader", {"text": ["a"]}), ("RTFPageHeader", {}), ("RTFPageFooter", {"text": "t"})]
    falsy = [("text_convert", False), ("text_hyphenation", False), ("text_space_before", 0), ("text_indent_left", 0)]
    for cls, base in probes:
        for key, val in falsy:
            case = {"class": cls, "keyword": key, "value": repr(val)}
            if saved is not None and case != saved.get("input", saved):
                continue
            try:
                obj = getattr(rtf, cls)(**dict(base, **{key: val}))
            except Exception as e:
                return _r(True, input=case, observed=f"{type(e).__name__}: {e}")
            got = flat(getattr(obj, key))
            if got != val or type(got) is not type(val):
                return _r(True, input=case, observed=f"{key} of the component is {getattr(obj, key)!r}", expected=f"the caller's {val!r}")
    df = pl.DataFrame({"a": ["x^2", "a_1"], "b": ["n >= 5", "4^"]})
    s = rtf.RTFDocument(df=df, rtf_body=rtf.RTFBody(text_convert=False, as_colheader=False)).rtf_encode()
    cells = [c.text for p in parse(s).pages for r in p.rows for c in r.cells]
    if cells != ["x^2", "n >= 5", "a_1", "4^"]:
        return _r(True, input={"body": "RTFBody(text_convert=False)", "cells": ["x^2", "n >= 5", "a_1", "4^"]}, observed=cells, expected="the cells verbatim")
    return _r(False)


def replay_failing_encode_exports(index, ob, seed, saved=None):
    """An export of a document whose encoding genuinely fails (non-contiguous group_by keys: ValueError inside the pipeline): rtf_encode and
    write_rtf must raise, a pre-existing target stays byte-for-byte unchanged and no new target appears."""
    import os, tempfile, shutil
    import polars as pl
    rtf = index.real_module("rtflite")
    tmp = tempfile.mkdtemp(prefix="verif_c18enc_")
    try:
        doc = rtf.RTFDocument(df=pl.DataFrame({"g": ["A", "B", "A"], "v": ["1", "2", "3"]}), rtf_body=rtf.RTFBody(group_by=["g"]))
        try:
            s = doc.rtf_encode()
            return _r(True, input={"document": "group_by keys A, B, A (not contiguous)"}, observed=f"rtf_encode returned a string of length {len(s)}", expected="ValueError")
        except ValueError:
            pass
        for pre in (True, False):
            target = os.path.join(tmp, f"t{int(pre)}", "out.rtf")
            if pre:
                os.makedirs(os.path.dirname(target))
                with open(target, "wb") as f:
                    f.write(b"ORIGINAL")
            raised = None
            try:
                doc.write_rtf(target)
            except Exception as e:
                raised = type(e).__name__
            now = open(target, "rb").read() if os.path.exists(target) else None
            if raised is None or now != (b"ORIGINAL" if pre else None):
                return _r(True, input={"document": "group_by keys A, B, A (not contiguous)", "target_exists_before": pre},
                          observed=f"raised={raised}, target now {now!r}", expected="an exception; target " + ("unchanged" if pre else "absent"))
    finally:
        shutil.rmtree(tmp, ignore_errors=True)
    return _r(False)
