"""More construction-time validators (C19): RTFPage.validate_margin, RTFBody._validate_page_by_logic,
RTFDocument._validate_section_columns.  Each returns normally exactly for legal input and otherwise raises ValueError (nothing else)."""
import z3
from z3 import And, Or, Not, Implies, ForAll, Exists, IntVal

from pyvc.contract import Contract
from pyvc.interp import LoopSpec
from pyvc import types as T
from pyvc.values import ListObj, RecObj, Ref, Opt, lit, to_z3, norm_str, StrSort, fresh_name
from pyvc.seqs import as_symlist
from pyvc.libmodels.polars_model import PolarsModel, fresh_df
from pyvc.libmodels.strings import StrModel


class ValidateMargin(Contract):
    """RTFPage.validate_margin(v): returns v iff v is None or has exactly six entries; ValueError otherwise."""
    target = "input.py::RTFPage.validate_margin"
    serves = ["C19"]
    variants = ["none", "list"]
    raises = {"ValueError": lambda c, out: {"only_for_a_margin_list_that_is_not_six_long": c.obj(c.v["v"]).length != 6 if c.variant == "list" else z3.BoolVal(False)}}

    def setup(self, c):
        c.bind("cls", c.cls("rtflite.input", "RTFPage"))
        v = None if c.variant == "none" else c.fresh("margin", T.List(T.Real))
        c.bind("v", v)
        c.v.update(v=v)

    def ensures(self, c, out):
        cl = {"returns_its_input": z3.BoolVal(out.value is c.v["v"] or (isinstance(out.value, Ref) and isinstance(c.v["v"], Ref) and out.value.oid == c.v["v"].oid))}
        if c.variant == "list":
            cl["accepted_only_with_six_values"] = c.obj(c.v["v"]).length == 6
        return cl


class ValidatePageByLogic(Contract):
    """RTFBody._validate_page_by_logic(): ValueError exactly when new_page is set without page_by."""
    target = "input.py::RTFBody._validate_page_by_logic"
    serves = ["C19"]
    variants = ["page_by_none", "page_by_list"]
    raises = {"ValueError": lambda c, out: {"only_for_new_page_without_page_by": And(z3.BoolVal(c.variant == "page_by_none"), to_z3(c.v["newp"]))}}

    def setup(self, c):
        newp = c.fresh("new_page", T.Bool)
        pb = None if c.variant == "page_by_none" else c.fresh("page_by", T.List(T.Str))
        c.bind("self", c.alloc(RecObj("RTFBody", {"page_by": pb, "new_page": newp}, pyclass=c.cls("rtflite.input", "RTFBody"), fresh=False)))
        c.v.update(newp=newp)

    def ensures(self, c, out):
        return {"accepted_only_when_consistent": Or(z3.BoolVal(c.variant == "page_by_list"), Not(to_z3(c.v["newp"])))}


class ValidateSectionColumns(Contract):
    """RTFDocument._validate_section_columns(df, body, k): returns iff every group_by / page_by / subline_by key names a column of
    the frame; ValueError otherwise (this is what the column-removal and grouping carriers rely on)."""
    target = "encode.py::RTFDocument._validate_section_columns"
    serves = ["C19"]
    models = [PolarsModel(), StrModel()]
    variants = ["all_lists", "no_lists", "page_by_only"]

    def setup(self, c):
        c.bind("self", c.alloc(RecObj("RTFDocument", {}, pyclass=c.cls("rtflite.encode", "RTFDocument"), fresh=False)))
        df = fresh_df(c.st, "df")
        c.bind("df", df)
        c.bind("section_index", c.fresh("section_index", T.Int))
        mk = lambda n: c.fresh(n, T.List(T.Str))
        gb = mk("group_by") if c.variant == "all_lists" else None
        pb = mk("page_by") if c.variant in ("all_lists", "page_by_only") else None
        sb = mk("subline_by") if c.variant == "all_lists" else None
        c.bind("body", c.alloc(RecObj("RTFBody", {"group_by": gb, "page_by": pb, "subline_by": sb}, pyclass=c.cls("rtflite.input", "RTFBody"), fresh=False)))
        c.v.update(d=c.obj(df), lists=[x for x in (gb, pb, sb) if x is not None])

    def _all_present(self, c, st):
        d = c.v["d"]
        k, j = z3.Int("k"), z3.Int("j")
        cs = []
        for lst in c.v["lists"]:
            n, g = as_symlist(st, st.obj(lst))
            cs.append(ForAll([k], Implies(And(0 <= k, k < to_z3(n)), Exists([j], And(0 <= j, j < d.w, d.colname(j) == to_z3(g(k)))))))
        return And(*cs) if cs else z3.BoolVal(True)

    @property
    def raises(self):
        return {"ValueError": lambda c, out: {"only_when_a_key_is_not_a_column": Not(self._all_present(c, out.state))}}

    def setup_loops(self, c):
        d = c.v["d"]

        def inv_for(lst):
            def inv(vv):
                n, g = as_symlist(vv.state, vv.obj(lst))
                k, j = z3.Int("k"), z3.Int("j")
                return {"keys_so_far_are_columns": ForAll([k], Implies(And(0 <= k, k < vv.i), Exists([j], And(0 <= j, j < d.w, d.colname(j) == to_z3(g(k))))))}
            return inv
        self.loops = {i: LoopSpec(inv=inv_for(lst)) for i, lst in enumerate(c.v["lists"])}
        if c.variant == "page_by_only":
            self.loops = {1: LoopSpec(inv=inv_for(c.v["lists"][0]))}
        self.loops_optional = {0, 1, 2}

    def ensures(self, c, out):
        return {"accepted_only_when_every_key_is_a_column": self._all_present(c, out.state)}


UNITS = [ValidateMargin(), ValidatePageByLogic(), ValidateSectionColumns()]


def _page_defaults_contract(method, w0, h0, gap, nrow0):
    class PageDefaults(Contract):
        __doc__ = (f"RTFPage.{method}(): a paper width / height / margin list / table width / nrow the user configured (validated positive) is kept; "
                   f"an unset one becomes the orientation's default (width {w0}, height {h0}, table width = width - {gap}, nrow {nrow0}) - C06: the page "
                   "geometry is the configured one, C03 / C04: the row budget is the configured nrow.")
        target = f"input.py::RTFPage.{method}"
        serves = ["C06", "C03"]
        variants = ["all_configured", "nothing_configured", "only_width_configured"]

        def setup(self, c):
            var = c.variant
            cls = c.cls("rtflite.input", "RTFPage")
            f = {}
            if var == "all_configured":
                f = {"width": c.fresh("width", T.Real), "height": c.fresh("height", T.Real), "margin": c.fresh("margin", T.List(T.Real, minlen=6)),
                     "col_width": c.fresh("col_width", T.Real), "nrow": c.fresh("nrow", T.Int)}
                for k in ("width", "height", "col_width", "nrow"):
                    c.requires(f"{k}_positive", f[k] > 0)            # validate_width_height / positive-value validators (C19 carriers)
            elif var == "only_width_configured":
                f = {"width": c.fresh("width", T.Real), "height": None, "margin": None, "col_width": None, "nrow": None}
                c.requires("width_positive", f["width"] > 0)
            else:
                f = {"width": None, "height": None, "margin": None, "col_width": None, "nrow": None}
            me = c.alloc(RecObj("RTFPage", dict(f), pyclass=cls, fresh=False))
            c.bind("self", me)
            c.v.update(me=me, f=f)

        def ensures(self, c, out):
            from pyvc import ops
            st, f, var = out.state, c.v["f"], c.variant
            g = st.obj(c.v["me"]).fields
            R = lambda x: ops.to_real(x)
            cl = {}
            if var == "all_configured":
                for k in ("width", "height", "col_width"):
                    cl[f"C06.configured_{k}_is_kept"] = R(g[k]) == R(f[k])
                cl["C03.configured_nrow_is_kept"] = to_z3(g["nrow"]) == to_z3(f["nrow"])
                cl["C06.configured_margins_are_kept"] = z3.BoolVal(isinstance(g["margin"], Ref) and g["margin"].oid == f["margin"].oid)
            elif var == "only_width_configured":
                cl["C06.configured_width_is_kept"] = R(g["width"]) == R(f["width"])
                cl["C06.table_width_defaults_to_the_configured_width_minus_the_margin_gap"] = R(g["col_width"]) == R(f["width"]) - z3.RealVal(str(gap))
                cl["C03.nrow_defaults"] = to_z3(g["nrow"]) == nrow0
            else:
                cl["C06.default_paper_size"] = And(R(g["width"]) == z3.RealVal(str(w0)), R(g["height"]) == z3.RealVal(str(h0)))
                cl["C06.default_table_width"] = R(g["col_width"]) == z3.RealVal(str(w0)) - z3.RealVal(str(gap))
                cl["C03.nrow_defaults"] = to_z3(g["nrow"]) == nrow0
                m = g["margin"]
                cl["C06.default_margins_are_six_values"] = z3.BoolVal(isinstance(m, Ref) and st.obj(m).items is not None and len(st.obj(m).items) == 6)
            return cl
    PageDefaults.__name__ = "PageDefaults_" + method
    return PageDefaults


PortraitDefaults = _page_defaults_contract("_set_portrait_defaults", 8.5, 11, 2.25, 40)
LandscapeDefaults = _page_defaults_contract("_set_landscape_defaults", 11, 8.5, 2.5, 24)
UNITS.extend([PortraitDefaults(), LandscapeDefaults()])
