"""More construction-time validators (C19): RTFPage.validate_margin, RTFBody._validate_page_by_logic,
RTFDocument._validate_section_columns.  Each returns normally exactly for legal input and otherwise raises ValueError (nothing else)."""
import z3
from z3 import And, Or, Not, Implies, ForAll, Exists, IntVal

from pyvc.contract import Contract
from pyvc.interp import LoopSpec
from pyvc import types as T
from pyvc.values import ListObj, RecObj, Ref, Opt, lit, to_z3, norm_str, StrSort, fresh_name
from pyvc.seqs import as_symlist
from pyvc.libmodels.polars_model import PolarsModel, fresh_df
from pyvc.libmodels.strings import StrModel


class ValidateMargin(Contract):
    """RTFPage.validate_margin(v): returns v iff v is None or has exactly six entries; ValueError otherwise."""
    target = "input.py::RTFPage.validate_margin"
    serves = ["C19"]
    variants = ["none", "list"]
    raises = {"ValueError": lambda c, out: {"only_for_a_margin_list_that_is_not_six_long": c.obj(c.v["v"]).length != 6 if c.variant == "list" else z3.BoolVal(False)}}

    def setup(self, c):
        c.bind("cls", c.cls("rtflite.input", "RTFPage"))
        v = None if c.variant == "none" else c.fresh("margin", T.List(T.Real))
        c.bind("v", v)
        c.v.update(v=v)

    def ensures(self, c, out):
        cl = {"returns_its_input": z3.BoolVal(out.value is c.v["v"] or (isinstance(out.value, Ref) and isinstance(c.v["v"], Ref) and out.value.oid == c.v["v"].oid))}
        if c.variant == "list":
            cl["accepted_only_with_six_values"] = c.obj(c.v["v"]).length == 6
        return cl


class ValidatePageByLogic(Contract):
    """RTFBody._validate_page_by_logic(): ValueError exactly when new_page is set without page_by."""
    target = "input.py::RTFBody._validate_page_by_logic"
    serves = ["C19"]
    variants = ["page_by_none", "page_by_list"]
    raises = {"ValueError": lambda c, out: {"only_for_new_page_without_page_by": And(z3.BoolVal(c.variant == "page_by_none"), to_z3(c.v["newp"]))}}

    def setup(self, c):
        newp = c.fresh("new_page", T.Bool)
        pb = None if c.variant == "page_by_none" else c.fresh("page_by", T.List(T.Str))
        c.bind("self", c.alloc(RecObj("RTFBody", {"page_by": pb, "new_page": newp}, pyclass=c.cls("rtflite.input", "RTFBody"), fresh=False)))
        c.v.update(newp=newp)

    def ensures(self, c, out):
        return {"accepted_only_when_consistent": Or(z3.BoolVal(c.variant == "page_by_list"), Not(to_z3(c.v["newp"])))}


class ValidateSectionColumns(Contract):
    """RTFDocument._validate_section_columns(df, body, k): returns iff every group_by / page_by / subline_by key names a column of
    the frame; ValueError otherwise (this is what the column-removal and grouping carriers rely on)."""
    target = "encode.py::RTFDocument._validate_section_columns"
    serves = ["C19"]
    models = [PolarsModel(), StrModel()]
    variants = ["all_lists", "no_lists", "page_by_only"]

    def setup(self, c):
        c.bind("self", c.alloc(RecObj("RTFDocument", {}, pyclass=c.cls("rtflite.encode", "RTFDocument"), fresh=False)))
        df = fresh_df(c.st, "df")
        c.bind("df", df)
        c.bind("section_index", c.fresh("section_index", T.Int))
        mk = lambda n: c.fresh(n, T.List(T.Str))
        gb = mk("group_by") if c.variant == "all_lists" else None
        pb = mk("page_by") if c.variant in ("all_lists", "page_by_only") else None
        sb = mk("subline_by") if c.variant == "all_lists" else None
        c.bind("body", c.alloc(RecObj("RTFBody", {"group_by": gb, "page_by": pb, "subline_by": sb}, pyclass=c.cls("rtflite.input", "RTFBody"), fresh=False)))
        c.v.update(d=c.obj(df), lists=[x for x in (gb, pb, sb) if x is not None])

    def _all_present(self, c, st):
        d = c.v["d"]
        k, j = z3.Int("k"), z3.Int("j")
        cs = []
        for lst in c.v["lists"]:
            n, g = as_symlist(st, st.obj(lst))
            cs.append(ForAll([k], Implies(And(0 <= k, k < to_z3(n)), Exists([j], And(0 <= j, j < d.w, d.colname(j) == to_z3(g(k)))))))
        return And(*cs) if cs else z3.BoolVal(True)

    @property
    def raises(self):
        return {"ValueError": lambda c, out: {"only_when_a_key_is_not_a_column": Not(self._all_present(c, out.state))}}

    def setup_loops(self, c):
        d = c.v["d"]

        def inv_for(lst):
            def inv(vv):
                n, g = as_symlist(vv.state, vv.obj(lst))
                k, j = z3.Int("k"), z3.Int("j")
                return {"keys_so_far_are_columns": ForAll([k], Implies(And(0 <= k, k < vv.i), Exists([j], And(0 <= j, j < d.w, d.colname(j) == to_z3(g(k))))))}
            return inv
        self.loops = {i: LoopSpec(inv=inv_for(lst)) for i, lst in enumerate(c.v["lists"])}
        if c.variant == "page_by_only":
            self.loops = {1: LoopSpec(inv=inv_for(c.v["lists"][0]))}
        self.loops_optional = {0, 1, 2}

    def ensures(self, c, out):
        return {"accepted_only_when_every_key_is_a_column": self._all_present(c, out.state)}


UNITS = [ValidateMargin(), ValidatePageByLogic(), ValidateSectionColumns()]
