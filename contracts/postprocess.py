"""encoding/unified_encoder.py::UnifiedRTFEncoder._apply_data_post_processing (C02: every page shows exactly its own rows of the
column-reduced frame; C13: the page start indices handed to restore_page_context are the first rows of pages 2..P)."""
import z3
from z3 import And, Or, Not, Implies, ForAll, If, IntVal

from pyvc.contract import Contract
from pyvc.interp import LoopSpec
from pyvc import types as T
from pyvc.values import ListObj, RecObj, Ref, Opt, lit, to_z3, norm_str, fresh_name
from pyvc.state import OutOfSubset, lazy_alloc
from pyvc.seqs import as_symlist, safe_view
from pyvc.libmodels.polars_model import PolarsModel, DfObj, fresh_df
from pyvc.libmodels.strings import StrModel


class ApplyDataPostProcessing(Contract):
    """Precondition (strategies' postcondition, units Paginate*): pages 0..P-1 hold consecutive row intervals [S(k), S(k)+H(k)) of the
    original frame, S(0) = 0, S(P) = n, and the column-reduced frame has the same n rows.
    Postcondition, per page k (established in the iteration that visits page k; every page is visited once and only its own
    `data` is written): page k's data is rows [S(k), S(k)+H(k)) of the column-reduced frame - or of the group_by-restored frame when
    group_by is set, where the restored frame is restore_page_context(enhance_group_by(frame), frame, group_by, [S(1), ..., S(P-1)])."""
    target = "encoding/unified_encoder.py::UnifiedRTFEncoder._apply_data_post_processing"
    serves = ["C02", "C13"]
    models = [PolarsModel(), StrModel()]
    variants = ["no_group_by", "group_by"]

    def setup(self, c):
        cls = c.cls("rtflite.encoding.unified_encoder", "UnifiedRTFEncoder")
        c.bind("self", c.alloc(RecObj("UnifiedRTFEncoder", {}, pyclass=cls, fresh=False)))
        orig = fresh_df(c.st, "original_df")
        proc = fresh_df(c.st, "processed_df")
        od, pd = c.obj(orig), c.obj(proc)
        c.requires("column_removal_keeps_the_rows", pd.n == od.n)            # prepare_dataframe_for_body_encoding: select() keeps rows
        P = z3.Int(fresh_name("n_pages"))
        S = z3.Function(fresh_name("page_first_row"), z3.IntSort(), z3.IntSort())
        k = z3.Int("k")
        c.requires("pages_partition_the_rows", And(P >= 1, S(0) == 0, S(P) == od.n, ForAll([k], Implies(And(0 <= k, k < P), S(k) < S(k + 1)))))
        c.requires("page_intervals_lie_within_the_frame", ForAll([k], Implies(And(0 <= k, k <= P), And(0 <= S(k), S(k) <= od.n))))
        H = lambda j: S(to_z3(j) + 1) - S(to_z3(j))
        memo = {}

        def mk_page(j):
            j = j if z3.is_expr(j) else IntVal(j)
            key = str(z3.simplify(j))
            if key not in memo:
                lo = S(j)
                data = lazy_alloc(DfObj(H(j), od.w, lambda r, cc, lo=lo: od.cell(lo + to_z3(r), cc), od.colname, origin=(orig, lo)))
                memo[key] = lazy_alloc(RecObj("PageContext", {"data": data, "page_number": z3.simplify(j + 1)}, fresh=False, origin="CALLER"))
            return memo[key]
        pages = c.alloc(ListObj(length=P, get=lambda j: mk_page(j), fresh=False))
        c.bind("pages", pages)
        c.bind("processed_df", proc)
        gb = c.alloc(ListObj(items=["g0"], fresh=False)) if c.variant == "group_by" else None
        c.bind("rtf_body", c.alloc(RecObj("RTFBody", {"group_by": gb}, pyclass=c.cls("rtflite.input", "RTFBody"), fresh=False)))
        c.v.update(orig=orig, proc=proc, od=od, pd=pd, P=P, S=S, H=H, mk_page=mk_page, pages=pages, gb=gb)
        c.ghost("restore_args", None)

    def _page_index(self, st, page_ref):
        o = st.obj(page_ref)
        return z3.simplify(to_z3(o.fields["page_number"]) - 1)

    # ---- grouping service (units SuppressSingle / SuppressHierarchical / RestorePageContext) ---------------------------------------
    @property
    def summaries(self):
        def enhance(I, st, args, kwargs, node):
            vv = self._v
            site = getattr(node, "lineno", None)
            I.oblige(st, f"C13.suppression_runs_on_the_whole_column_reduced_frame@L{site}", z3.BoolVal(isinstance(args[1], Ref) and args[1].oid == vv["proc"].oid), "post", site)
            I.oblige(st, f"C13.suppression_uses_the_bodys_group_by@L{site}", z3.BoolVal(isinstance(args[2], Ref) and args[2].oid == vv["gb"].oid), "post", site)
            sup = fresh_df(st, "suppressed_df")
            st.assume(st.obj(sup).n == vv["pd"].n)
            st.ghost["suppressed"] = sup
            return sup

        def restore(I, st, args, kwargs, node):
            vv = self._v
            site = getattr(node, "lineno", None)
            sup, full, gb, starts = args[1], args[2], args[3], args[4]
            I.oblige(st, f"C13.restore_gets_the_suppressed_and_the_original_values@L{site}",
                     z3.BoolVal(isinstance(sup, Ref) and st.ghost.get("suppressed") is not None and sup.oid == st.ghost["suppressed"].oid
                                and isinstance(full, Ref) and full.oid == vv["proc"].oid), "post", site)
            n, g = as_symlist(st, st.obj(starts))
            j = z3.Int("j")
            P, S = vv["P"], vv["S"]
            I.oblige(st, f"C13.page_starts_are_the_first_rows_of_pages_2_to_P@L{site}",
                     And(to_z3(n) == P - 1, ForAll([j], Implies(And(0 <= j, j < P - 1), to_z3(g(j)) == S(j + 1)))), "post", site)
            res = fresh_df(st, "restored_df")
            st.assume(st.obj(res).n == vv["pd"].n)
            st.ghost["restored"] = res
            return res
        return {"GroupingService.enhance_group_by": enhance, "GroupingService.restore_page_context": restore}

    def setup_loops(self, c):
        self._v = v = c.v
        P, S, H = v["P"], v["S"], v["H"]
        noop = lambda I, st, name, ref: None

        def recut_clauses(vv, var, which):
            """At the end of the iteration that visited page i-1 (only then is the loop variable bound): its data is rows
            [S(i-1), S(i-1)+H(i-1)) of the intended frame.  Every page is visited once and only its own `data` is written."""
            st = vv._state
            idx = st.ghost.get("__iter_index__")
            # active only when evaluated at the end of an iteration of THIS loop (index just visited == i - 1); a stale binding of the
            # loop variable (left by an earlier loop) is never constrained
            if idx is None or not z3.is_expr(vv.i) or not z3.simplify(vv.i - 1).eq(z3.simplify(to_z3(idx))):
                return {}
            if var not in st.env:
                return {}
            page = st.env[var]
            if not isinstance(page, Ref):
                return {}
            d = st.obj(st.obj(page).fields["data"])
            want = v["proc"] if which == "processed" else st.ghost.get("restored")
            ok_src = isinstance(d, DfObj) and d.origin is not None and want is not None and d.origin[0].oid == want.oid
            cl = {f"C02.visited_page_shows_a_row_slice_of_the_{which}_frame": z3.BoolVal(bool(ok_src))}
            if ok_src:
                k = vv.i - 1
                cl[f"C02.visited_page_shows_exactly_its_own_rows_of_the_{which}_frame"] = Implies(vv.i >= 1, And(to_z3(d.origin[1]) == S(k), to_z3(d.n) == H(k)))
            return cl

        def inv_cut(name, var, which):
            def inv(vv):
                cl = {"range": And(0 <= vv.i, vv.i <= P), f"{name}_is_first_row_of_page_i": to_z3(getattr(vv, name)) == S(vv.i)}
                cl.update(recut_clauses(vv, var, which))
                return cl
            return inv

        def inv_starts(vv):
            lst = vv.obj(vv.page_start_indices)
            n, g = safe_view(vv.state, lst, IntVal(-1))
            j = z3.Int("j")
            return {"range": And(0 <= vv.i, vv.i <= P), "cumulative_is_first_row_of_page_i": to_z3(vv.cumulative) == S(vv.i),
                    "starts_so_far": And(to_z3(n) == If(vv.i == 0, 0, vv.i - 1), ForAll([j], Implies(And(0 <= j, j < vv.i - 1), to_z3(g(j)) == S(j + 1))))}
        self.loops = {0: LoopSpec(inv=inv_cut("current_idx", "page", "processed"), havoc={"page": noop, "current_idx": T.Int}),
                      1: LoopSpec(inv=inv_starts, havoc={"page_start_indices": T.List(T.Int), "cumulative": T.Int}),
                      2: LoopSpec(inv=inv_cut("curr", "p", "restored"), havoc={"p": noop, "curr": T.Int})}
        self.loops_optional = {1, 2}

    def ensures(self, c, out):
        return {"returns_none": z3.BoolVal(out.value is None)}


UNITS = [ApplyDataPostProcessing()]
