"""Placement predicates and page geometry (DESIGN A15-A16): C06."""
import z3
from z3 import And, Or, Not, Implies, If

from pyvc.contract import Contract
from pyvc import types as T
from pyvc.ops import truth, PYROUND
from pyvc.values import lit, ListObj, RecObj, StrSort
from contracts.rtfview import param_int, ctl_params, all_params_integral, literal_text


def _spec(loc, first, last):
    return Or(loc == lit("all"), And(loc == lit("first"), first), And(loc == lit("last"), last))


class ShouldShow(Contract):
    target = "encoding/renderer.py::PageRenderer._should_show"
    serves = ["C06", "C16"]

    def setup(self, c):
        c.param("self", T.Rec("PageRenderer"))
        c.param("location", T.Str)
        c.param("page", T.Rec("PageContext", is_first_page=T.Bool, is_last_page=T.Bool))

    def ensures(self, c, out):
        pg = c.obj(c.v["page"]).fields
        return {"predicate": z3.simplify(z3.BoolVal(True)) if False else
                (truth(out.state, out.value) if not isinstance(truth(out.state, out.value), bool) else z3.BoolVal(truth(out.state, out.value)))
                == _spec(c.v["location"], pg["is_first_page"], pg["is_last_page"])}


class ShouldShowElement(Contract):
    target = "pagination/processor.py::PageFeatureProcessor._should_show_element"
    serves = ["C06", "C07"]

    def setup(self, c):
        c.param("self", T.Rec("PageFeatureProcessor"))
        c.param("element_location", T.Str)
        c.param("page", T.Rec("PageContext", is_first_page=T.Bool, is_last_page=T.Bool))

    def ensures(self, c, out):
        pg = c.obj(c.v["page"]).fields
        t = truth(out.state, out.value)
        t = t if not isinstance(t, bool) else z3.BoolVal(t)
        return {"predicate": t == _spec(c.v["element_location"], pg["is_first_page"], pg["is_last_page"])}


def twip(x):
    return PYROUND(1440 * x)


def _page_rec(c, name="page"):
    margins = [c.fresh(f"m{k}", T.Real) for k in range(6)]
    mref = c.alloc(ListObj(items=list(margins), fresh=False))
    w, h = c.fresh("w", T.Real), c.fresh("h", T.Real)
    orient = c.fresh("orientation", T.Str)
    page = c.alloc(RecObj("RTFPage", {"width": w, "height": h, "margin": mref, "orientation": orient}, fresh=False, origin="CALLER"))
    c.requires("positive_size", And(w > 0, h > 0))
    c.requires("orientation_legal", Or(orient == lit("portrait"), orient == lit("landscape")))
    c.v.update(w=w, h=h, mlist=margins, orient=orient)
    return page


_WORDS = ["paperw", "paperh", "margl", "margr", "margt", "margb", "headery", "footery"]


def _geometry_clauses(c, rope):
    w, h, m = c.v["w"], c.v["h"], c.v["mlist"]
    want = dict(zip(_WORDS, [twip(w), twip(h)] + [twip(x) for x in m]))
    cl = {}
    for word in _WORDS:
        got = param_int(rope, word)
        cl[f"has_{word}"] = z3.BoolVal(got is not None)
        if got is not None:
            cl[f"{word}_is_inches_x_1440_rounded"] = got == want[word]
    cl["numeric_params_integral"] = z3.BoolVal(all_params_integral(rope))
    order = [wd for wd, _ in ctl_params(rope) if wd in _WORDS]
    cl["each_once_in_order"] = z3.BoolVal(order == _WORDS)
    return cl


class PageBreak(Contract):
    """RTFDocumentService.generate_page_break -> encode_page_break + encode_page_margin (inlined): the break restates
    paper size and margins as round(inches*1440), the same integers as the document start (C06)."""
    target = "services/document_service.py::RTFDocumentService.generate_page_break"
    serves = ["C06", "C01"]

    def setup(self, c):
        es_cls = c.cls("rtflite.services.encoding_service", "RTFEncodingService")
        es = c.alloc(RecObj("RTFEncodingService", {}, pyclass=es_cls, fresh=False))
        c.bind("self", c.alloc(RecObj("RTFDocumentService", {"encoding_service": es}, fresh=False)))
        page = _page_rec(c)
        c.bind("document", c.alloc(RecObj("RTFDocument", {"rtf_page": page}, fresh=False)))

    def ensures(self, c, out):
        cl = _geometry_clauses(c, out.value)
        txt = literal_text(out.value)
        cl["starts_with_page_break"] = z3.BoolVal(txt.startswith("{\\pard\\fs2\\par}\\page{\\pard\\fs2\\par}"))
        from pyvc.values import rope_bal_low
        b, l = rope_bal_low(out.value)
        cl["balanced"] = And(b == 0, l >= 0)
        return cl


class PageSettings(Contract):
    """RTFSyntaxGenerator.generate_page_settings: document-start geometry; \\landscape iff orientation == landscape."""
    target = "rtf/syntax.py::RTFSyntaxGenerator.generate_page_settings"
    serves = ["C06", "C01"]

    def setup(self, c):
        page = _page_rec(c)
        p = c.obj(page).fields
        c.bind("width", p["width"]); c.bind("height", p["height"]); c.bind("margins", p["margin"]); c.bind("orientation", p["orientation"])

    def ensures(self, c, out):
        cl = _geometry_clauses(c, out.value)
        txt = literal_text(out.value)
        land = "\\landscape" in txt
        # the rope is path specific: on the landscape path the literal contains the keyword
        cl["landscape_flag_iff"] = (c.v["orient"] == lit("landscape")) == z3.BoolVal(land)
        return cl


UNITS = [ShouldShow(), ShouldShowElement(), PageBreak(), PageSettings()]


class EncodePageSettings(Contract):
    """RTFEncodingService.encode_page_settings(page) = generate_page_settings(page.width, page.height, page.margin, page.orientation): the
    page's own four values, each in its own position (C06 page geometry at the document start)."""
    target = "services/encoding_service.py::RTFEncodingService.encode_page_settings"
    serves = ["C06", "C01"]

    def setup(self, c):
        from pyvc.values import RecObj
        syn = c.alloc(RecObj("RTFSyntaxGenerator", {}, fresh=False))
        c.bind("self", c.alloc(RecObj("RTFEncodingService", {"syntax": syn}, pyclass=c.cls("rtflite.services.encoding_service", "RTFEncodingService"), fresh=False)))
        page = _page_rec(c)
        c.bind("page_config", page)
        c.v.update(pagef=dict(c.obj(page).fields))
        c.ghost("args", None)
        self._v = c.v

    @property
    def handlers(self):
        def gen(I, st, args, kwargs, node):
            st.ghost["args"] = (list(args), dict(kwargs))
            return z3.Const("generated_page_settings", StrSort)
        return {"self.syntax.generate_page_settings": gen}

    def ensures(self, c, out):
        from pyvc.values import Ref, Opt, to_z3, norm_str
        got = out.state.ghost.get("args")
        f = c.v["pagef"]
        if not got:
            return {"C06.page_settings_generated_from_this_pages_geometry": z3.BoolVal(False)}
        args, kwargs = got
        names = ["width", "height", "margins", "orientation"]
        vals = dict(zip(names, args))
        vals.update(kwargs)

        def same(a, b):
            a = a.payload if isinstance(a, Opt) else a
            b = b.payload if isinstance(b, Opt) else b
            if isinstance(a, Ref) or isinstance(b, Ref):
                return z3.BoolVal(isinstance(a, Ref) and isinstance(b, Ref) and a.oid == b.oid)
            return to_z3(norm_str(a)) == to_z3(norm_str(b))
        ok = [same(vals.get("width"), f["width"]), same(vals.get("height"), f["height"]), same(vals.get("margins"), f["margin"]), same(vals.get("orientation"), f["orientation"])]
        return {"C06.page_settings_generated_from_this_pages_width_height_margins_orientation_in_that_order": And(*ok) if len(vals) == 4 else z3.BoolVal(False),
                "returns_the_generated_block": to_z3(norm_str(out.value)) == z3.Const("generated_page_settings", StrSort)}


UNITS.append(EncodePageSettings())
