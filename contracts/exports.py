"""Contracts for encode.py::RTFDocument.write_rtf / write_docx / write_html / write_pdf (DESIGN A21): C18.

Effect-trace semantics: every file-system operation of the real body is logged; encoding and conversion calls are
potential raise points (fault injection before the call, and for the converter also after it produced output, and a
malformed non-Path result)."""
import z3
from z3 import And, Or, Not, Implies

from pyvc.contract import Contract
from pyvc import types as T
from pyvc.values import RecObj, StrSort, Opt, lit, norm_str, rope_term, Rope, to_z3
from pyvc.libmodels.fs import (FsModel, PathVal, h_Path, h_TemporaryDirectory, h_shutil_move, fault_point, sterm, UNDER, P_EXPAND,
                               P_PARENT, P_JOIN, P_STEM, P_WITHNAME, P_NAME)
from pyvc.libmodels.strings import StrModel

ENC = z3.Function("rtf_encode_result", StrSort, StrSort)     # the string rtf_encode() returns for this document (opaque)
DOCID = z3.Const("this_document", StrSort)


def s_rtf_encode(I, st, args, kwargs, node):
    fault_point(I, st, "rtf_encode", getattr(node, "lineno", None))
    st.effects.append(("encode", getattr(node, "lineno", None)))
    return ENC(DOCID)


def s_convert(I, st, args, kwargs, node):
    site = getattr(node, "lineno", None)
    out_dir = sterm(kwargs["output_dir"])
    fault_point(I, st, "convert.before", site)
    st.effects.append(("convert-writes-under", out_dir, sterm(kwargs["input_files"]), norm_str(kwargs.get("format")), site))
    fault_point(I, st, "convert.after", site)
    ok = z3.Bool("converter_returns_path")
    if I.decide(st, ok, "convert.result_is_path"):
        c = z3.Const("converted_path", StrSort)
        st.assume(UNDER(c, out_dir))            # converter contract: its result lies under output_dir
        st.ghost["converted"] = c
        return PathVal(c)
    return st.alloc(RecObj("object", {}, pyclass=object))


def new_converter(I, st, cv, args, kwargs, node):
    fault_point(I, st, "LibreOfficeConverter()", getattr(node, "lineno", None))
    return st.alloc(RecObj("LibreOfficeConverter", {}, pyclass=cv.pyclass))


class _Export(Contract):
    serves = ["C18"]
    models = [FsModel(), StrModel()]
    inject_faults = ("rtf_encode", "convert.before", "convert.after", "LibreOfficeConverter()")
    handlers = {"Path": h_Path, "tempfile.TemporaryDirectory": h_TemporaryDirectory, "shutil.move": h_shutil_move,
                "new:LibreOfficeConverter": new_converter}
    summaries = {"RTFDocument.rtf_encode": s_rtf_encode, "LibreOfficeConverter.convert": s_convert}
    variants = ["converter_given", "converter_default"]
    fmt = None

    def setup(self, c):
        doc_cls = c.cls("rtflite.encode", "RTFDocument")
        c.bind("self", c.alloc(RecObj("RTFDocument", {}, pyclass=doc_cls, fresh=False)))
        fp = c.param("file_path", T.Str)
        c.v["T"] = P_EXPAND(fp)
        if self.fmt is not None:
            if c.variant == "converter_given":
                conv_cls = c.cls("rtflite.convert", "LibreOfficeConverter")
                c.bind("converter", c.alloc(RecObj("LibreOfficeConverter", {}, pyclass=conv_cls, fresh=False)))
            else:
                c.bind("converter", None)

    # ---- trace predicates
    @staticmethod
    def _tmp(st):
        return st.ghost.get("__tmpdirs__", [])

    def _common(self, c, st, raised):
        Tt = c.v["T"]
        eff = [e for e in st.effects if e[0] not in ("fault", "print")]
        tmps = self._tmp(st)
        cl = {}
        in_tmp = lambda p: Or(*[UNDER(p, t) for t in tmps]) if tmps else z3.BoolVal(False)
        writes = [e for e in eff if e[0] == "write"]
        moves = [e for e in eff if e[0] == "move"]
        if self.fmt is not None:
            cl["intermediate_writes_only_in_temp_dirs"] = And(*[in_tmp(e[1]) for e in writes]) if writes else z3.BoolVal(True)
            cl["converter_output_dir_is_temp"] = And(*[in_tmp(P_JOIN(e[1], lit("x"))) if False else Or(*[e[1] == t for t in tmps])
                                                       for e in eff if e[0] == "convert-writes-under"]) if tmps else z3.BoolVal(True)
        destructive = [e for e in eff if e[0] in ("unlink", "rmdir", "touch", "rename", "replace", "write_bytes")]
        cl["no_other_filesystem_effect_outside_temp_dirs"] = And(*[in_tmp(e[1]) for e in destructive]) if destructive else z3.BoolVal(True)
        made = [e[1] for e in eff if e[0] == "mkdtemp"]
        removed = [e[1] for e in eff if e[0] == "rmtree"]
        cl["every_temp_dir_removed"] = z3.BoolVal(all(any(m.eq(r) for r in removed) for m in made))
        if raised:
            cl["target_untouched_on_failure"] = z3.BoolVal(not any(e[0] == "write" and e[1].eq(Tt) for e in eff)) \
                if self.fmt is None else And(*[e[2] != Tt for e in moves], *[in_tmp(e[1]) for e in writes])
            cl["no_move_on_failure"] = z3.BoolVal(len(moves) == 0)
        return cl, eff, writes, moves

    @property
    def raises(self):
        return {"Exception": lambda c, out: self._common(c, out.state, True)[0]}


class WriteRtf(_Export):
    """write_rtf: encodes BEFORE the target is opened; stores exactly rtf_encode()'s string; creates parent directories."""
    target = "encode.py::RTFDocument.write_rtf"
    variants = [None]
    fmt = None
    inject_faults = ("rtf_encode",)

    def ensures(self, c, out):
        cl, eff, writes, moves = self._common(c, out.state, False)
        Tt = c.v["T"]
        kinds = [e[0] for e in eff]
        cl["parents_created"] = z3.BoolVal(any(e[0] == "mkdir" and e[1].eq(P_PARENT(Tt)) for e in eff))
        cl["exactly_one_write_to_target"] = z3.BoolVal(len(writes) == 1 and writes[0][1].eq(Tt))
        cl["stores_exactly_the_encoded_string"] = to_z3(norm_str(writes[0][2])) == ENC(DOCID) if writes else z3.BoolVal(False)
        cl["encode_completes_before_write"] = z3.BoolVal("encode" in kinds and "write" in kinds and kinds.index("encode") < kinds.index("write"))
        return cl


class _WriteConverted(_Export):
    def ensures(self, c, out):
        st = out.state
        cl, eff, writes, moves = self._common(c, st, False)
        Tt = c.v["T"]
        tmps = self._tmp(st)
        conv = st.ghost.get("converted")
        cl["two_temp_dirs"] = z3.BoolVal(len(tmps) == 2)
        cl["intermediate_rtf_is_encoded_string"] = And(*[to_z3(norm_str(e[2])) == ENC(DOCID) for e in writes]) if writes else z3.BoolVal(False)
        cl["converter_reads_the_intermediate_rtf"] = z3.BoolVal(any(e[0] == "convert-writes-under" and writes and e[2].eq(writes[0][1]) for e in eff))
        cl["converter_format"] = z3.BoolVal(any(e[0] == "convert-writes-under" and e[3] == self.fmt for e in eff))
        cl["result_moved_to_target"] = z3.BoolVal(conv is not None and len(moves) >= 1 and moves[0][1].eq(conv) and moves[0][2].eq(Tt))
        extra = moves[1:]
        if self.fmt == "html":
            # optional resources folder: moved next to the target, under its own name
            cl["only_resource_folder_moves_besides"] = z3.BoolVal(
                all(conv is not None and m[1].eq(P_WITHNAME(conv, rope_term(Rope((P_NAME(conv), "_files")))))
                    and m[2].eq(P_JOIN(P_PARENT(Tt), P_NAME(m[1]))) for m in extra) and len(extra) <= 1)
        else:
            cl["no_other_move"] = z3.BoolVal(len(extra) == 0)
        kinds = [e[0] for e in eff]
        cl["move_before_cleanup"] = z3.BoolVal("move" in kinds and kinds.index("move") < kinds.index("rmtree"))
        return cl


class WriteDocx(_WriteConverted):
    target = "encode.py::RTFDocument.write_docx"
    fmt = "docx"


class WriteHtml(_WriteConverted):
    target = "encode.py::RTFDocument.write_html"
    fmt = "html"


class WritePdf(_WriteConverted):
    target = "encode.py::RTFDocument.write_pdf"
    fmt = "pdf"


UNITS = [WriteRtf(), WriteDocx(), WriteHtml(), WritePdf()]


# ---- convert.py::LibreOfficeConverter._convert_single_file: a failed conversion raises ----------------------------------------------
from pyvc.values import ClassVal, fresh_name
from pyvc.state import SymRaise
import subprocess as _subprocess

PROC_OK = z3.Bool("converter_process_exit_status_is_zero")


class ConvertSingleFile(Contract):
    """_convert_single_file(input, output_dir, format, overwrite): the output path is returned only when the converter process succeeded
    (exit status 0) and the output file exists afterwards; a failed process raises RuntimeError whatever it left on disk - this is the
    'converter contract' the write_* units assume ('if conversion fails ... raise'); an existing output without overwrite raises
    FileExistsError before the process is started (C18)."""
    target = "convert.py::LibreOfficeConverter._convert_single_file"
    serves = ["C18"]
    models = [FsModel(), StrModel()]

    def setup(self, c):
        cls = c.cls("rtflite.convert", "LibreOfficeConverter")
        c.bind("self", c.alloc(RecObj("LibreOfficeConverter", {"executable_path": PathVal(z3.Const("soffice", StrSort))}, pyclass=cls, fresh=False)))
        c.bind("input_file", PathVal(z3.Const("input_file", StrSort)))
        c.bind("output_dir", PathVal(z3.Const("output_dir", StrSort)))
        c.param("format", T.Str)
        c.param("overwrite", T.Bool)
        c.ghost("ran", 0)
        c.ghost("exists_answers", ())

    @property
    def handlers(self):
        def h_run(I, st, args, kwargs, node):
            site = getattr(node, "lineno", None)
            I.ctx.assume_lib("subprocess.run(cmd, check=True): raises CalledProcessError exactly when the process exits with a non-zero status")
            I.oblige(st, f"C18.converter_process_is_run_with_check@L{site}", z3.BoolVal(kwargs.get("check") is True), "post", site)
            st.ghost["ran"] = st.ghost.get("ran", 0) + 1
            st.effects.append(("convert-writes-under", z3.Const("output_dir", StrSort), site))
            if not I.decide(st, PROC_OK, "process.ok"):
                raise SymRaise(ClassVal("CalledProcessError", _subprocess.CalledProcessError), st, "non-zero exit status", site)
            return st.alloc(RecObj("CompletedProcess", {"stdout": z3.Const("proc_stdout", StrSort), "stderr": z3.Const("proc_stderr", StrSort)}, fresh=True))

        def h_exists(I, st, args, kwargs, node):
            b = z3.Bool(fresh_name("output_exists"))
            st.ghost["exists_answers"] = tuple(st.ghost.get("exists_answers", ())) + ((st.ghost.get("ran", 0), b),)
            return b
        return {"subprocess.run": h_run, "output_file.exists": h_exists}

    @property
    def raises(self):
        def run_failed_or_no_output(c, out):
            ans = [b for ran, b in out.state.ghost.get("exists_answers", ()) if ran >= 1]
            return {"only_after_a_failed_process_or_without_an_output_file": Or(Not(PROC_OK), *[Not(b) for b in ans]) if out.state.ghost.get("ran", 0) else z3.BoolVal(False)}

        def exists_before(c, out):
            ans = [b for ran, b in out.state.ghost.get("exists_answers", ()) if ran == 0]
            return {"only_for_an_existing_output_without_overwrite": And(z3.BoolVal(out.state.ghost.get("ran", 0) == 0), Not(to_z3(c.v["overwrite"])), Or(*ans) if ans else z3.BoolVal(False))}
        return {"RuntimeError": run_failed_or_no_output, "FileExistsError": exists_before}

    def ensures(self, c, out):
        st = out.state
        ans = [b for ran, b in st.ghost.get("exists_answers", ()) if ran >= 1]
        r = out.value
        want = P_JOIN(z3.Const("output_dir", StrSort), None) if False else None
        return {"C18.a_result_is_returned_only_when_the_converter_process_succeeded": And(z3.BoolVal(st.ghost.get("ran", 0) == 1), PROC_OK),
                "C18.a_result_is_returned_only_when_the_output_file_exists_afterwards": Or(*ans) if ans else z3.BoolVal(False),
                "returns_a_path_under_the_output_directory": z3.BoolVal(isinstance(r, PathVal))}


UNITS.append(ConvertSingleFile())
