"""Contracts for encode.py::RTFDocument.write_rtf / write_docx / write_html / write_pdf (DESIGN A21): C18.

Effect-trace semantics: every file-system operation of the real body is logged; encoding and conversion calls are
potential raise points (fault injection before the call, and for the converter also after it produced output, and a
malformed non-Path result)."""
import z3
from z3 import And, Or, Not, Implies

from pyvc.contract import Contract
from pyvc import types as T
from pyvc.values import RecObj, StrSort, Opt, lit, norm_str, rope_term, Rope, to_z3
from pyvc.libmodels.fs import (FsModel, PathVal, h_Path, h_TemporaryDirectory, h_shutil_move, fault_point, sterm, UNDER, P_EXPAND,
                               P_PARENT, P_JOIN, P_STEM, P_WITHNAME, P_NAME)
from pyvc.libmodels.strings import StrModel

ENC = z3.Function("rtf_encode_result", StrSort, StrSort)     # the string rtf_encode() returns for this document (opaque)
DOCID = z3.Const("this_document", StrSort)


def s_rtf_encode(I, st, args, kwargs, node):
    fault_point(I, st, "rtf_encode", getattr(node, "lineno", None))
    st.effects.append(("encode", getattr(node, "lineno", None)))
    return ENC(DOCID)


def s_convert(I, st, args, kwargs, node):
    site = getattr(node, "lineno", None)
    out_dir = sterm(kwargs["output_dir"])
    fault_point(I, st, "convert.before", site)
    st.effects.append(("convert-writes-under", out_dir, sterm(kwargs["input_files"]), norm_str(kwargs.get("format")), site))
    fault_point(I, st, "convert.after", site)
    ok = z3.Bool("converter_returns_path")
    if I.decide(st, ok, "convert.result_is_path"):
        c = z3.Const("converted_path", StrSort)
        st.assume(UNDER(c, out_dir))            # converter contract: its result lies under output_dir
        st.ghost["converted"] = c
        return PathVal(c)
    return st.alloc(RecObj("object", {}, pyclass=object))


def new_converter(I, st, cv, args, kwargs, node):
    fault_point(I, st, "LibreOfficeConverter()", getattr(node, "lineno", None))
    return st.alloc(RecObj("LibreOfficeConverter", {}, pyclass=cv.pyclass))


class _Export(Contract):
    serves = ["C18"]
    models = [FsModel(), StrModel()]
    inject_faults = ("rtf_encode", "convert.before", "convert.after", "LibreOfficeConverter()")
    handlers = {"Path": h_Path, "tempfile.TemporaryDirectory": h_TemporaryDirectory, "shutil.move": h_shutil_move,
                "new:LibreOfficeConverter": new_converter}
    summaries = {"RTFDocument.rtf_encode": s_rtf_encode, "LibreOfficeConverter.convert": s_convert}
    variants = ["converter_given", "converter_default"]
    fmt = None

    def setup(self, c):
        doc_cls = c.cls("rtflite.encode", "RTFDocument")
        c.bind("self", c.alloc(RecObj("RTFDocument", {}, pyclass=doc_cls, fresh=False)))
        fp = c.param("file_path", T.Str)
        c.v["T"] = P_EXPAND(fp)
        if self.fmt is not None:
            if c.variant == "converter_given":
                conv_cls = c.cls("rtflite.convert", "LibreOfficeConverter")
                c.bind("converter", c.alloc(RecObj("LibreOfficeConverter", {}, pyclass=conv_cls, fresh=False)))
            else:
                c.bind("converter", None)

    # ---- trace predicates
    @staticmethod
    def _tmp(st):
        return st.ghost.get("__tmpdirs__", [])

    def _common(self, c, st, raised):
        Tt = c.v["T"]
        eff = [e for e in st.effects if e[0] not in ("fault", "print")]
        tmps = self._tmp(st)
        cl = {}
        in_tmp = lambda p: Or(*[UNDER(p, t) for t in tmps]) if tmps else z3.BoolVal(False)
        writes = [e for e in eff if e[0] == "write"]
        moves = [e for e in eff if e[0] == "move"]
        if self.fmt is not None:
            cl["intermediate_writes_only_in_temp_dirs"] = And(*[in_tmp(e[1]) for e in writes]) if writes else z3.BoolVal(True)
            cl["converter_output_dir_is_temp"] = And(*[in_tmp(P_JOIN(e[1], lit("x"))) if False else Or(*[e[1] == t for t in tmps])
                                                       for e in eff if e[0] == "convert-writes-under"]) if tmps else z3.BoolVal(True)
        destructive = [e for e in eff if e[0] in ("unlink", "rmdir", "touch", "rename", "replace", "write_bytes")]
        cl["no_other_filesystem_effect_outside_temp_dirs"] = And(*[in_tmp(e[1]) for e in destructive]) if destructive else z3.BoolVal(True)
        made = [e[1] for e in eff if e[0] == "mkdtemp"]
        removed = [e[1] for e in eff if e[0] == "rmtree"]
        cl["every_temp_dir_removed"] = z3.BoolVal(all(any(m.eq(r) for r in removed) for m in made))
        if raised:
            cl["target_untouched_on_failure"] = z3.BoolVal(not any(e[0] == "write" and e[1].eq(Tt) for e in eff)) \
                if self.fmt is None else And(*[e[2] != Tt for e in moves], *[in_tmp(e[1]) for e in writes])
            cl["no_move_on_failure"] = z3.BoolVal(len(moves) == 0)
        return cl, eff, writes, moves

    @property
    def raises(self):
        return {"Exception": lambda c, out: self._common(c, out.state, True)[0]}


class WriteRtf(_Export):
    """write_rtf: encodes BEFORE the target is opened; stores exactly rtf_encode()'s string; creates parent directories."""
    target = "encode.py::RTFDocument.write_rtf"
    variants = [None]
    fmt = None
    inject_faults = ("rtf_encode",)

    def ensures(self, c, out):
        cl, eff, writes, moves = self._common(c, out.state, False)
        Tt = c.v["T"]
        kinds = [e[0] for e in eff]
        cl["parents_created"] = z3.BoolVal(any(e[0] == "mkdir" and e[1].eq(P_PARENT(Tt)) for e in eff))
        cl["exactly_one_write_to_target"] = z3.BoolVal(len(writes) == 1 and writes[0][1].eq(Tt))
        cl["stores_exactly_the_encoded_string"] = to_z3(norm_str(writes[0][2])) == ENC(DOCID) if writes else z3.BoolVal(False)
        cl["encode_completes_before_write"] = z3.BoolVal("encode" in kinds and "write" in kinds and kinds.index("encode") < kinds.index("write"))
        return cl


class _WriteConverted(_Export):
    def ensures(self, c, out):
        st = out.state
        cl, eff, writes, moves = self._common(c, st, False)
        Tt = c.v["T"]
        tmps = self._tmp(st)
        conv = st.ghost.get("converted")
        cl["two_temp_dirs"] = z3.BoolVal(len(tmps) == 2)
        cl["intermediate_rtf_is_encoded_string"] = And(*[to_z3(norm_str(e[2])) == ENC(DOCID) for e in writes]) if writes else z3.BoolVal(False)
        cl["converter_reads_the_intermediate_rtf"] = z3.BoolVal(any(e[0] == "convert-writes-under" and writes and e[2].eq(writes[0][1]) for e in eff))
        cl["converter_format"] = z3.BoolVal(any(e[0] == "convert-writes-under" and e[3] == self.fmt for e in eff))
        cl["result_moved_to_target"] = z3.BoolVal(conv is not None and len(moves) >= 1 and moves[0][1].eq(conv) and moves[0][2].eq(Tt))
        extra = moves[1:]
        if self.fmt == "html":
            # optional resources folder: moved next to the target, under its own name
            cl["only_resource_folder_moves_besides"] = z3.BoolVal(
                all(conv is not None and m[1].eq(P_WITHNAME(conv, rope_term(Rope((P_NAME(conv), "_files")))))
                    and m[2].eq(P_JOIN(P_PARENT(Tt), P_NAME(m[1]))) for m in extra) and len(extra) <= 1)
        else:
            cl["no_other_move"] = z3.BoolVal(len(extra) == 0)
        kinds = [e[0] for e in eff]
        cl["move_before_cleanup"] = z3.BoolVal("move" in kinds and kinds.index("move") < kinds.index("rmtree"))
        return cl


class WriteDocx(_WriteConverted):
    target = "encode.py::RTFDocument.write_docx"
    fmt = "docx"


class WriteHtml(_WriteConverted):
    target = "encode.py::RTFDocument.write_html"
    fmt = "html"


class WritePdf(_WriteConverted):
    target = "encode.py::RTFDocument.write_pdf"
    fmt = "pdf"


UNITS = [WriteRtf(), WriteDocx(), WriteHtml(), WritePdf()]
