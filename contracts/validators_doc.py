"""Document-level construction validators (C19): encode.py::RTFDocument.validate_column_names (a DataFrame together with a figure, or
neither; mismatched multi-section list lengths; grouping columns missing from a section's data) and input.py::RTFFigure.
validate_figure_data (FileNotFoundError for a missing figure file).  The callee _validate_section_columns is used through its own
contract (unit ValidateSectionColumns): it returns exactly when every key of the section's body names a column of the section's
frame, and raises ValueError otherwise."""
import z3
from z3 import And, Or, Not, Implies, ForAll, Exists, If, IntVal

from pyvc.contract import Contract
from pyvc.interp import LoopSpec
from pyvc import types as T
from pyvc.values import ListObj, RecObj, Ref, Opt, ClassVal, lit, to_z3, norm_str, StrSort, fresh_name
from pyvc.state import SymRaise, lazy_alloc
from pyvc.seqs import as_symlist
from pyvc.libmodels.polars_model import PolarsModel, fresh_df, DfObj
from pyvc.libmodels.strings import StrModel

SECTION_OK = z3.Function("section_keys_are_columns", z3.IntSort(), z3.BoolSort())      # ValidateSectionColumns' verdict for section k


def _same(a, ref):
    a = a.payload if isinstance(a, Opt) else a
    return isinstance(a, Ref) and isinstance(ref, Ref) and a.oid == ref.oid


class ValidateColumnNames(Contract):
    """validate_column_names(): returns the document exactly when it has a DataFrame or a figure but not both, the multi-section
    lists have matching lengths, and every section's grouping keys are columns of that section's frame; ValueError otherwise."""
    target = "encode.py::RTFDocument.validate_column_names"
    serves = ["C19"]
    models = [PolarsModel(), StrModel()]
    variants = ["neither", "both", "figure", "single", "multi", "multi_nested_headers", "multi_body_not_a_list"]

    def setup(self, c):
        var = c.variant
        cls = c.cls("rtflite.encode", "RTFDocument")
        body_cls = c.cls("rtflite.input", "RTFBody")
        B = lambda n: z3.Bool(fresh_name(n))
        fig = c.alloc(RecObj("RTFFigure", {}, pyclass=c.cls("rtflite.input", "RTFFigure"), fresh=False))
        fields = {"df": None, "rtf_figure": None, "rtf_body": None, "rtf_column_header": None, "rtf_footnote": None, "rtf_source": None}
        v = {}
        memo = {}

        def df_of(k):
            key = ("df", str(z3.simplify(to_z3(k))))
            if key not in memo:
                from pyvc.values import ValSort
                cellf = z3.Function(fresh_name("dfcell"), z3.IntSort(), z3.IntSort(), ValSort)
                namef = z3.Function(fresh_name("dfcol"), z3.IntSort(), StrSort)
                memo[key] = lazy_alloc(DfObj(z3.Int(fresh_name("nrows")), z3.Int(fresh_name("ncols")), lambda r, cc, cellf=cellf: cellf(to_z3(r), to_z3(cc)),
                                             lambda j, namef=namef: namef(to_z3(j))))
            return memo[key]

        def body_of(k):
            key = ("body", str(z3.simplify(to_z3(k))))
            if key not in memo:
                memo[key] = lazy_alloc(RecObj("RTFBody", {"_section": to_z3(k)}, pyclass=body_cls, fresh=False))
            return memo[key]
        if var == "both":
            fields.update(df=fresh_df(c.st, "df"), rtf_figure=fig)
        elif var == "figure":
            foot_cfg, src_cfg = B("footnote_configured"), B("source_configured")
            fat, sat = c.fresh("footnote_as_table", T.Bool), c.fresh("source_as_table", T.Bool)
            foot = c.alloc(RecObj("RTFFootnote", {"as_table": fat}, fresh=False))
            src = c.alloc(RecObj("RTFSource", {"as_table": sat}, fresh=False))
            fields.update(rtf_figure=fig, rtf_footnote=Opt(Not(foot_cfg), foot), rtf_source=Opt(Not(src_cfg), src))
            v.update(table_note=Or(And(foot_cfg, to_z3(fat)), And(src_cfg, to_z3(sat))))
        elif var == "single":
            fields.update(df=df_of(IntVal(0)), rtf_body=body_of(IntVal(0)))
        elif var.startswith("multi"):
            N = z3.Int(fresh_name("n_frames"))
            M = z3.Int(fresh_name("n_bodies"))
            c.requires("list_lengths", And(N >= 0, M >= 0))
            fields["df"] = c.alloc(ListObj(length=N, get=lambda k: df_of(k), fresh=False))
            if var == "multi_body_not_a_list":
                fields["rtf_body"] = body_of(IntVal(0))
            else:
                fields["rtf_body"] = c.alloc(ListObj(length=M, get=lambda k: body_of(k), fresh=False))
            v.update(N=N, M=M)
            if var == "multi_nested_headers":
                H = z3.Int(fresh_name("n_header_lists"))
                c.requires("nested_header_list_nonempty", H >= 1)
                inner = lambda k: lazy_alloc(ListObj(length=z3.Int(fresh_name("n_headers")), get=lambda h: None, fresh=False))
                hl = {}

                def header_list(k):
                    key = str(z3.simplify(to_z3(k)))
                    if key not in hl:
                        hl[key] = inner(k)
                    return hl[key]
                fields["rtf_column_header"] = c.alloc(ListObj(length=H, get=header_list, fresh=False))
                v.update(H=H)
        me = c.alloc(RecObj("RTFDocument", fields, pyclass=cls, fresh=False))
        c.bind("self", me)
        v.update(me=me, df_of=df_of, body_of=body_of)
        c.v.update(v)

    @property
    def summaries(self):
        def section_columns(I, st, args, kwargs, node):
            vv = self._v if hasattr(self, "_v") else None
            site = getattr(node, "lineno", None)
            df, body, k = args[-3], args[-2], args[-1]
            kz = to_z3(k)
            body = body.payload if isinstance(body, Opt) else body
            b = st.obj(body) if isinstance(body, Ref) else None
            sec = b.fields.get("_section") if isinstance(b, RecObj) else None
            I.oblige(st, f"C19.section_k_is_checked_against_its_own_frame_and_body@L{site}",
                     And(z3.BoolVal(sec is not None), to_z3(sec if sec is not None else IntVal(-1)) == kz,
                         z3.BoolVal(_same(df, self._cv["df_of"](kz)))), "post", site)
            if not I.decide(st, SECTION_OK(kz), "section.keys_are_columns"):
                raise SymRaise(ClassVal("ValueError", ValueError), st, "grouping column not found", site)
            return None
        return {"RTFDocument._validate_section_columns": section_columns}

    def _legal(self, c):
        var = c.variant
        v = c.v
        k = z3.Int("k")
        if var in ("neither", "both"):
            return z3.BoolVal(False)
        if var == "figure":
            return z3.BoolVal(True)
        if var == "single":
            return SECTION_OK(IntVal(0))
        if var == "multi_body_not_a_list":
            return z3.BoolVal(False)
        cs = [v["N"] == v["M"], ForAll([k], Implies(And(0 <= k, k < v["N"]), SECTION_OK(k)))]
        if var == "multi_nested_headers":
            cs.append(v["H"] == v["N"])
        return And(*cs)

    @property
    def raises(self):
        def r(c, out):
            cl = {"only_for_a_document_the_property_lists_as_invalid": Not(self._legal(c))}
            if c.variant == "figure":
                # code-derived: a figure document with a table footnote / source is refused too
                cl = {"only_for_a_table_footnote_or_source_beside_a_figure": c.v["table_note"]}
            return cl
        return {"ValueError": r}

    def setup_loops(self, c):
        self._cv = v = c.v
        self.loops = {}
        if c.variant in ("multi", "multi_nested_headers"):
            def inv(vv):
                k = z3.Int("k")
                return {"range": And(0 <= vv.i, vv.i <= v["N"]),
                        "sections_so_far_are_consistent": ForAll([k], Implies(And(0 <= k, k < vv.i), SECTION_OK(k)))}
            self.loops = {0: LoopSpec(inv=inv)}
        self.loops_optional = {0}

    def ensures(self, c, out):
        cl = {"C19.accepted_only_with_a_frame_or_a_figure_but_not_both_matching_list_lengths_and_known_grouping_columns": self._legal(c),
              "returns_the_document": z3.BoolVal(_same(out.value, c.v["me"]))}
        if c.variant == "figure":
            cl["accepted_only_without_a_table_footnote_or_source"] = Not(c.v["table_note"])
        return cl


# ---- input.py::RTFFigure.validate_figure_data ---------------------------------------------------------------------------------------
from contracts.figures import FILE_EXISTS


class ValidateFigureData(Contract):
    """validate_figure_data(): a single path becomes a one-element list; returns the figure exactly when every listed file exists,
    FileNotFoundError otherwise (C19: a missing figure file); the list keeps the given paths in the given order (C16)."""
    target = "input.py::RTFFigure.validate_figure_data"
    serves = ["C19", "C16"]
    models = [StrModel()]
    variants = ["list", "single", "none"]

    def setup(self, c):
        cls = c.cls("rtflite.input", "RTFFigure")
        if c.variant == "none":
            figs = None
            paths = None
        elif c.variant == "single":
            figs = c.fresh("path", T.Str)
            paths = c.alloc(ListObj(items=[figs], fresh=False))
        else:
            figs = paths = c.fresh("paths", T.List(T.Str))
        fw, fh = c.fresh("fig_width", T.List(T.Real)), c.fresh("fig_height", T.List(T.Real))
        align, pos = c.fresh("fig_align", T.Str), c.fresh("fig_pos", T.Str)
        me = c.alloc(RecObj("RTFFigure", {"figures": figs, "fig_width": fw, "fig_height": fh, "fig_align": align, "fig_pos": pos}, pyclass=cls, fresh=False))
        c.bind("self", me)
        c.requires("size_lists_nonempty", And(c.obj(fw).length >= 1, c.obj(fh).length >= 1))       # convert_dimensions wraps scalars; [] is outside the domain
        c.v.update(me=me, paths=paths, figs=figs, fw=fw, fh=fh, fw_len=c.obj(fw).length, fh_len=c.obj(fh).length, fw_get=c.obj(fw).get, fh_get=c.obj(fh).get)

    def _all_exist(self, c, st):
        if c.variant == "none":
            return z3.BoolVal(True)
        n, g = as_symlist(st, st.obj(c.v["paths"]))
        k = z3.Int("k")
        return ForAll([k], Implies(And(0 <= k, k < to_z3(n)), FILE_EXISTS(to_z3(norm_str(g(k))))))

    @property
    def raises(self):
        return {"FileNotFoundError": lambda c, out: {"only_when_some_figure_file_is_missing": Not(self._all_exist(c, out.state))}}

    @property
    def handlers(self):
        def h_path(I, st, args, kwargs, node):
            return ("path", to_z3(norm_str(args[0])))

        def h_exists(I, st, args, kwargs, node):
            p = I.lookup(st, "path_obj")
            return FILE_EXISTS(p[1])
        return {"Path": h_path, "path_obj.exists": h_exists}

    def setup_loops(self, c):
        v = c.v
        self.loops = {}
        if c.variant != "none":
            def inv(vv):
                n, g = as_symlist(vv.state, vv.obj(v["paths"]))
                k = z3.Int("k")
                return {"files_so_far_exist": ForAll([k], Implies(And(0 <= k, k < vv.i), FILE_EXISTS(to_z3(norm_str(g(k))))))}
            self.loops = {0: LoopSpec(inv=inv)}

    def ensures(self, c, out):
        st = out.state
        cl = {"C19.accepted_only_when_every_figure_file_exists": self._all_exist(c, st),
              "returns_the_figure": z3.BoolVal(_same(out.value, c.v["me"]))}
        f = st.obj(c.v["me"]).fields["figures"]
        # the size of figure i - positional, the last value reused when the list is shorter (unit GetDimension reads it that way at encoding
        # time) - is the user's, for every i (a validator may normalise the lists but must not change any figure's size)
        k = z3.Int("k")
        eff = lambda n, g, i: g(If(i < to_z3(n), i, to_z3(n) - 1))
        for nm, ln, get in (("fig_width", c.v["fw_len"], c.v["fw_get"]), ("fig_height", c.v["fh_len"], c.v["fh_get"])):
            cur = st.obj(c.v["me"]).fields.get(nm)
            if not isinstance(cur, Ref):
                cl[f"C16.{nm}_of_every_figure_is_the_users_positional_value_last_one_reused"] = z3.BoolVal(False)
                continue
            n2, g2 = as_symlist(st, st.obj(cur))
            cl[f"C16.{nm}_of_every_figure_is_the_users_positional_value_last_one_reused"] = And(
                to_z3(n2) >= 1, ForAll([k], Implies(k >= 0, to_z3(eff(n2, g2, k)) == to_z3(eff(ln, get, k)))))
        if c.variant == "none":
            cl["no_figures_stays_none"] = z3.BoolVal(f is None)
        elif c.variant == "list":
            cl["C16.the_path_list_is_kept_as_given"] = z3.BoolVal(_same(f, c.v["paths"]))
        else:
            ok = isinstance(f, Ref) and isinstance(st.obj(f), ListObj) and st.obj(f).items is not None and len(st.obj(f).items) == 1
            cl["C16.a_single_path_becomes_a_one_element_list"] = And(z3.BoolVal(bool(ok)), to_z3(norm_str(st.obj(f).items[0])) == to_z3(c.v["figs"])) if ok else z3.BoolVal(False)
        return cl


UNITS = [ValidateColumnNames(), ValidateFigureData()]


class BodyKeysValidator(Contract):
    """RTFBody.convert_text (before-validator of group_by / page_by / subline_by): None stays None, a single name becomes a one-element list,
    a list of names is passed on as it is - same names, same order (the order IS the hierarchy: C13 / C05 outer-to-inner levels)."""
    target = "input.py::RTFBody.convert_text"
    serves = ["C13", "C05", "C19"]
    models = [StrModel()]
    variants = ["none", "single_name", "list"]

    def setup(self, c):
        c.bind("cls", c.cls("rtflite.input", "RTFBody"))
        if c.variant == "none":
            v = None
        elif c.variant == "single_name":
            v = c.fresh("name", T.Str)
        else:
            v = c.fresh("names", T.List(T.Str))
        c.bind("v", v)
        c.v.update(val=v)
        if c.variant == "list":
            o = c.obj(v)
            c.v.update(n0=o.length, g0=o.get)

    def ensures(self, c, out):
        st = out.state
        r = out.value
        if c.variant == "none":
            return {"none_stays_none": z3.BoolVal(r is None)}
        if c.variant == "single_name":
            ok = isinstance(r, Ref) and isinstance(st.obj(r), ListObj) and st.obj(r).items is not None and len(st.obj(r).items) == 1
            return {"a_single_name_becomes_a_one_element_list": And(z3.BoolVal(bool(ok)), to_z3(norm_str(st.obj(r).items[0])) == to_z3(c.v["val"])) if ok else z3.BoolVal(False)}
        if not isinstance(r, Ref):
            return {"C13.the_key_list_keeps_its_names_in_the_given_order": z3.BoolVal(False)}
        n, g = as_symlist(st, st.obj(r))
        k = z3.Int("k")
        return {"C13.the_key_list_keeps_its_names_in_the_given_order": And(to_z3(n) == to_z3(c.v["n0"]),
                                                                            ForAll([k], Implies(And(0 <= k, k < to_z3(c.v["n0"])), to_z3(norm_str(g(k))) == to_z3(norm_str(c.v["g0"](k))))))}


UNITS.append(BodyKeysValidator())


class TextToSequence(Contract):
    """ValidationHelpers.convert_string_to_sequence(v) (before-validator of every text component's `text`): None stays None, a string
    becomes a one-element list holding that very string, a sequence is passed on as it is (same lines, same order) - C02 / C10: the text the
    user wrote is the text the emitters get."""
    target = "input.py::ValidationHelpers.convert_string_to_sequence"
    serves = ["C10", "C06"]
    models = [StrModel()]
    variants = ["none", "string", "list"]

    def setup(self, c):
        v = None if c.variant == "none" else (c.fresh("text", T.Str) if c.variant == "string" else c.fresh("lines", T.List(T.Str)))
        c.bind("v", v)
        c.v.update(val=v)

    def ensures(self, c, out):
        st, r = out.state, out.value
        if c.variant == "none":
            return {"none_stays_none": z3.BoolVal(r is None)}
        if c.variant == "string":
            ok = isinstance(r, Ref) and isinstance(st.obj(r), ListObj) and st.obj(r).items is not None and len(st.obj(r).items) == 1
            return {"C10.a_string_becomes_one_line_holding_that_string": And(z3.BoolVal(bool(ok)), to_z3(norm_str(st.obj(r).items[0])) == to_z3(c.v["val"])) if ok else z3.BoolVal(False)}
        return {"C10.a_list_of_lines_is_passed_on_as_it_is": z3.BoolVal(_same(r, c.v["val"]))}


class ProcessTextConversion(Contract):
    """RTFTableTextComponent._process_text_conversion(): the lines of a footnote / source become ONE string, the lines in their order joined
    by the literal '\\\\line ' (an RTF line break between consecutive lines); no lines -> []; None stays None."""
    target = "input.py::RTFTableTextComponent._process_text_conversion"
    serves = ["C10", "C06"]
    models = [StrModel()]
    variants = ["lines", "no_lines", "none"]

    def setup(self, c):
        cls = c.cls("rtflite.input", "RTFTableTextComponent")
        if c.variant == "none":
            txt = None
        elif c.variant == "no_lines":
            txt = c.alloc(ListObj(items=[], fresh=False))
        else:
            txt = c.fresh("lines", T.List(T.Str, minlen=1))
        me = c.alloc(RecObj("RTFFootnote", {"text": txt}, pyclass=cls, fresh=False))
        c.bind("self", me)
        c.v.update(me=me, txt=txt)
        if c.variant == "lines":
            o = c.obj(txt)
            c.v.update(n0=o.length, g0=o.get)

    def ensures(self, c, out):
        from pyvc.values import Rope, Tok
        st = out.state
        t = st.obj(c.v["me"]).fields["text"]
        if c.variant == "none":
            return {"none_stays_none": z3.BoolVal(t is None)}
        if c.variant == "no_lines":
            ok = isinstance(t, Ref) and isinstance(st.obj(t), ListObj) and st.obj(t).items == []
            return {"no_lines_give_an_empty_list": z3.BoolVal(bool(ok))}
        t = norm_str(t)
        ok = isinstance(t, Rope) and len(t.pieces) == 1 and isinstance(t.pieces[0], Tok) and t.pieces[0].tag == "JOIN"
        if not ok:
            return {"C10.lines_joined_in_order_by_the_line_break_word": z3.BoolVal(False)}
        f = t.pieces[0].fields
        k = z3.Int("k")
        return {"C10.lines_joined_in_order_by_the_line_break_word": And(z3.BoolVal(norm_str(f.get("sep")) == "\\line "), to_z3(f["length"]) == to_z3(c.v["n0"]),
                                                                        ForAll([k], Implies(And(0 <= k, k < to_z3(c.v["n0"])),
                                                                                            to_z3(norm_str(f["get"](k))) == to_z3(norm_str(c.v["g0"](k))))))}


UNITS.extend([TextToSequence(), ProcessTextConversion()])
