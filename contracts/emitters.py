"""Contracts for the RTF emitters of row.py (DESIGN A14): Border / Cell / TextContent / Row `_as_rtf`,
_get_text_formatting, _get_paragraph_formatting.  C01 (balance, lexical validity, row shape), C09/C12 (what reaches the
output), C08 (cell boundary)."""
import z3
from z3 import And, Or, Not, Implies, ForAll, If, IntVal

from pyvc.contract import Contract
from pyvc.interp import LoopSpec
from pyvc import types as T
from pyvc.ops import PYROUND
from pyvc.values import (RecObj, ListObj, Ref, Opt, Rope, Chr, Dec, Fmt, Tok, StrSort, lit, norm_str, rope_of, rope_bal_low, rope_ascii,
                         fresh_name, to_z3, rope_term, _term_measure, lit_bal_low, m_bal, m_low, m_ascii)
from pyvc.libmodels.strings import StrModel, cp_at
from contracts.rtfview import ctl_params, param, param_int, all_params_integral, literal_text

COLORIDX = z3.Function("color_index_in_document_table", StrSort, z3.IntSort())


def s_color_index(I, st, args, kwargs, node):
    """Contract of Utils._get_color_index (units GetRtfColorIndex + EncodeCtx): a non-negative index into this document's table."""
    c = norm_str(args[0])
    t = to_z3(c)
    st.assume(COLORIDX(t) >= 0)
    return COLORIDX(t)


def s_inch_to_twip(I, st, args, kwargs, node):
    from pyvc import ops
    x = ops.to_real(args[0]) * 1440
    r = PYROUND(x)
    st.assume(2 * (z3.ToReal(r) - x) <= 1, 2 * (x - z3.ToReal(r)) <= 1)
    return r


def codes(index, name):
    return dict(getattr(index.real_module("rtflite.row"), name))


def in_keys(x, keys):
    return Or(*[x == lit(k) for k in keys])


class BorderAsRtf(Contract):
    """Border._as_rtf: `<style word>\\brdrw<width>[\\brdrcf<idx>]`; ValueError exactly for an unknown style."""
    target = "row.py::Border._as_rtf"
    serves = ["C01", "C07", "C09", "C12"]
    summaries = {"Utils._get_color_index": s_color_index}

    def setup(self, c):
        cls = c.cls("rtflite.row", "Border")
        style, width = c.fresh("style", T.Str), c.fresh("width", T.Int)
        color = c.fresh("color", T.Option(T.Str))
        c.bind("self", c.alloc(RecObj("Border", {"style": style, "width": width, "color": color}, pyclass=cls, fresh=False)))
        c.v["codes"] = codes(c.ctx.index, "BORDER_CODES")

    @property
    def raises(self):
        return {"ValueError": lambda c, out: {"only_for_unknown_style": Not(in_keys(c.v["style"], c.v["codes"]))}}

    def ensures(self, c, out):
        r = out.value
        style, width, color = c.v["style"], c.v["width"], c.v["color"]
        ps = rope_of(r).pieces
        b, l = rope_bal_low(r)
        cl = {"style_known": in_keys(style, c.v["codes"]),
              "style_word_first": And(*[Implies(style == lit(k), to_z3(ps[0]) == lit(v)) for k, v in c.v["codes"].items()]) if z3.is_expr(ps[0]) else z3.BoolVal(False),
              "width_emitted": param_int(r, "brdrw") == width if param_int(r, "brdrw") is not None else z3.BoolVal(False),
              "colour_emitted_iff_set": z3.BoolVal((param_int(r, "brdrcf") is not None)) == Not(color.isnone),
              "numeric_params_integral": z3.BoolVal(all_params_integral(r)),
              "balanced": And(b == 0, l >= 0), "ascii": rope_ascii(r)}
        if param_int(r, "brdrcf") is not None:
            cl["colour_index_of_requested_colour"] = param_int(r, "brdrcf") == COLORIDX(color.payload)
        return cl


def s_border_as_rtf(I, st, args, kwargs, node):
    """Contract of Border._as_rtf used by Cell._as_rtf: requires a known style; returns an opaque balanced ASCII token text."""
    o = st.obj(args[0])
    keys = list(codes(I.ctx.index, "BORDER_CODES"))
    I.oblige(st, f"call.Border._as_rtf#pre.style_known@L{getattr(node, 'lineno', None)}", in_keys(to_z3(norm_str(o.fields["style"])), keys), "pre")
    return Rope((Tok("BORDER", border=args[0], bal=IntVal(0), low=IntVal(0), ascii=z3.BoolVal(True)),))


class CellAsRtf(Contract):
    """Cell._as_rtf: optional \\clbrdrl/t/r/b definitions in that order, vertical alignment, `\\cellx<twip(width)>` last."""
    target = "row.py::Cell._as_rtf"
    serves = ["C01", "C07", "C08", "C09"]
    summaries = {"Border._as_rtf": s_border_as_rtf, "Utils._inch_to_twip": s_inch_to_twip}

    def setup(self, c):
        cls = c.cls("rtflite.row", "Cell")
        bcls = c.cls("rtflite.row", "Border")
        keys = list(codes(c.ctx.index, "BORDER_CODES"))
        fields = {"width": c.fresh("width", T.Real), "vertical_justification": c.fresh("vj", T.Option(T.Str))}
        for side in ("left", "top", "right", "bottom"):
            st_ = c.fresh(f"style_{side}", T.Str)
            c.requires(f"style_{side}_valid", in_keys(st_, keys))        # TableAttributes.validate_border (C19)
            b = c.alloc(RecObj("Border", {"style": st_, "width": c.fresh(f"w_{side}", T.Int), "color": c.fresh(f"c_{side}", T.Option(T.Str))},
                               pyclass=bcls, fresh=False))
            fields[f"border_{side}"] = Opt(z3.Bool(fresh_name(f"border_{side}.isnone")), b)
            c.v[f"b_{side}"] = fields[f"border_{side}"]
        vkeys = list(codes(c.ctx.index, "VERTICAL_ALIGNMENT_CODES"))
        c.requires("vertical_justification_valid", Or(fields["vertical_justification"].isnone, in_keys(fields["vertical_justification"].payload, vkeys)))
        c.bind("self", c.alloc(RecObj("Cell", fields, pyclass=cls, fresh=False)))
        c.v.update(width=fields["width"])

    def ensures(self, c, out):
        r = out.value
        ps = rope_of(r).pieces
        txt = literal_text(r)
        toks = [p for p in ps if isinstance(p, Tok)]
        order = [w for w in ("\\clbrdrl", "\\clbrdrt", "\\clbrdrr", "\\clbrdrb") if w in txt]
        pos = [txt.index(w) for w in order]
        b, l = rope_bal_low(r)
        cx = param_int(r, "cellx")
        cl = {"border_words_in_order_lrtb": z3.BoolVal(pos == sorted(pos)),
              "one_definition_per_present_border": z3.BoolVal(len(toks) == len(order)),
              "cellx_last": z3.BoolVal(isinstance(ps[-1], Dec) and isinstance(ps[-2], str) and ps[-2].endswith("\\cellx")),
              "cellx_is_twip_of_width": cx == PYROUND(1440 * c.v["width"]) if cx is not None else z3.BoolVal(False),
              "numeric_params_integral": z3.BoolVal(all_params_integral(r)),
              "balanced": And(b == 0, l >= 0), "ascii": rope_ascii(r)}
        for side, w in (("left", "\\clbrdrl"), ("top", "\\clbrdrt"), ("right", "\\clbrdrr"), ("bottom", "\\clbrdrb")):
            cl[f"{side}_border_emitted_iff_present"] = z3.BoolVal(w in txt) == Not(c.v[f"b_{side}"].isnone)
        # each emitted definition is the rendering of THAT side's border object
        want = [c.v[f"b_{s}"].payload for s, w in (("left", "\\clbrdrl"), ("top", "\\clbrdrt"), ("right", "\\clbrdrr"), ("bottom", "\\clbrdrb")) if w in txt]
        cl["definitions_bind_their_own_border"] = z3.BoolVal([t.fields["border"] for t in toks] == want)
        return cl


class ParagraphFormatting(Contract):
    """TextContent._get_paragraph_formatting: hyphenation, spacing, indents (twips), justification; ValueError only for an
    unknown justification; all numeric parameters integral."""
    target = "row.py::TextContent._get_paragraph_formatting"
    serves = ["C01", "C09"]
    summaries = {"Utils._inch_to_twip": s_inch_to_twip}

    def setup(self, c):
        cls = c.cls("rtflite.row", "TextContent")
        f = {k: c.fresh(k, T.Int) for k in ("space_before", "space_after", "indent_first", "indent_left", "indent_right", "space")}
        f["hyphenation"] = c.fresh("hyphenation", T.Bool)
        f["justification"] = c.fresh("justification", T.Str)
        c.bind("self", c.alloc(RecObj("TextContent", f, pyclass=cls, fresh=False)))
        c.v["jcodes"] = codes(c.ctx.index, "TEXT_JUSTIFICATION_CODES")

    @property
    def raises(self):
        return {"ValueError": lambda c, out: {"only_for_unknown_justification": Not(in_keys(c.v["justification"], c.v["jcodes"]))}}

    def ensures(self, c, out):
        r = out.value
        v = c.v
        txt = literal_text(r)
        b, l = rope_bal_low(r)
        cl = {"hyphenation_word": If(v["hyphenation"], z3.BoolVal(txt.startswith("\\hyphpar\\sb")), z3.BoolVal(txt.startswith("\\hyphpar0\\sb"))),
              "space_before": param_int(r, "sb") == v["space_before"], "space_after": param_int(r, "sa") == v["space_after"],
              "line_spacing_iff_not_1": z3.BoolVal(param_int(r, "sl") is not None) == (v["space"] != 1),
              "numeric_params_integral": z3.BoolVal(all_params_integral(r)),
              "balanced": And(b == 0, l >= 0), "ascii": rope_ascii(r),
              "justification_known": in_keys(v["justification"], v["jcodes"])}
        for w, fld in (("fi", "indent_first"), ("li", "indent_left"), ("ri", "indent_right")):
            got = param_int(r, w)
            cl[f"{fld}_twips"] = (got == PYROUND(1440 * (z3.ToReal(v[fld]) / 1440))) if got is not None else z3.BoolVal(False)
        if param_int(r, "sl") is not None:
            cl["line_spacing_value"] = param_int(r, "sl") == v["space"] * 240
        last = rope_of(r).pieces[-1]
        cl["justification_word_last"] = And(*[Implies(v["justification"] == lit(k), to_z3(last) == lit(w)) for k, w in v["jcodes"].items()]) \
            if z3.is_expr(last) else z3.BoolVal(False)
        return cl


class CharSet:
    def __init__(self, s):
        self.s = s


def h_set(I, st, args, kwargs, node):
    a = norm_str(args[0]) if args else None
    if a is not None and z3.is_expr(a) and a.sort() == StrSort:
        return CharSet(a)
    from pyvc.calls import call_builtin
    return call_builtin(I, st, "set", args, kwargs, node)


def h_list(I, st, args, kwargs, node):
    if args and isinstance(args[0], CharSet):
        return args[0]
    from pyvc.calls import call_builtin
    return call_builtin(I, st, "list", args, kwargs, node)


SORTEDCHAR = z3.Function("sorted_distinct_char", StrSort, z3.IntSort(), z3.IntSort())
NDISTINCT = z3.Function("n_distinct_chars", StrSort, z3.IntSort())


def h_sorted(I, st, args, kwargs, node):
    if args and isinstance(args[0], CharSet):
        s = args[0].s
        from pyvc.values import str_len
        n = NDISTINCT(s)
        k, j = z3.Ints("sck scj")
        I.ctx.assume_lib("sorted(list(set(s))): the distinct characters of s (each occurs in s)")
        st.assume(n >= 0, n <= str_len(s), Implies(str_len(s) > 0, n >= 1),
                  ForAll([k], Implies(And(0 <= k, k < n), z3.Exists([j], And(0 <= j, j < str_len(s), cp_at(s, j) == SORTEDCHAR(s, k))))))
        return st.alloc(ListObj(length=n, get=lambda kk, s=s: Rope((Chr(SORTEDCHAR(s, to_z3(kk))),)), fresh=True))
    return I.ctx.lib_sorted(I, st, args, kwargs, node)


class TextFormatting(Contract):
    """TextContent._get_text_formatting: `\\fs<2*size>{\\f<font-1>[\\cf..][\\chshdng0\\chcbpat..\\cb..][format words]` - opens exactly one
    group; ValueError only for a format character outside FORMAT_CODES."""
    target = "row.py::TextContent._get_text_formatting"
    serves = ["C01", "C09", "C12"]
    models = [StrModel()]
    summaries = {"Utils._get_color_index": s_color_index}
    handlers = {"set": h_set, "list": h_list, "sorted": h_sorted}
    variants = ["no_format", "format"]

    def setup(self, c):
        cls = c.cls("rtflite.row", "TextContent")
        f = {"size": c.fresh("size", T.Real), "font": c.fresh("font", T.Int), "color": c.fresh("color", T.Option(T.Str)),
             "background_color": c.fresh("background_color", T.Option(T.Str))}
        c.requires("half_point_size", And(f["size"] > 0, z3.IsInt(f["size"] * 2)))      # the property's 'integer and half-point font sizes'
        c.requires("font_number_valid", And(f["font"] >= 1, f["font"] <= 10))            # TextAttributes.validate_text_font (C19)
        if c.variant == "no_format":
            f["format"] = Opt(z3.Bool("format_is_none"), lit(""))
        else:
            fm = c.fresh("format", T.Str)
            c.requires("format_nonempty", fm != lit(""))
            from pyvc.values import str_len
            c.requires("format_len", str_len(fm) >= 1)
            f["format"] = fm
        c.bind("self", c.alloc(RecObj("TextContent", f, pyclass=cls, fresh=False)))
        c.v["fcodes"] = codes(c.ctx.index, "FORMAT_CODES")

    def setup_loops(self, c):
        def measures(parts):
            r = Rope(tuple(rope_of(norm_str(p)) for p in parts))
            return rope_bal_low(r) + (rope_ascii(r),)

        def before(I, st):
            o = st.obj(st.env["rtf"])
            b, l, a = measures(o.items)
            st.ghost["gbal"], st.ghost["glow"], st.ghost["gascii"] = b, l, a
            st.ghost["prefix"] = [to_z3(norm_str(p)) if not isinstance(norm_str(p), Rope) else rope_term(norm_str(p)) for p in o.items]
            st.ghost["prefix_ropes"] = list(o.items)

        def inv(v):
            g = v.state.ghost
            return {"bal_one_open_group": g["gbal"] == 1, "low_nonneg": g["glow"] >= 0, "ascii": g["gascii"]}

        def ghost_append(I, st):
            o = st.obj(st.env["rtf"])
            from pyvc.seqs import as_symlist
            n, get = as_symlist(st, o)
            last = get(z3.simplify(n - 1))
            pb = _term_measure(to_z3(last), lambda x: IntVal(lit_bal_low(x)[0]), m_bal)
            pl = _term_measure(to_z3(last), lambda x: IntVal(lit_bal_low(x)[1]), m_low)
            pa = _term_measure(to_z3(last), lambda x: z3.BoolVal(all(ord(ch) < 128 for ch in x)), m_ascii)
            g = st.ghost
            g["glow"] = If(g["glow"] <= g["gbal"] + pl, g["glow"], g["gbal"] + pl)
            g["gbal"] = g["gbal"] + pb
            g["gascii"] = And(g["gascii"], pa)
        self.ghost_after = [("rtf.append(FORMAT_CODES[fmt])", ghost_append)] if c.variant == "format" else []
        c.ctx.ghost_after = list(self.ghost_after)
        self.loops = {0: LoopSpec(inv=inv, before=before, havoc={"rtf": T.List(T.Str)}, ghost_vars=["gbal", "glow", "gascii"])} if c.variant == "format" else {}

    @property
    def models_join(self):
        return None

    @property
    def raises(self):
        def r(c, out):
            if c.variant == "no_format":
                return {"no_raise_without_format": z3.BoolVal(False)}
            keys = [k for k in c.v["fcodes"] if len(k) == 1]
            from pyvc.values import str_len
            j = z3.Int("fj")
            return {"only_for_illegal_format_char": z3.Exists([j], And(0 <= j, j < str_len(c.v["format"]), Not(Or(*[cp_at(c.v["format"], j) == ord(k) for k in keys]))))}
        return {"ValueError": r}

    def ensures(self, c, out):
        v = c.v
        r = out.value
        if c.variant == "format":
            g = out.state.ghost
            ps = rope_of(r).pieces
            ok = len(ps) == 1 and isinstance(ps[0], Tok) and ps[0].tag == "JOIN" and ps[0].fields["sep"] == ""
            # (a path that a timed-out feasibility check let through never ran the loop's `before` hook: its hypotheses are
            # contradictory and the clauses below are then discharged from them; the ghost defaults only keep this code total)
            gb, gl, ga = g.get("gbal", IntVal(-99)), g.get("glow", IntVal(-99)), g.get("gascii", z3.BoolVal(False))
            return {"is_concatenation_of_parts": z3.BoolVal(ok), "opens_exactly_one_group": gb == 1, "low_nonneg": gl >= 0, "ascii": ga}
        b, l = rope_bal_low(r)
        fs, fnum = param_int(r, "fs"), param_int(r, "f")
        cl = {"opens_exactly_one_group": And(b == 1, l >= 0), "ascii": rope_ascii(r),
              "numeric_params_integral": z3.BoolVal(all_params_integral(r)),
              "fs_is_twice_the_size": (z3.ToReal(fs) == 2 * v["size"]) if fs is not None else z3.BoolVal(False),
              "font_reference_is_font_minus_1": And(fnum == v["font"] - 1, fnum >= 0, fnum <= 9) if fnum is not None else z3.BoolVal(False),
              "cf_iff_colour": z3.BoolVal(param_int(r, "cf") is not None) == And(Not(v["color"].isnone), v["color"].payload != lit("")),
              "background_iff_colour": z3.BoolVal(param_int(r, "chcbpat") is not None) == And(Not(v["background_color"].isnone), v["background_color"].payload != lit(""))}
        if param_int(r, "cf") is not None:
            cl["cf_index_of_requested_colour"] = param_int(r, "cf") == COLORIDX(v["color"].payload)
        if param_int(r, "chcbpat") is not None:
            cl["background_index_of_requested_colour"] = And(param_int(r, "chcbpat") == COLORIDX(v["background_color"].payload),
                                                             param_int(r, "cb") == COLORIDX(v["background_color"].payload))
        return cl


class _JoinWithGhost(StrModel):
    def join_sym(self, I, st, sep, lst, node):
        from pyvc.seqs import seq_view
        n, g = seq_view(st, lst)
        gh = st.ghost
        return Rope((Tok("JOIN", sep=norm_str(sep), length=n, get=g, bal=gh.get("gbal", IntVal(0)), low=gh.get("glow", IntVal(0)),
                         ascii=gh.get("gascii", z3.BoolVal(True))),))


TextFormatting.models = [_JoinWithGhost()]


# ---- TextContent._as_rtf ---------------------------------------------------------------------------------------------
def s_par_fmt(I, st, args, kwargs, node):
    return Rope((Tok("PARFMT", owner=args[0], bal=IntVal(0), low=IntVal(0), ascii=z3.BoolVal(True)),))


def s_txt_fmt(I, st, args, kwargs, node):
    return Rope((Tok("TXTFMT", owner=args[0], bal=IntVal(1), low=IntVal(0), ascii=z3.BoolVal(True)),))


def s_convert(I, st, args, kwargs, node):
    return Rope((Tok("ESCAPED", owner=args[0], bal=IntVal(0), low=IntVal(0), ascii=z3.BoolVal(True)),))


class TextAsRtf(Contract):
    """TextContent._as_rtf(method): brace-balanced templates; paragraph/cell/plain use the ESCAPED text; the *_format methods
    re-wrap self.text verbatim (callers must pass already escaped text - obligation at the call sites)."""
    target = "row.py::TextContent._as_rtf"
    serves = ["C01", "C02", "C10"]
    summaries = {"TextContent._get_paragraph_formatting": s_par_fmt, "TextContent._get_text_formatting": s_txt_fmt,
                 "TextContent._convert_special_chars": s_convert}
    variants = ["paragraph", "cell", "plain", "paragraph_format", "cell_format", "other"]
    raises = {"ValueError": lambda c, out: {"only_for_unknown_method": z3.BoolVal(c.variant == "other")}}

    def setup(self, c):
        cls = c.cls("rtflite.row", "TextContent")
        text = c.fresh("text", T.Str)
        # hypothesis on raw text taken from the property's quantifier: balanced w.r.t. unescaped braces
        c.requires("text_balanced", And(m_bal(text) == 0, m_low(text) >= 0))
        c.bind("self", c.alloc(RecObj("TextContent", {"text": text}, pyclass=cls, fresh=False)))
        c.bind("method", c.variant if c.variant != "other" else "bogus")

    def ensures(self, c, out):
        r = out.value
        ps = rope_of(r).pieces
        tags = [p.tag if isinstance(p, Tok) else ("TEXT" if z3.is_expr(p) else "lit") for p in ps]
        b, l = rope_bal_low(r)
        cl = {"balanced": And(b == 0, l >= 0), "not_unknown_method": z3.BoolVal(c.variant != "other")}
        m = c.variant
        lits = "".join(p for p in ps if isinstance(p, str))
        if m in ("paragraph", "cell", "plain"):
            cl["uses_escaped_text_once"] = z3.BoolVal(tags.count("ESCAPED") == 1 and tags.count("TEXT") == 0)
            i = tags.index("ESCAPED") if "ESCAPED" in tags else 0
            cl["one_delimiter_space_before_text"] = z3.BoolVal(isinstance(ps[i - 1], str) and ps[i - 1] == " " and tags[i - 2] == "TXTFMT")
        else:
            cl["rewraps_text_verbatim_once"] = z3.BoolVal(tags.count("TEXT") == 1 and tags.count("ESCAPED") == 0 and tags.count("TXTFMT") == 0)
        want = {"paragraph": ("{\\pard", "}\\par}"), "cell": ("\\pard", "}\\cell"), "plain": ("", "}"),
                "paragraph_format": ("{\\pard", "\\par}"), "cell_format": ("\\pard", "\\cell")}.get(m)
        if want:
            first = ps[0] if isinstance(ps[0], str) else ""
            last = ps[-1] if isinstance(ps[-1], str) else ""
            cl["template_open_close"] = z3.BoolVal(first.startswith(want[0]) and last == want[1])
        return cl


# ---- Row._as_rtf --------------------------------------------------------------------------------------------------------
CELLDEF = z3.Function("rtf_cell_definition", z3.IntSort(), StrSort)
CELLTXT = z3.Function("rtf_cell_text", z3.IntSort(), StrSort)


class RowAsRtf(Contract):
    """Row._as_rtf: [row start] + one definition per cell + one `\\cell` content per cell, both in cell order, + [row end];
    so #cellx == #cell == n for every n (C01), cells in column order (C02)."""
    target = "row.py::Row._as_rtf"
    serves = ["C01", "C02"]
    summaries = {"Utils._inch_to_twip": s_inch_to_twip}
    raises = {"ValueError": lambda c, out: {"only_for_unknown_justification": Not(in_keys(c.v["justification"], c.v["rcodes"]))}}

    @property
    def handlers(self):
        return {}

    def setup(self, c):
        cls = c.cls("rtflite.row", "Row")
        cells = c.fresh("cells", T.List(T.Int))            # cell ids; `_as_rtf` of a cell / its text are functions of the id
        c.bind("self", c.alloc(RecObj("Row", {"row_cells": cells, "justification": c.fresh("justification", T.Str),
                                             "height": c.fresh("height", T.Real)}, pyclass=cls, fresh=False)))
        c.v["rcodes"] = codes(c.ctx.index, "ROW_JUSTIFICATION_CODES")
        c.v["cellsobj"] = c.obj(cells)

    class _CellModel:
        """cell ids: `cell._as_rtf()` -> CELLDEF(id); `cell.text._as_rtf(method='cell')` -> CELLTXT(id)"""

        def get_attr(self, I, st, base, attr, node):
            if z3.is_expr(base) and z3.is_int(base) and attr == "text":
                return ("celltext", base)
            if z3.is_expr(base) and z3.is_int(base) and attr == "_as_rtf":
                from pyvc.values import BoundMethod
                return BoundMethod(("cell", base), "_as_rtf")
            if isinstance(base, tuple) and base and base[0] == "celltext" and attr == "_as_rtf":
                from pyvc.values import BoundMethod
                return BoundMethod(base, "_as_rtf")
            return NotImplemented

        def call_method(self, I, st, recv, name, args, kwargs, node):
            if name == "_as_rtf" and z3.is_expr(recv) and z3.is_int(recv):
                return CELLDEF(recv)
            if name == "_as_rtf" and isinstance(recv, tuple) and recv[0] == "celltext":
                I.oblige(st, "call.TextContent._as_rtf#method_is_cell", z3.BoolVal(norm_str(kwargs.get("method")) == "cell"), "pre")
                return CELLTXT(recv[1])
            return NotImplemented

    models = [_CellModel()]

    def ensures(self, c, out):
        st = out.state
        from pyvc.seqs import seq_view
        n, g = seq_view(st, out.value)
        cells = c.v["cellsobj"]
        m = cells.length
        k = z3.Int("k")
        first = g(IntVal(0))
        fr = rope_of(norm_str(first)) if not z3.is_expr(first) else None
        cl = {"length_2n_plus_2": n == 2 * m + 2,
              "definitions_in_cell_order": ForAll([k], Implies(And(0 <= k, k < m), to_z3(g(1 + k)) == CELLDEF(cells.get(k)))),
              "contents_in_cell_order": ForAll([k], Implies(And(0 <= k, k < m), to_z3(g(1 + m + k)) == CELLTXT(cells.get(k)))),
              "row_end_last": to_z3(g(2 * m + 1)) == lit("\\intbl\\row\\pard"),
              "justification_known": in_keys(c.v["justification"], c.v["rcodes"])}
        return cl


UNITS = [BorderAsRtf(), CellAsRtf(), ParagraphFormatting(), TextFormatting(), TextAsRtf(), RowAsRtf()]
