"""Contracts for src/rtflite/pagination/core.py (DESIGN Appendix A1, A3)."""
import z3
from z3 import And, Or, Not, Implies, ForAll, If, IntVal, Select, Store

from pyvc.contract import Contract
from pyvc.interp import LoopSpec
from pyvc import types as T
from pyvc.libmodels.frames import MetaFrameModel, pl_DataFrame_from_rows


def _force(cols, newp, k):
    return Or(And(Select(cols["is_subline_start"], k), k > 0), And(newp, Select(cols["is_group_start"], k), k > 0))


class AssignPages(Contract):
    """PageBreakCalculator._assign_pages: exact greedy pagination (C02, C03, C04)."""
    target = "pagination/core.py::PageBreakCalculator._assign_pages"
    serves = ["C02", "C03", "C04"]
    models = [MetaFrameModel()]
    handlers = {"pl.DataFrame": pl_DataFrame_from_rows}

    def setup(self, c):
        meta = c.param("meta_df", T.Frame(total_rows=T.Int, is_group_start=T.Bool, is_subline_start=T.Bool, page=T.Int,
                                          row_index=T.Int, data_rows=T.Int, pageby_header_rows=T.Int, continuation_header_rows=T.Int,
                                          subline_header_rows=T.Int, column_header_rows=T.Int))
        add = c.param("additional_rows_per_page", T.Int)
        newp = c.param("new_page", T.Bool)
        pag = T.Rec("RTFPagination", nrow=T.Int)
        c.param("self", T.Rec("PageBreakCalculator", pagination=pag))
        fr = c.obj(meta)
        n, h = fr.n, fr.cols["total_rows"]
        nrow = c.obj(c.obj(c.v["self"]).fields["pagination"]).fields["nrow"]
        k = z3.Int("k")
        c.requires("heights_pos", ForAll([k], Implies(And(0 <= k, k < n), Select(h, k) >= 1)))
        c.requires("nrow_pos", nrow >= 1)
        # The first row of a page sits under the heading rows of ALL its page_by levels (continuation_header_rows) instead of the ones
        # budgeted for a mid-page group start (pageby_header_rows): top(k) is that extra cost; calculate_row_metadata (unit RowMetadata)
        # guarantees continuation >= group-start rows, and equality on row 0.
        pb, cont = fr.cols["pageby_header_rows"], fr.cols["continuation_header_rows"]
        c.requires("page_top_headings_cover_group_start_headings", ForAll([k], Implies(And(0 <= k, k < n), Select(cont, k) >= Select(pb, k))))
        # ghost prefix sums S[0]=0, S[k+1]=S[k]+h[k]
        S = z3.Array("S", z3.IntSort(), z3.IntSort())
        c.requires("ghost_S_def", And(Select(S, 0) == 0, ForAll([k], Implies(And(0 <= k, k < n), Select(S, k + 1) == Select(S, k) + Select(h, k)))))
        c.ghost("first", z3.Array("first0", z3.IntSort(), z3.IntSort()))
        c.ghost("last", z3.Array("last0", z3.IntSort(), z3.IntSort()))
        top = lambda f: If(f > 0, Select(cont, f) - Select(pb, f), 0)        # extra rows when row f opens a page (never for the first page)
        c.v.update(n=n, h=h, S=S, nrow=nrow, add=add, newp=newp, cols0=dict(fr.cols), top=top,
                   avail=If(nrow - add >= 1, nrow - add, 1))

    # ---- loop 0: for i, row in enumerate(rows)
    def _inv(self, c_v):
        def inv(v):
            n, h, S, newp, avail, cols0 = (c_v[x] for x in ("n", "h", "S", "newp", "avail", "cols0"))
            top = c_v["top"]
            cols = v.obj(v.rows).cols
            page = cols["page"]
            cp, cr, i = v.current_page, v.current_rows, v.i
            first, last = v.first, v.last
            k, p = z3.Int("k"), z3.Int("p")
            pos = i > 0
            frc = lambda j: _force(cols, newp, j)
            return {
                "range": And(0 <= i, i <= n),
                "avail": v.available_rows == avail,
                "start": Implies(i == 0, And(cp == 1, cr == 0)),
                "cur": Implies(pos, And(cp >= 1, first[1] == 0, 0 <= first[cp], first[cp] <= i - 1,
                                        cr == S[i] - S[first[cp]] + top(first[cp]), cr > 0)),
                "closed": Implies(pos, ForAll([p], Implies(And(1 <= p, p < cp),
                                                          And(0 <= first[p], first[p] <= last[p], first[p + 1] == last[p] + 1, last[p] < i)))),
                "memb": Implies(pos, ForAll([k], Implies(And(0 <= k, k < i),
                                                        And(1 <= page[k], page[k] <= cp, first[page[k]] <= k,
                                                            Implies(page[k] < cp, k <= last[page[k]]))))),
                "closedmemb": Implies(pos, ForAll([p, k], Implies(And(1 <= p, p < cp, first[p] <= k, k <= last[p]), page[k] == p))),
                "curmemb": Implies(pos, ForAll([k], Implies(And(first[cp] <= k, k < i), page[k] == cp))),
                "budget_closed": Implies(pos, ForAll([p], Implies(And(1 <= p, p < cp),
                                                                 Or(S[last[p] + 1] - S[first[p]] + top(first[p]) <= avail, first[p] == last[p])))),
                "budget_cur": Implies(pos, Or(cr <= avail, first[cp] == i - 1)),
                "forced": Implies(pos, ForAll([k], Implies(And(0 <= k, k < i, frc(k)), first[page[k]] == k))),
                "tight": Implies(pos, ForAll([k], Implies(And(0 <= k, k < i, first[page[k]] != k),
                                                         And(Not(frc(k)), S[k + 1] - S[first[page[k]]] + top(first[page[k]]) <= avail)))),
                "exact": Implies(pos, ForAll([p], Implies(And(2 <= p, p <= cp),
                                                         Or(frc(first[p]), S[first[p]] - S[first[p - 1]] + top(first[p - 1]) + h[first[p]] > avail)))),
                "frame": And(*[cols[cn] == cols0[cn] for cn in cols0 if cn != "page"]),
            }
        return inv

    def _ghost_iter(self, I, st, i):
        st.ghost["cp_iter_start"] = st.env["current_page"]

    def _ghost_after_store(self, I, st):
        g, e = st.ghost, st.env
        i, cp = g["__iter_index__"], e["current_page"]
        brk = cp != g["cp_iter_start"]
        g["last"] = If(brk, Store(g["last"], cp - 1, i - 1), g["last"])
        g["first"] = If(brk, Store(g["first"], cp, i), If(i == 0, Store(g["first"], 1, 0), g["first"]))

    def _after(self, I, st, n):
        st.ghost["last"] = Store(st.ghost["last"], st.env["current_page"], n - 1)

    @property
    def ghost_after(self):
        return [("row['page'] = current_page", self._ghost_after_store)]

    def setup_loops(self, c):
        self.loops = {0: LoopSpec(inv=self._inv(c.v), havoc={"row": ["page"]}, ghost_iter=self._ghost_iter,
                                  after=self._after, ghost_vars=["first", "last"])}

    def ensures(self, c, out):
        n, h, S, newp, avail, cols0 = (c.v[x] for x in ("n", "h", "S", "newp", "avail", "cols0"))
        top = c.v["top"]
        res = out.state.obj(out.value)
        cols = res.cols
        k, p = z3.Int("k"), z3.Int("p")
        if "current_page" not in out.state.env:       # early return for the empty frame
            return {"empty_identity": And(n == 0, *[cols[cn] == cols0[cn] for cn in cols0])}
        page = cols["page"]
        first, last, m = out.state.ghost["first"], out.state.ghost["last"], out.state.env["current_page"]
        frc = lambda j: _force(cols0, newp, j)
        return {
            "pages_from_1": And(m >= 1, first[1] == 0, last[m] == n - 1),
            "chain": ForAll([p], Implies(And(1 <= p, p < m), And(first[p + 1] == last[p] + 1))),
            "nonempty": ForAll([p], Implies(And(1 <= p, p <= m), first[p] <= last[p])),
            "page_iff_interval": ForAll([p, k], Implies(And(1 <= p, p <= m, 0 <= k, k < n),
                                                       (page[k] == p) == And(first[p] <= k, k <= last[p]))),
            "page_range": ForAll([k], Implies(And(0 <= k, k < n), And(1 <= page[k], page[k] <= m))),
            # a page's rows: the budgeted rows of its data rows plus the page-top headings of its first row
            "budget": ForAll([p], Implies(And(1 <= p, p <= m), Or(S[last[p] + 1] - S[first[p]] + top(first[p]) <= avail, first[p] == last[p]))),
            "break_only_if_required": ForAll([p], Implies(And(2 <= p, p <= m),
                                                          Or(frc(first[p]), S[first[p]] - S[first[p - 1]] + top(first[p - 1]) + h[first[p]] > avail))),
            "forced_break_always": ForAll([k], Implies(And(0 <= k, k < n, frc(k)), first[page[k]] == k)),
            "no_break_unless_required": ForAll([k], Implies(And(0 <= k, k < n, first[page[k]] != k),
                                                            And(Not(frc(k)), S[k + 1] - S[first[page[k]]] + top(first[page[k]]) <= avail))),
            "frame_other_columns": And(*[cols[cn] == cols0[cn] for cn in cols0 if cn != "page"]),
            "same_height": res.n == n,
        }


UNITS = [AssignPages()]
