"""Contracts for pagination/processor.py (C07 border hierarchy, C09 per-page attribute copy)."""
import z3
from z3 import And, Or, Not, Implies, ForAll, If, IntVal

from pyvc.contract import Contract
from pyvc.interp import LoopSpec
from pyvc import types as T
from pyvc.state import OutOfSubset
from pyvc.values import RecObj, ListObj, DictObj, MatrixObj, RowView, Ref, Opt, StrSort, lit, norm_str, to_z3, fresh_name
from pyvc.libmodels.polars_model import PolarsModel, fresh_df
from pyvc.libmodels.strings import StrModel
from pyvc.seqs import seq_view
from contracts.attributes import to_list_summary


def h_deepcopy(I, st, args, kwargs, node):
    """copy.deepcopy on a record of matrices / scalars: a fresh object with equal content (assumed stdlib contract)."""
    I.ctx.assume_lib("copy.deepcopy returns a fresh object graph with equal content")

    def cp(v):
        if isinstance(v, Ref):
            o = st.obj(v)
            if isinstance(o, RecObj):
                return st.alloc(RecObj(o.cls, {k: cp(x) for k, x in o.fields.items()}, pyclass=o.pyclass, fresh=True, origin="FRESH"))
            if isinstance(o, MatrixObj):
                return st.alloc(MatrixObj(o.rows, o.cols, o.cell, fresh=True, elem=o.elem))
            if isinstance(o, ListObj):
                c = o.clone()
                c.fresh = True
                if c.items is not None:
                    c.items = [cp(x) for x in c.items]
                return st.alloc(c)
            if isinstance(o, DictObj):
                return st.alloc(DictObj({k: cp(x) for k, x in o.items.items()}, o.present, fresh=True))
            raise OutOfSubset(f"deepcopy of {o.kind}")
        if isinstance(v, Opt):
            return Opt(v.isnone, cp(v.payload))
        return v
    return cp(args[0])


def new_bv(I, st, cv, args, kwargs, node):
    """BroadcastValue(value=<nested list>, dimension=...): the `before` validator leaves a list of lists unchanged."""
    return st.alloc(RecObj("BroadcastValue", {"value": kwargs.get("value"), "dimension": kwargs.get("dimension")}, pyclass=cv.pyclass))


def update_cell_summary(I, st, args, kwargs, node):
    """Contract of BroadcastValue.update_cell (unit UpdateCell): self.value := to_list() with exactly that cell replaced."""
    self_ = st.obj(args[0])
    r, cidx, v = args[1], args[2], args[3]
    m = to_list_summary(I, st, [args[0]], {}, node)
    if m is None:
        return None
    mo = st.obj(m)
    site = getattr(node, "lineno", None)
    I.oblige(st, f"call.update_cell#pre.cell_in_shape@L{site}", And(to_z3(r) >= 0, to_z3(r) < mo.rows, to_z3(cidx) >= 0, to_z3(cidx) < mo.cols), "pre", site)
    old, r0, c0 = mo.cell, z3.simplify(to_z3(r)), z3.simplify(to_z3(cidx))
    from pyvc.seqs import ite
    mo.cell = lambda rr, cc, old=old, r0=r0, c0=c0, v=v: ite(st, And(to_z3(rr) == r0, to_z3(cc) == c0), v, old(rr, cc))
    self_.fields["value"] = m
    return m


def truthy_str(s):
    if isinstance(s, Opt):
        return And(Not(s.isnone), s.payload != lit(""))
    return to_z3(s) != lit("")


GENERIC = "text_font"          # record key of the generic matrix attribute (its NAME, as the code sees it, is symbolic: ANYFIELD)


class PaginationBorders(Contract):
    """_apply_pagination_borders: the per-page border matrices realise the three-tier hierarchy; every other cell keeps the
    user's border; the page's attributes are a fresh deep copy (caller's objects untouched)."""
    target = "pagination/processor.py::PageFeatureProcessor._apply_pagination_borders"
    serves = ["C07", "C09", "C14"]
    models = [PolarsModel(), StrModel()]
    @property
    def handlers(self):
        def h_type(I, st, args, kwargs, node):
            # representative-field abstraction: `type(page_attrs).model_fields` enumerates the fields this harness models (two border
            # matrices, one generic matrix attribute, the one-row border_first/border_last); every other field of the real class is
            # treated by the loop body exactly like one of these
            # The generic matrix attribute is enumerated under a SYMBOLIC name: any of the real class's nested-list fields other than the
            # modelled border fields (ANYFIELD), so code that treats fields differently by name is followed for every such name.
            o = st.obj(args[0]) if isinstance(args[0], Ref) else None
            if isinstance(o, RecObj) and o.cls == "TableAttributes":
                keys = {(self._anyfield if k == GENERIC else k): None for k in o.fields}
                return st.alloc(RecObj("type", {"model_fields": st.alloc(DictObj(items=keys, fresh=True))}, fresh=True))
            from pyvc.calls import call_builtin
            return call_builtin(I, st, "type", args, kwargs, node)

        def _named(args):
            nm = norm_str(args[1]) if len(args) > 1 else None
            return z3.is_expr(nm) and nm.eq(self._anyfield)

        def h_getattr(I, st, args, kwargs, node):
            from pyvc.calls import call_builtin
            if _named(args):
                return I.get_attr(st, args[0], GENERIC, node)
            return call_builtin(I, st, "getattr", args, kwargs, node)

        def h_setattr(I, st, args, kwargs, node):
            from pyvc.calls import call_builtin
            if _named(args):
                I.set_attr(st, args[0], GENERIC, args[2], node)
                return None
            return call_builtin(I, st, "setattr", args, kwargs, node)
        return {"deepcopy": h_deepcopy, "new:BroadcastValue": new_bv, "type": h_type, "getattr": h_getattr, "setattr": h_setattr}
    summaries = {"BroadcastValue.update_cell": update_cell_summary}
    truth_vars = {"has_column_headers", "has_footnote_on_page", "has_source_on_page", "footnote_as_table_on_last", "source_as_table_on_last",
                  "has_border_top", "footnote_table_on_page", "source_table_on_page"}
    variants = [f"{k}.{sh}" for k in ("first_notlast", "middle", "last_notfirst", "only_page") for sh in ("rowsN", "rows1")]
    loops_optional = {6, 7, 8}        # which of the three column loops is reachable depends on the page kind (variant)
    merge_ifs = True
    max_paths = 20000
    frame = "strict"
    @property
    def modifies(self):
        # the page's own component_borders dict (a PageContext field: pipeline-local) and BroadcastValue temporaries
        return [lambda I, st, ref, o, what: isinstance(o, RecObj) and o.cls == "BroadcastValue",
                lambda I, st, ref, o, what: ref == self._compref]

    def setup(self, c):
        kind, shape = c.variant.split(".")
        proc_cls = c.cls("rtflite.pagination.processor", "PageFeatureProcessor")
        ta_cls = c.cls("rtflite.attributes", "TableAttributes")
        c.bind("self", c.alloc(RecObj("PageFeatureProcessor", {}, pyclass=proc_cls, fresh=False)))
        page_df = fresh_df(c.st, "page_df")
        d = c.obj(page_df)
        h, w = d.n, d.w
        # processed per-page table attributes (matrices of the body's borders, any shape)
        bt = c.fresh("border_top", T.Matrix(T.Str))
        bb = c.fresh("border_bottom", T.Matrix(T.Str))
        tf = c.fresh("text_font", T.Matrix(T.Int))
        one = lambda name: c.alloc(ListObj(items=[c.alloc(ListObj(items=[c.fresh(name, T.Str)], fresh=False))], fresh=False))
        tattrs = c.alloc(RecObj("TableAttributes", {"border_top": bt, "border_bottom": bb,
                                                    "border_first": one("ta_border_first"), "border_last": one("ta_border_last"),
                                                    "text_font": tf}, pyclass=ta_cls, fresh=False, origin="CALLER"))
        # ANYFIELD: the name under which the generic matrix attribute is enumerated - any nested-list field of the real TableAttributes class
        real_fields = [n for n, f in (ta_cls.pyclass if hasattr(ta_cls, "pyclass") else ta_cls).model_fields.items() if "list[list[" in str(f.annotation).replace("typing.", "").replace("List", "list")]
        names = [n for n in real_fields if n not in ("border_top", "border_bottom", "border_first", "border_last")]
        self._anyfield = z3.Const("any_matrix_field_name", StrSort)
        c.requires("generic_attribute_is_one_of_the_real_nested_list_fields", Or(*[self._anyfield == lit(n) for n in names]) if names else z3.BoolVal(False))
        rs = c.fresh("row_start", T.Int)
        c.requires("row_start_nonneg", rs >= 0)
        mx, mm = z3.Ints("mx mm")
        # arithmetic fact handed to the solver as a hint (valid for all integers): a value already inside [0, m) is its own residue
        c.requires("lemma_mod_identity", ForAll([mx, mm], Implies(And(0 <= mx, mx < mm), mx % mm == mx), patterns=[mx % mm]))
        # attribute shapes: full matrices (more than one row) or scalar / per-column vectors (one row); each attribute is treated
        # independently by the code, the two variants cover both treatments
        for mref in (bt, bb, tf):
            c.requires("attribute_row_count", c.obj(mref).rows > 1 if shape == "rowsN" else c.obj(mref).rows == 1)
        comp = DictObj(items={}, fresh=False)
        comp.tag = "component_borders"
        compref = c.alloc(comp)
        fl = {"first_notlast": (True, False), "middle": (False, False), "last_notfirst": (False, True), "only_page": (True, True)}[kind]
        first, last = z3.BoolVal(fl[0]), z3.BoolVal(fl[1])
        page = c.alloc(RecObj("PageContext", {"table_attrs": tattrs, "data": page_df, "row_start": rs, "is_first_page": fl[0], "is_last_page": fl[1],
                                              "component_borders": compref}, fresh=False))
        # document
        body_bf = c.fresh("body_border_first", T.Matrix(T.Str))
        body_bl = c.fresh("body_border_last", T.Matrix(T.Str))
        body_bt = c.fresh("body_border_top", T.Matrix(T.Str))
        body = c.alloc(RecObj("RTFBody", {"border_first": body_bf, "border_last": body_bl, "border_top": body_bt}, fresh=False, origin="CALLER"))
        pbf, pbl = c.fresh("page_border_first", T.Option(T.Str)), c.fresh("page_border_last", T.Option(T.Str))
        pfn, psrc = c.fresh("page_footnote", T.Str), c.fresh("page_source", T.Str)
        for x in (pfn, psrc):
            c.requires("placement_legal", Or(x == lit("first"), x == lit("last"), x == lit("all")))
        rpage = c.alloc(RecObj("RTFPage", {"border_first": pbf, "border_last": pbl, "page_footnote": pfn, "page_source": psrc}, fresh=False))
        nh = c.fresh("n_headers", T.Int)
        c.requires("n_headers_nonneg", nh >= 0)
        # column headers: entry k is None (HN) or a header whose own text is unset (TN) or set; a header row is RENDERED for a header that
        # has text or - for a single body with as_colheader - gets the column names (unit RenderColumnHeaders)
        HN = z3.Function(fresh_name("header_is_none"), z3.IntSort(), z3.BoolSort())
        TN = z3.Function(fresh_name("header_text_is_none"), z3.IntSort(), z3.BoolSort())
        from pyvc.state import lazy_alloc as _lazy
        _hm = {}

        def _hdr(j):
            key = str(z3.simplify(to_z3(j)))
            if key not in _hm:
                txt = _lazy(ListObj(length=z3.Int(fresh_name("n_labels")), get=lambda q: z3.Const(fresh_name("label"), StrSort), fresh=False))
                _hm[key] = Opt(HN(to_z3(j)), _lazy(RecObj("RTFColumnHeader", {"text": Opt(TN(to_z3(j)), txt)}, fresh=False)))
            return _hm[key]
        headers = c.alloc(ListObj(length=nh, get=_hdr, fresh=False))
        as_colheader = c.fresh("as_colheader", T.Bool)
        c.obj(body).fields["as_colheader"] = as_colheader
        kq = z3.Int("hk")
        c.v.update(header_row_rendered=z3.Exists([kq], And(0 <= kq, kq < nh, Not(HN(kq)), Or(Not(TN(kq)), as_colheader))))

        def comp_rec(name):
            isn = z3.Bool(fresh_name(name + ".isnone"))
            txt = c.fresh(name + ".text", T.Option(T.List(T.Str)))
            at = c.fresh(name + ".as_table", T.Bool)
            r = c.alloc(RecObj(name, {"text": txt, "as_table": at}, fresh=False))
            return Opt(isn, r), isn, txt, at
        fn, fn_none, fn_txt, fn_tab = comp_rec("rtf_footnote")
        src, src_none, src_txt, src_tab = comp_rec("rtf_source")
        doc = c.alloc(RecObj("RTFDocument", {"rtf_body": body, "rtf_page": rpage, "rtf_column_header": headers,
                                             "rtf_footnote": fn, "rtf_source": src}, fresh=False))
        c.bind("document", doc)
        c.bind("page", page)
        mo = lambda ref: c.obj(ref)
        self._compref = compref
        c.v.update(rs=rs, tf=mo(tf), tf0=mo(tf).cell)
        c.v.update(h=h, w=w, first=first, last=last, pbf=pbf, pbl=pbl, pfn=pfn, psrc=psrc, nh=nh, bt=mo(bt), bb=mo(bb), bf=mo(body_bf),
                   bl=mo(body_bl), btop=mo(body_bt), compref=compref, tattrs=tattrs,
                   fn=(fn_none, fn_txt, fn_tab), src=(src_none, src_txt, src_tab), bt0=mo(bt).cell, bb0=mo(bb).cell)

    # ---- specification -------------------------------------------------------------------------------------------------
    def spec(self, c):
        v = c.v
        h, w = v["h"], v["w"]

        def shown(loc):
            return Or(loc == lit("all"), And(loc == lit("first"), v["first"]), And(loc == lit("last"), v["last"]))

        def has_text(txt):
            return And(Not(txt.isnone), c.obj(txt.payload).length > 0)
        fn_none, fn_txt, fn_tab = v["fn"]
        src_none, src_txt, src_tab = v["src"]
        fn_on = And(Not(fn_none), has_text(fn_txt), shown(v["pfn"]))
        src_on = And(Not(src_none), has_text(src_txt), shown(v["psrc"]))
        # property: the document's last table row is the footnote / source row "when one is rendered as a table there", i.e. when the
        # component is SHOWN on this (last) page - whatever placement keyword makes it so (a one-page document shows 'first' components too)
        fn_tab_last = And(fn_on, fn_tab)
        src_tab_last = And(src_on, src_tab)
        # "there is a column header" in the property's sense: a header ROW is rendered above the body (not merely: a header object exists)
        has_headers = v["header_row_rendered"]
        bf, btop = v["bf"], v["btop"]

        def user_top(r, col):
            # the user's value at the ORIGINAL row: page row r is table row row_start + r
            return v["bt0"]((v["rs"] + r) % v["bt"].rows, col % v["bt"].cols)

        def user_bottom(r, col):
            return v["bb0"]((v["rs"] + r) % v["bb"].rows, col % v["bb"].cols)

        def body_first(col):
            base = If(col < bf.cols, bf.cell(IntVal(0), col), bf.cell(IntVal(0), IntVal(0)))
            override = And(btop.rows > 0, btop.cols > bf.cols, col < btop.cols, btop.cell(IntVal(0), col) != lit(""))
            return If(override, btop.cell(IntVal(0), col), base)
        body_bf_set = And(bf.rows > 0)        # a non-empty nested list is truthy
        body_bl_set = And(v["bl"].rows > 0)

        def top(r, col):
            page_first = And(v["first"], Not(has_headers), truthy_str(v["pbf"]))
            body_first_here = And(body_bf_set, Or(And(v["first"], has_headers), Not(v["first"])))
            return If(r == 0, If(body_first_here, body_first(col), If(page_first, v["pbf"].payload, user_top(r, col))), user_top(r, col))

        def bottom(r, col):
            mid = And(Not(v["last"]), body_bl_set, Not(Or(And(fn_on, fn_tab), And(src_on, src_tab))))
            end = And(v["last"], truthy_str(v["pbl"]), Not(Or(fn_tab_last, src_tab_last)))
            return If(r == h - 1, If(mid, v["bl"].cell(IntVal(0), IntVal(0)), If(end, v["pbl"].payload, user_bottom(r, col))), user_bottom(r, col))
        return dict(top=top, bottom=bottom, fn_on=fn_on, src_on=src_on, fn_tab_last=fn_tab_last, src_tab_last=src_tab_last,
                    body_bl_set=body_bl_set, has_headers=has_headers)

    # ---- loops: "columns < c done, the rest as before the loop" ---------------------------------------------------------
    def setup_loops(self, c):
        v = c.v

        def col_loop(field, row_of, style_of):
            """Invariant factory for `for col_idx in range(width): apply(style) at (row, col_idx)` on page_attrs.<field>."""
            def before(I, st):
                pa = st.obj(st.env["page_attrs"])
                val = pa.fields[field]
                m = st.obj(val)
                if isinstance(m, MatrixObj):
                    st.ghost[f"pre_{field}"] = (m.rows, m.cols, m.cell)
                else:
                    ln, lg = seq_view(st, val)
                    c0 = seq_view(st, lg(IntVal(0)))[0]
                    st.ghost[f"pre_{field}"] = (ln, c0, lambda rr, cc, lg=lg: seq_view(st, lg(rr))[1](cc))

            def inv(vv):
                st = vv.state
                pa = st.obj(st.env["page_attrs"])
                m = st.obj(pa.fields[field])
                if not isinstance(m, MatrixObj):
                    ln, lg = seq_view(st, pa.fields[field])
                    c0 = seq_view(st, lg(IntVal(0)))[0]
                    m = MatrixObj(ln, c0, lambda rr, cc, lg=lg: seq_view(st, lg(rr))[1](cc))
                rows0, cols0, cell0 = st.ghost[f"pre_{field}"]
                r, col = z3.Ints("ir ic")
                row = row_of(vv)
                sty = style_of(vv)
                gm = lambda x, mod, full: If(mod == full, x, x % mod)        # guarded mod: identity when the extent is the page's
                bc = lambda rr, cc: m.cell(gm(rr, m.rows, v["h"]), gm(cc, m.cols, v["w"]))
                return {"shape": And(m.rows >= 1, m.cols >= 1, Implies(vv.i > 0, And(m.rows == v["h"], m.cols == v["w"]))),
                        "done_columns_have_style": ForAll([col], Implies(And(0 <= col, col < vv.i), bc(row, col) == sty(col))),
                        "everything_else_as_before": ForAll([r, col], Implies(And(0 <= r, r < v["h"], 0 <= col, col < v["w"], Or(r != row, col >= vv.i)),
                                                                            bc(r, col) == cell0(gm(r, rows0, v["h"]), gm(col, cols0, v["w"]))))}

            def havoc(I, st, name, ref):
                pa = st.obj(ref)
                f = z3.Function(fresh_name(f"{field}_it"), z3.IntSort(), z3.IntSort(), StrSort)
                pa.fields[field] = st.alloc(MatrixObj(z3.Int(fresh_name("rows")), z3.Int(fresh_name("cols")), lambda r, cc, f=f: f(to_z3(r), to_z3(cc)), fresh=True))
                return ref
            return LoopSpec(inv=inv, before=before, havoc={"page_attrs": havoc})
        self._col_loop = col_loop
        pbf, pbl, bl = v["pbf"], v["pbl"], v["bl"]
        zero = lambda vv: IntVal(0)
        lastrow = lambda vv: v["h"] - 1
        bf, btop = v["bf"], v["btop"]

        def body_first_style(vv):
            def sty(col):
                base = If(col < bf.cols, bf.cell(IntVal(0), col), bf.cell(IntVal(0), IntVal(0)))
                override = And(btop.rows > 0, btop.cols > bf.cols, col < btop.cols, btop.cell(IntVal(0), col) != lit(""))
                return If(override, btop.cell(IntVal(0), col), base)
            return sty
        # loop ordinals in _apply_pagination_borders: 0 model_fields loop, 1 row re-selection comprehension, 2/3 border fill comprehensions,
        # 4 first-page loop, 5 not-last bottom loop, 6 last-page bottom loop;  inlined _apply_body_border_first: loops #0 (list branch), #1 (scalar branch)
        # (ordinal 5 is the generator expression of `has_column_headers = any(...)`: evaluated as a quantifier, no invariant)
        self.loops = {
            6: col_loop("border_top", zero, lambda vv: (lambda col: pbf.payload)),
            7: col_loop("border_bottom", lastrow, lambda vv: (lambda col: bl.cell(IntVal(0), IntVal(0)))),
            8: col_loop("border_bottom", lastrow, lambda vv: (lambda col: pbl.payload)),
            "PageFeatureProcessor._apply_body_border_first#0": col_loop("border_top", zero, body_first_style),
        }

    def ensures(self, c, out):
        st = out.state
        v = c.v
        sp = self.spec(c)
        res = st.obj(out.value)
        r, col = z3.Ints("r col")
        cl = {"fresh_copy_not_the_callers_attrs": z3.BoolVal(out.value != v["tattrs"] and res.fresh)}
        inrange = And(0 <= r, r < v["h"], 0 <= col, col < v["w"])
        if "current_borders" not in st.env and "page_shape" in st.env and False:
            pass
        # empty page: returned as copied
        top, bot = res.fields["border_top"], res.fields["border_bottom"]
        if not isinstance(top, Ref) or not isinstance(bot, Ref):
            return {**cl, "border_matrices_present": z3.BoolVal(False)}
        def as_matrix(ref):
            o = st.obj(ref)
            if isinstance(o, MatrixObj):
                return o
            ln, lg = seq_view(st, ref)
            c0 = seq_view(st, lg(IntVal(0)))[0]
            return MatrixObj(ln, c0, lambda rr, cc, lg=lg: seq_view(st, lg(rr))[1](cc))
        mt, mb = as_matrix(top), as_matrix(bot)
        gm = lambda x, mod, full: If(mod == full, x, x % mod)
        colr = And(0 <= col, col < v["w"])
        tcell = lambda rr: mt.cell(gm(rr, mt.rows, v["h"]), gm(col, mt.cols, v["w"]))
        bcell = lambda rr: mb.cell(gm(rr, mb.rows, v["h"]), gm(col, mb.cols, v["w"]))
        # one obligation per region keeps every query small (row 0 / the other rows; last row / the other rows)
        cl["C07.top_edges.first_row"] = Implies(v["h"] > 0, ForAll([col], Implies(colr, tcell(IntVal(0)) == sp["top"](IntVal(0), col))))
        cl["C07.top_edges.other_rows_keep_user_border"] = Implies(v["h"] > 0, ForAll([r, col], Implies(And(inrange, r >= 1), tcell(r) == sp["top"](r, col))))
        cl["C07.bottom_edges.last_row"] = Implies(v["h"] > 0, ForAll([col], Implies(colr, bcell(v["h"] - 1) == sp["bottom"](v["h"] - 1, col))))
        cl["C07.bottom_edges.other_rows_keep_user_border"] = Implies(v["h"] > 0, ForAll([r, col], Implies(And(inrange, r < v["h"] - 1), bcell(r) == sp["bottom"](r, col))))
        cl["border_first_last_not_broadcast_to_all_rows"] = Implies(v["h"] > 0, z3.BoolVal(res.fields["border_first"] is None and res.fields["border_last"] is None))
        tfv = res.fields.get("text_font")
        sv = seq_view(st, tfv) if tfv is not None else None
        if sv is None:
            cl["C09.matrix_attribute_rows_follow_original_rows"] = z3.BoolVal(False)
        else:
            ln, lg = sv
            gm2 = lambda x, mod, full: If(mod == full, x, x % mod)
            rowv = seq_view(st, lg(gm2(r, ln, v["h"])))
            cl["C09.matrix_attribute_rows_follow_original_rows"] = Implies(v["h"] > 0, ForAll([r, col], Implies(inrange,
                rowv[1](col % rowv[0]) == v["tf0"]((v["rs"] + r) % v["tf"].rows, col % v["tf"].cols))))
        # component border override: the border that closes the table goes to the table-rendered component shown on this page
        comp = st.obj(v["compref"])
        fn_none, fn_txt, fn_tab = v["fn"]
        src_none, src_txt, src_tab = v["src"]
        style_mid = v["bl"].cell(IntVal(0), IntVal(0))
        want_src = Or(And(Not(v["last"]), sp["body_bl_set"], sp["src_on"], src_tab),
                      And(v["last"], truthy_str(v["pbl"]), Or(sp["fn_tab_last"], sp["src_tab_last"]), sp["src_on"], src_tab))
        want_fn = Or(And(Not(v["last"]), sp["body_bl_set"], Not(And(sp["src_on"], src_tab)), sp["fn_on"], fn_tab),
                     And(v["last"], truthy_str(v["pbl"]), Or(sp["fn_tab_last"], sp["src_tab_last"]), Not(And(sp["src_on"], src_tab)), sp["fn_on"], fn_tab))
        style = If(v["last"], v["pbl"].payload, style_mid)
        psrc = comp.present.get("source", True) if "source" in comp.items else False
        pfn = comp.present.get("footnote", True) if "footnote" in comp.items else False
        cl["C07.source_row_closes_table_when_shown_as_table"] = Implies(v["h"] > 0, And(to_z3(psrc) == want_src,
                                                                        Implies(want_src, to_z3(comp.items.get("source", lit(""))) == style)))
        cl["C07.footnote_row_closes_table_when_shown_as_table"] = Implies(v["h"] > 0, And(to_z3(pfn) == want_fn,
                                                                          Implies(want_fn, to_z3(comp.items.get("footnote", lit(""))) == style)))
        # the property's clause that has no carrier today: a page break after a PARAGRAPH footnote/source leaves no row to carry the border
        r0, c0 = z3.Ints("r0 c0")
        cl["C07.break_bottom.some_row_carries_body_border_last"] = Implies(
            And(v["h"] > 0, Not(v["last"]), sp["body_bl_set"]),
            Or(want_src, want_fn, ForAll([c0], Implies(And(0 <= c0, c0 < v["w"]), mb.cell((v["h"] - 1) % mb.rows, c0 % mb.cols) == style_mid))))
        return cl


UNITS = [PaginationBorders()]


class ProcessPage(Contract):
    """PageFeatureProcessor.process(document, page): the page's final body attributes are what _apply_pagination_borders computes for THIS
    document and THIS page, and the same page object is returned (the renderer encodes the rows with page.final_body_attrs: C07 / C09)."""
    target = "pagination/processor.py::PageFeatureProcessor.process"
    serves = ["C07", "C09"]
    models = [StrModel()]

    def setup(self, c):
        c.bind("self", c.alloc(RecObj("PageFeatureProcessor", {}, pyclass=c.cls("rtflite.pagination.processor", "PageFeatureProcessor"), fresh=False)))
        doc = c.alloc(RecObj("RTFDocument", {}, fresh=False, origin="CALLER"))
        page = c.alloc(RecObj("PageContext", {"final_body_attrs": None}, pyclass=c.cls("rtflite.pagination.strategies.base", "PageContext"), fresh=False))
        c.bind("document", doc)
        c.bind("page", page)
        c.v.update(doc=doc, page=page)
        c.ghost("computed", None)
        self._v = c.v

    @property
    def summaries(self):
        def borders(I, st, args, kwargs, node):
            site = getattr(node, "lineno", None)
            I.oblige(st, f"C07.borders_computed_for_this_document_and_this_page@L{site}",
                     z3.BoolVal(isinstance(args[1], Ref) and args[1].oid == self._v["doc"].oid and isinstance(args[2], Ref) and args[2].oid == self._v["page"].oid), "post", site)
            res = st.alloc(RecObj("TableAttributes", {}, fresh=True))
            st.ghost["computed"] = res
            return res
        return {"PageFeatureProcessor._apply_pagination_borders": borders}

    def ensures(self, c, out):
        st = out.state
        comp = st.ghost.get("computed")
        fa = st.obj(c.v["page"]).fields.get("final_body_attrs")
        return {"C09.the_pages_final_attributes_are_the_computed_ones": z3.BoolVal(isinstance(fa, Ref) and isinstance(comp, Ref) and fa.oid == comp.oid),
                "returns_the_same_page": z3.BoolVal(isinstance(out.value, Ref) and out.value.oid == c.v["page"].oid)}
