"""Contracts for the pydantic validators (DESIGN A22): C19.

Uniform schema: `returns v` iff every element is legal; an illegal element at ANY position of a flat, nested
(possibly jagged) or matrix value makes the validator raise an exception whose class is a subclass of ValueError;
no other exception class escapes on any path (so `cls.__field_name__` -> AttributeError is a violation)."""
import z3
from z3 import And, Or, Not, Implies, ForAll, Exists, If, IntVal

from pyvc.contract import Contract
from pyvc.interp import LoopSpec
from pyvc import types as T
from pyvc.state import lazy_alloc
from pyvc.units import TableUnit
from pyvc.values import ClassVal, ListObj, RecObj, Ref, RowView, Opt, StrSort, Chr, Rope, lit, str_len, fresh_name, to_z3, norm_str
from pyvc.libmodels.tables import BigTableModel
from pyvc.libmodels.strings import StrModel, cp_at

VALID_COLOR = z3.Function("in_name_to_type", StrSort, z3.BoolSort())
_SORT = {"int": z3.IntSort(), "real": z3.RealSort(), "str": StrSort}


def jagged(c, name, kind):
    """Nested list with per-row lengths: (ref, n, LEN, CELL)."""
    n = z3.Int(fresh_name(name + ".rows"))
    LEN = z3.Function(fresh_name(name + ".len"), z3.IntSort(), z3.IntSort())
    CELL = z3.Function(fresh_name(name + ".cell"), z3.IntSort(), z3.IntSort(), _SORT[kind])
    q = z3.Int("q")
    c.requires(f"{name}_wf", And(n >= 0, ForAll([q], LEN(q) >= 0)))
    memo = {}

    def getrow(j):
        j = j if z3.is_expr(j) else IntVal(j)
        key = str(z3.simplify(j))
        if key not in memo:
            lo = ListObj(length=LEN(j), get=(lambda col, j=j: CELL(j, col if z3.is_expr(col) else IntVal(col))), fresh=False)
            lo.tag = j
            memo[key] = lazy_alloc(lo)
        return memo[key]
    ref = c.alloc(ListObj(length=n, get=getrow, fresh=False))
    return ref, n, LEN, CELL


def flat(c, name, kind):
    ref = c.fresh(name, T.List(T.T(kind)))
    o = c.obj(ref)
    return ref, o.length, o.get


def legal_chars(allowed):
    """legal(s) for a string whose characters must all be in `allowed` (single-character keys)."""
    codes = [ord(k) for k in allowed if len(k) == 1]

    def legal(s):
        j = z3.Int(fresh_name("cj"))
        return ForAll([j], Implies(And(0 <= j, j < str_len(s)), Or(*[cp_at(s, j) == cc for cc in codes])))
    return legal


class ValidatorContract(Contract):
    """Generic contract; subclasses set target, elem kind, `legal`, `shapes` and the loop layout."""
    elem = "str"
    shapes = ("none", "flat", "nested")
    layout = "nested_then_flat"       # loops: 0 rows, 1 row elements, 2 flat      | "nested_only": 0 rows, 1 elements
    models = [BigTableModel(), StrModel()]
    raises = {"ValueError": lambda c, out: out.state.ghost.get("__raise_clauses__", lambda: {})() if False else {}}
    inner_chars = False               # an innermost loop over the characters of each element (text_format)
    cls_name = None
    cls_mod = "rtflite.attributes"

    def legal(self, c, x):
        raise NotImplementedError

    @property
    def variants(self):
        return list(self.shapes)

    @property
    def summaries(self):
        def suggestions(I, st, args, kwargs, node):
            from pyvc.types import fresh_value
            return fresh_value(st, T.List(T.Str), "suggestions", fresh=True)
        return {"ColorService.get_color_suggestions": suggestions}

    def setup(self, c):
        pyc = c.cls(self.cls_mod, self.cls_name)
        c.bind("cls", ClassVal(self.cls_name, pyc))
        if "info" in [a.arg for a in c.ctx.fn.args.args]:
            # pydantic passes ValidationInfo; field_name is the str name of the field being validated (assumed, pydantic)
            c.param("info", T.Rec("ValidationInfo", field_name=T.Str))
        sh = c.variant
        if sh == "none":
            c.bind("v", None)
        elif sh == "flat":
            ref, n, get = flat(c, "v", self.elem)
            c.bind("v", ref)
            c.v.update(n=n, get=get)
        elif sh == "nested":
            ref, n, LEN, CELL = jagged(c, "v", self.elem)
            c.bind("v", ref)
            c.v.update(n=n, LEN=LEN, CELL=CELL)
        elif sh == "scalar":
            c.param("v", T.T(self.elem))
        if getattr(self, "nonempty", False) and sh in ("flat", "nested"):
            c.requires("nonempty_vector", c.v["n"] >= 1)
            if sh == "nested":
                c.requires("nonempty_first_row", c.v["LEN"](0) >= 0)

    def all_legal(self, c):
        sh = c.variant
        if sh == "none":
            return z3.BoolVal(True)
        if sh == "scalar":
            return self.legal(c, c.v["v"])
        k, r, col = z3.Ints("vk vr vc")
        if sh == "flat":
            return ForAll([k], Implies(And(0 <= k, k < c.v["n"]), self.legal(c, c.v["get"](k))))
        return ForAll([r, col], Implies(And(0 <= r, r < c.v["n"], 0 <= col, col < c.v["LEN"](r)), self.legal(c, c.v["CELL"](r, col))))

    def setup_loops(self, c):
        sh = c.variant
        loops = {}
        if self.layout == "none":
            self.loops = {}
            return
        if sh == "nested":
            n, LEN, CELL = c.v["n"], c.v["LEN"], c.v["CELL"]
            r, col = z3.Ints("ir ic")

            def rows_done(i):
                return ForAll([r, col], Implies(And(0 <= r, r < i, 0 <= col, col < LEN(r)), self.legal(c, CELL(r, col))))

            def inv_rows(v):
                return {"rows_before_legal": rows_done(v.i)}

            def inv_elems(v):
                row = v.state.env[self.row_var]
                ri = v.state.obj(row).tag
                return {"outer": And(0 <= ri, ri < n, rows_done(ri)),
                        "elems_before_legal": ForAll([col], Implies(And(0 <= col, col < v.i), self.legal(c, CELL(ri, col))))}
            loops[0] = LoopSpec(inv=inv_rows)
            loops[1] = LoopSpec(inv=inv_elems)
            if self.layout == "nested_then_flat":
                # the flat branch is taken for a nested value only when it is empty
                loops[3 if self.inner_chars else 2] = LoopSpec(inv=lambda v: {"flat_branch_only_when_empty": n == 0})
            if self.inner_chars:
                loops[2] = LoopSpec(inv=self._char_inv(c, nested=True))
        if sh == "flat":
            n, get = c.v["n"], c.v["get"]
            k = z3.Int("ik")
            base = 2 if self.layout == "nested_then_flat" else 0
            if self.inner_chars:
                base = 3
            loops[base] = LoopSpec(inv=lambda v: {"elems_before_legal": ForAll([k], Implies(And(0 <= k, k < v.i), self.legal(c, get(k))))})
            if self.inner_chars:
                loops[base + 1] = LoopSpec(inv=self._char_inv(c, nested=False))
        self.loops = loops

    row_var = "row"

    def _char_inv(self, c, nested):
        """innermost loop over the characters of one element (validate_text_format): characters before position i are legal codes"""
        from pyvc.values import str_len
        from pyvc.libmodels.strings import cp_at

        def inv(v):
            el = v.state.env["format"]
            q = z3.Int("iq")
            return {"chars_before_legal": ForAll([q], Implies(And(0 <= q, q < v.i), self.legal_char(c, cp_at(to_z3(norm_str(el)), q))))}
        return inv

    def ensures(self, c, out):
        same = out.value is c.st.env.get("v") or out.value == c.ctx.params.get("v") if not z3.is_expr(out.value) else out.value.eq(c.ctx.params.get("v"))
        return {"returns_input": z3.BoolVal(bool(same)), "returned_only_if_all_legal": self.all_legal(c)}

    def __init_subclass__(cls, **kw):
        super().__init_subclass__(**kw)

        def _raises(c, out, self=None):
            return {}
        # exceptional postcondition: a ValueError (or subclass) is raised only if some element is illegal
        cls.raises = {"ValueError": lambda c, out, _cls=cls: {"raised_only_if_some_illegal": Not(_cls._instance.all_legal(c))}}


def make(name, target, cls_name, elem, legal_fn, shapes=("none", "flat", "nested"), layout="nested_then_flat", row_var="row",
         inner_chars=False, cls_mod="rtflite.attributes", nonempty=False):
    ns = dict(nonempty=nonempty, target=target, cls_name=cls_name, elem=elem, shapes=shapes, layout=layout, row_var=row_var, inner_chars=inner_chars,
              cls_mod=cls_mod, serves=["C19"])
    ns["legal"] = lambda self, c, x: legal_fn(c, x)
    K = type(name, (ValidatorContract,), ns)
    inst = K()
    K._instance = inst
    return inst


def make_text_format(row):
    """validate_text_format: every CHARACTER of every element is a key of FORMAT_CODES ('' is the empty format: no characters)."""
    from pyvc.libmodels.strings import cp_at
    keys = [k for k in row.FORMAT_CODES if len(k) == 1]

    def legal_char(c, cp):
        return Or(*[cp == ord(k) for k in keys])

    def legal(c, x):
        q = z3.Int("lq")
        return ForAll([q], Implies(And(0 <= q, q < str_len(x)), legal_char(c, cp_at(x, q))))
    inst = make("ValidateTextFormat", "attributes.py::TextAttributes.validate_text_format", "TextAttributes", "str", legal, inner_chars=True)
    type(inst).legal_char = lambda self, c, cp: legal_char(c, cp)
    return inst


def _in(values):
    return lambda c, x: Or(*[x == (lit(v) if isinstance(v, str) else v) for v in values])


def _tables(index):
    row = index.real_module("rtflite.row")
    return row


def build_units(index):
    row = index.real_module("rtflite.row")
    fonts = list(row.Utils._font_type()["type"])
    A = "attributes.py::"
    I_ = "input.py::"
    color_legal = lambda c, x: Or(x == lit(""), VALID_COLOR(x))
    units = [
        make("ValidateTextFont", A + "TextAttributes.validate_text_font", "TextAttributes", "int", _in(fonts)),
        make("ValidateTextFontSize", A + "TextAttributes.validate_text_font_size", "TextAttributes", "real", lambda c, x: x > 0),
        make_text_format(row),
        make("ValidateTextColor", A + "TextAttributes.validate_text_color", "TextAttributes", "str", color_legal),
        make("ValidateTextBackgroundColor", A + "TextAttributes.validate_text_background_color", "TextAttributes", "str", color_legal),
        make("ValidateTextJustification", A + "TextAttributes.validate_text_justification", "TextAttributes", "str",
             _in(list(row.TEXT_JUSTIFICATION_CODES))),
        make("ValidateBorderColors", A + "TableAttributes.validate_border_colors", "TableAttributes", "str", color_legal,
             shapes=("none", "nested"), layout="nested_only"),
        make("ValidateCellVerticalJustification", A + "TableAttributes.validate_cell_vertical_justification", "TableAttributes", "str",
             _in(list(row.VERTICAL_ALIGNMENT_CODES)), shapes=("none", "nested"), layout="nested_only"),
        make("ValidateCellJustification", A + "TableAttributes.validate_cell_justification", "TableAttributes", "str",
             _in(list(row.TEXT_JUSTIFICATION_CODES)), shapes=("none", "nested"), layout="nested_only"),
        make("ValidateBorder", A + "TableAttributes.validate_border", "TableAttributes", "str",
             _in(list(row.BORDER_CODES)), shapes=("none", "nested"), layout="nested_only"),
        make("ValidatePositiveValue", A + "TableAttributes.validate_positive_value", "TableAttributes", "real", lambda c, x: x > 0,
             shapes=("none", "flat", "nested"), layout="none", nonempty=True),
        make("PageValidateOrientation", I_ + "RTFPage.validate_orientation", "RTFPage", "str", _in(["portrait", "landscape"]),
             shapes=("scalar",), cls_mod="rtflite.input"),
        make("PageValidateBorder", I_ + "RTFPage.validate_border", "RTFPage", "str", _in(list(row.BORDER_CODES)),
             shapes=("scalar",), cls_mod="rtflite.input"),
        make("PageValidatePlacement", I_ + "RTFPage.validate_page_placement", "RTFPage", "str", _in(["first", "last", "all"]),
             shapes=("scalar",), cls_mod="rtflite.input"),
        make("PageValidateWidthHeight", I_ + "RTFPage.validate_width_height", "RTFPage", "real", lambda c, x: x > 0,
             shapes=("scalar", "none"), cls_mod="rtflite.input"),
        make("BodyValidatePagebyRow", I_ + "RTFBody.validate_pageby_row", "RTFBody", "str", _in(["column", "first_row"]),
             shapes=("scalar",), cls_mod="rtflite.input"),
        make("FigureValidateAlignment", I_ + "RTFFigure.validate_alignment", "RTFFigure", "str", _in(["left", "center", "right"]),
             shapes=("scalar",), cls_mod="rtflite.input"),
        make("FigureValidatePosition", I_ + "RTFFigure.validate_position", "RTFFigure", "str", _in(["before", "after"]),
             shapes=("scalar",), cls_mod="rtflite.input"),
    ]
    return units


UNITS = []
