"""Bounded native search for a failing input on the REAL code, used after a deductive obligation was refuted (replay) or when a
changed carrier left the verifiable subset (fallback).  A small deterministic family of documents is encoded with the tree under
`--repo`, the RTF is read back structurally (contracts/readback.py) and the clause family named by the refuted obligation is
evaluated on it.  Nothing here is counted as proof; a hit only turns `no-failing-input-found` into a concrete replayable input."""
from __future__ import annotations

import itertools
import re
import random

from contracts.readback import parse

DIV = "-----"


def _frames(pl):
    """(name, frame, group columns available)"""
    out = []
    g1 = ["A", "A", "A", "B", "B", "C", "C", "C", "C"]
    h1 = ["x", "x", "y", "x", "x", "x", "y", "y", "z"]
    k1 = ["q", "q", "q", "q", "q", "q", "q", "r", "r"]
    n = len(g1)
    out.append(("t9", pl.DataFrame({"g": g1, "h": h1, "k": k1, "c0": [f"r{i}a" for i in range(n)], "c1": [i * 10 for i in range(n)],
                                    "c2": [f"v{i}" for i in range(n)]})))
    out.append(("t5", pl.DataFrame({"c0": [f"r{i}a" for i in range(5)], "g": ["A", "A", "B", "B", "B"], "c1": [None, 1.5, 2.5, None, 4.5]})))
    out.append(("t12", pl.DataFrame({"g": ["A"] * 5 + [DIV] * 2 + ["B"] * 5, "c0": [f"r{i}" for i in range(12)], "c1": list(range(12))})))
    # grouping column LAST, a leading column whose text wraps over several lines (row heights depend on measuring the right cells at the right widths)
    long = "wrapping text that needs several lines in a narrow column, row "
    out.append(("t8w", pl.DataFrame({"c0": [long + str(i) for i in range(8)], "c1": [f"v{i}" for i in range(8)], "g": ["A"] * 3 + ["B"] * 5})))
    return out


def configs(rtf, pl, seed=0, limit=None):
    """Yield (description dict, builder) pairs; builder() -> RTFDocument."""
    rnd = random.Random(seed)
    frames = _frames(pl)
    strategies = [("plain", {}), ("page_by1", {"page_by": ["g"], "new_page": False}), ("page_by1_np", {"page_by": ["g"], "new_page": True}),
                  ("page_by1_np_first", {"page_by": ["g"], "new_page": True, "pageby_row": "first_row"}),
                  ("page_by2", {"page_by": ["g", "h"], "new_page": False}), ("page_by3", {"page_by": ["g", "h", "k"], "new_page": False}),
                  ("subline1", {"subline_by": ["g"]}), ("subline1_pb1", {"subline_by": ["g"], "page_by": ["h"], "new_page": False}),
                  ("group_by1", {"group_by": ["g"]})]
    nrows = [40, 12, 7, 5, 4, 2, 1]
    looks = ["default", "matrix", "percol", "widths", "notes_table", "notes_par", "noheader", "hdr_explicit", "no_repeat_header", "border_widths", "place_first", "place_all", "borders", "pattern"]
    combos = list(itertools.product(range(len(frames)), strategies, nrows, looks))
    rnd.shuffle(combos)
    combos.sort(key=lambda c: (c[3] != "default", 0))       # plain looks first (stable sort keeps the shuffle inside each class)
    count = 0
    for fi, (sname, skw), nrow, look in combos:
        fname, df = frames[fi]
        need = set(skw.get("page_by", []) + skw.get("subline_by", []) + skw.get("group_by", []))
        if not need <= set(df.columns):
            continue
        if fname == "t12" and sname not in ("plain", "page_by1", "page_by1_np", "group_by1"):
            continue
        desc = {"frame": fname, "strategy": sname, "nrow": nrow, "look": look}

        def build(df=df, skw=skw, nrow=nrow, look=look):
            nr, nc = df.shape
            bkw = dict(skw)
            kw = {}
            pkw = {}
            if look == "matrix":
                bkw["text_format"] = [["b" if (i + j) % 3 == 0 else ("i" if (i + j) % 3 == 1 else "") for j in range(nc)] for i in range(nr)]
                bkw["text_font_size"] = [[8 + (i % 3) for j in range(nc)] for i in range(nr)]
                bkw["text_justification"] = [[["l", "c", "r"][(i + j) % 3] for j in range(nc)] for i in range(nr)]
                bkw["cell_height"] = [[0.15 + 0.05 * (i % 3)] * nc for i in range(nr)]                       # row-level: one value per row
                bkw["cell_justification"] = [[["l", "c", "r"][i % 3]] * nc for i in range(nr)]
                bkw["cell_vertical_justification"] = [[["top", "center", "bottom"][(i + j) % 3] for j in range(nc)] for i in range(nr)]
            elif look == "percol":
                bkw["text_justification"] = [["l", "c", "r"][j % 3] for j in range(nc)]
                bkw["text_format"] = [["b", "", "i"][j % 3] for j in range(nc)]
                bkw["border_left"] = [["single", "double", ""][j % 3] for j in range(nc)]
                bkw["border_width"] = 30
            elif look == "widths":
                bkw["col_rel_width"] = [1 + (j % 3) for j in range(nc)]
            if look == "pattern":
                # short recycled patterns whose length does not divide the table shape (rows and columns)
                bkw["border_bottom"] = [["single"], [""]]
                bkw["border_top"] = [["single", ""]]
                bkw["text_justification"] = ["l", "c"]
                bkw["text_format"] = [["b"], [""], ["i"]]            # a row pattern shorter than the table, recycled over the rows (and over the pages)
            if look in ("notes_table", "notes_par"):
                kw["rtf_footnote"] = rtf.RTFFootnote(text="fn text", as_table=(look == "notes_table"))
                kw["rtf_source"] = rtf.RTFSource(text="src text", as_table=(look == "notes_table"))
                kw["rtf_title"] = rtf.RTFTitle(text="Title")
            if look == "border_widths":
                bkw["border_width"] = [10 + 5 * (j % 4) for j in range(nc)]
                bkw["col_rel_width"] = [1 + (j % 3) for j in range(nc)]
            if look in ("place_first", "place_all"):
                opt = "first" if look == "place_first" else "all"
                kw["rtf_title"] = rtf.RTFTitle(text="Title")
                kw["rtf_footnote"] = rtf.RTFFootnote(text="fn text")
                kw["rtf_source"] = rtf.RTFSource(text="src text", as_table=(look == "place_all"))
                pkw.update(page_title=opt, page_footnote=opt, page_source=opt)
            if look == "borders":
                pkw.update(border_first="triple", border_last="dashed")
                bkw["border_first"] = "dotted"
                bkw["border_last"] = "thick"
                kw["rtf_footnote"] = rtf.RTFFootnote(text="fn text", as_table=False)
            if look == "no_repeat_header":
                bkw["pageby_header"] = False
            if look == "noheader":
                bkw["as_colheader"] = False
            if look == "hdr_explicit":
                shown = [c for c in df.columns if c not in set(skw.get("page_by", []) if (not skw.get("new_page") or skw.get("pageby_row") == "first_row") else []) | set(skw.get("subline_by", []))]
                kw["rtf_column_header"] = [rtf.RTFColumnHeader(text=[c.upper() for c in shown])]
            return rtf.RTFDocument(df=df, rtf_page=rtf.RTFPage(nrow=nrow, **pkw), rtf_body=rtf.RTFBody(**bkw), **kw)
        yield desc, build
        count += 1
        if limit and count >= limit:
            return


# ---- read-back helpers ------------------------------------------------------------------------------------------------------------
def displayed_columns(doc):
    body = doc.rtf_body
    removed = set(body.subline_by or [])
    if body.page_by:
        if not body.new_page or getattr(body, "pageby_row", "column") != "column":
            removed |= set(body.page_by)
    return [c for c in doc.df.columns if c not in removed]


def classify_rows(doc, parsed):
    """Per page: list of (kind, row) with kind in header / heading / data / note, using cell counts and texts."""
    shown = displayed_columns(doc)
    ncol = len(shown)
    out = []
    for p in parsed.pages:
        rows = []
        for r in p.rows:
            texts = [c.text for c in r.cells]
            if len(r.cells) == 1 and ncol != 1:
                kind = "note" if texts[0] in ("fn text", "src text") else "heading"
            elif len(r.cells) == 1:
                kind = "note" if texts[0] in ("fn text", "src text") else "data1"
            else:
                kind = "data"
            rows.append([kind, r])
        out.append(rows)
    return out


def cell_display(v):
    return "" if v is None else str(v)


# ---- clause families --------------------------------------------------------------------------------------------------------------
def check_wellformed(doc, rtf_text, parsed):
    return list(parsed.problems)


def check_edges(doc, rtf_text, parsed):
    """C08: every table row ends at round(col_width * 1440)."""
    want = round(doc.rtf_page.col_width * 1440)
    bad = []
    for pi, p in enumerate(parsed.pages):
        for ri, r in enumerate(p.rows):
            if r.cells and abs(r.cells[-1].cellx - want) > 1:
                bad.append(f"page {pi + 1} row {ri}: right edge {r.cells[-1].cellx} != table width {want} (cells {[c.text for c in r.cells]})")
    return bad


def check_spanning_edges(doc, rtf_text, parsed):
    want = round(doc.rtf_page.col_width * 1440)
    shown = displayed_columns(doc)
    bad = []
    if len(shown) < 2:
        return bad
    for pi, p in enumerate(parsed.pages):
        for ri, r in enumerate(p.rows):
            if len(r.cells) == 1 and abs(r.cells[0].cellx - want) > 1:
                bad.append(f"page {pi + 1} row {ri}: spanning row {r.cells[0].text!r} ends at {r.cells[0].cellx}, table width {want}")
    return bad


def data_rows_in_order(doc, parsed):
    """The data rows read back, as tuples of cell texts, in document order (rows with as many cells as displayed columns whose
    texts equal some frame row's display texts are data rows; header rows are recognised by their text)."""
    shown = displayed_columns(doc)
    hdr = tuple(shown)
    hdr_up = tuple(c.upper() for c in shown)
    got = []
    for pi, p in enumerate(parsed.pages):
        for r in p.rows:
            t = tuple(c.text for c in r.cells)
            if len(t) != len(shown) or t in (hdr, hdr_up):
                continue
            if len(shown) == 1 and t[0] in ("fn text", "src text"):
                continue
            got.append((pi, t))
    return got


def check_cells(doc, rtf_text, parsed):
    """C02: the data rows, concatenated over pages, are exactly the frame's rows in order (displayed columns, '' for null)."""
    shown = displayed_columns(doc)
    body = doc.rtf_body
    if body.group_by:
        return []          # group_by blanks repeated values by design (C13); not judged here
    want = [tuple(cell_display(v) for v in row) for row in doc.df.select(shown).iter_rows()]
    if len(shown) == 1 and (body.page_by):
        return []          # one-cell data rows are indistinguishable from headings in the read-back
    got = [t for _, t in data_rows_in_order(doc, parsed)]
    if got != want:
        return [f"data rows read back {got} != frame rows {want}"]
    return []


def check_row_offset(doc, rtf_text, parsed):
    """C09: formatting of every data cell equals the attribute at its ORIGINAL (row, column)."""
    shown = displayed_columns(doc)
    body = doc.rtf_body
    if body.group_by or (len(shown) == 1 and body.page_by):
        return []
    cols = list(doc.df.columns)
    orig = [cols.index(c) for c in shown]
    nr = doc.df.height
    rows = data_rows_in_order(doc, parsed)
    if len(rows) != nr:
        return []

    def at(attr, i, j):
        v = getattr(body, attr)
        if v is None or isinstance(v, (str, int, float, bool)):
            return v
        if v and isinstance(v[0], (list, tuple)):
            row = v[i % len(v)]
            return row[j % len(row)]
        return v[j % len(v)]
    bad = []
    k = 0
    for pi, p in enumerate(parsed.pages):
        for r in p.rows:
            t = tuple(c.text for c in r.cells)
            if k < nr and (pi, t) == rows[k]:
                ch = at("cell_height", k, orig[0])
                gm = re.search(r"\\trgaph(-?\d+)", r.raw)
                if ch is not None and gm and int(gm.group(1)) != int(round(ch * 1440) / 2):
                    bad.append(f"row {k}: \\trgaph{gm.group(1)}, cell_height at this row says {ch} in")
                cj = at("cell_justification", k, orig[0])
                if cj and r.trq is not None and r.trq != cj:
                    bad.append(f"row {k}: \\trq{r.trq}, cell_justification at this row says {cj}")
                for jj, c in enumerate(r.cells):
                    j = orig[jj]
                    va = at("cell_vertical_justification", k, j)
                    if va in ("top", "center", "bottom") and c.valign is not None and c.valign != va[0]:
                        bad.append(f"cell (row {k}, col {cols[j]}): \\clvertal{c.valign}, attribute says {va}")
                    fmt = at("text_format", k, j) or ""
                    want_fmt = "".join(ch for ch in "biu s^_".replace(" ", "") if ch in fmt)
                    got_fmt = "".join(ch for ch in "bius^_" if ch in c.fmt)
                    if set(want_fmt) != set(got_fmt):
                        bad.append(f"cell (row {k}, col {cols[j]}): format {c.fmt!r}, attribute says {fmt!r}")
                    fs = at("text_font_size", k, j)
                    if fs is not None and c.fs is not None and abs(c.fs - round(fs * 2)) > 0:
                        bad.append(f"cell (row {k}, col {cols[j]}): \\fs{c.fs}, attribute says size {fs}")
                    ju = at("text_justification", k, j)
                    if ju is not None and c.just is not None and c.just != ju:
                        bad.append(f"cell (row {k}, col {cols[j]}): \\q{c.just}, attribute says {ju}")
                k += 1
    return bad[:6]


def check_headings(doc, rtf_text, parsed):
    """C05 (page_by shown as rows): before each data row the most recent heading stack equals the row's active group values."""
    body = doc.rtf_body
    if not body.page_by or (body.new_page and getattr(body, "pageby_row", "column") == "column"):
        return []
    shown = displayed_columns(doc)
    if len(shown) < 2:
        return []
    keys = [tuple(cell_display(v) for v in row) for row in doc.df.select(body.page_by).iter_rows()]
    rows = data_rows_in_order(doc, parsed)
    if len(rows) != doc.df.height:
        return []
    bad = []
    k = 0
    for pi, p in enumerate(parsed.pages):
        stack = []
        last_kind = None
        for r in p.rows:
            t = tuple(c.text for c in r.cells)
            if k < len(rows) and (pi, t) == rows[k]:
                want = [v for v in keys[k] if v != DIV and v != ""]
                # the displayed heading state: last heading shown for each level, outer to inner
                if stack[-len(want):] != want if want else False:
                    bad.append(f"page {pi + 1}: data row {k} {t} sits under headings {stack}, its group is {want}")
                k += 1
                last_kind = "data"
            elif len(r.cells) == 1 and r.cells[0].text not in ("fn text", "src text"):
                txt = r.cells[0].text
                # a re-rendered outer level resets the inner ones
                lvl = None
                if k < len(keys):
                    for l, v in enumerate(keys[k]):
                        if v == txt:
                            lvl = l
                            break
                if lvl is not None:
                    act = [v for v in keys[k][:lvl] if v != DIV and v != ""]
                    stack = act + [txt]
                else:
                    stack = stack + [txt]
                last_kind = "heading"
        if last_kind == "heading":
            bad.append(f"page {pi + 1} ends on a heading {stack}")
    return bad[:6]


def check_rows_per_page(doc, rtf_text, parsed):
    """C03 (lower bound): no page has more table rows + heading paragraphs than nrow (each counted as one line)."""
    nrow = doc.rtf_page.nrow
    bad = []
    # known finding (known_findings.json, C03): the auto-populated default column header row is rendered but not reserved; that one row is
    # not what this family looks for
    hdrs = doc.rtf_column_header or []
    flat = [h for h in hdrs if h is not None and not isinstance(h, list)]
    auto = bool(getattr(doc.rtf_body, "as_colheader", False)) and any(getattr(h, "text", None) is None for h in flat)
    slack = 1 if auto else 0
    per_page = {}
    if not isinstance(doc.rtf_body, list):
        for pi, _t in data_rows_in_order(doc, parsed):
            per_page[pi] = per_page.get(pi, 0) + 1
    import math
    try:
        from rtflite.strwidth import get_string_width as _gsw
    except Exception:
        _gsw = None

    def lines_of(row):
        """Lines the row needs by the property's own oracle: max over its cells of ceil(W(text) / cell width), W at the cell's font size."""
        if _gsw is None:
            return 1
        need, left = 1, 0
        for c in row.cells:
            width_in = (c.cellx - left) / 1440.0
            left = c.cellx
            if not c.text or width_in <= 0:
                continue
            try:
                w = _gsw(c.text.split("\n")[0], font=(c.f or 0) + 1, font_size=(c.fs or 18) / 2, unit="in")
            except Exception:
                continue
            need = max(need, int(math.ceil(w / width_in)))
        return need
    for pi, p in enumerate(parsed.pages):
        n = len(p.rows)
        if per_page.get(pi, 0) <= 1:
            continue                      # a page always takes one data row, whatever the budget (the property speaks of pages that could have broken earlier)
        used = sum(lines_of(r) for r in p.rows)
        if used > nrow + slack and n <= nrow + slack:
            bad.append(f"page {pi + 1} needs {used} lines ({n} table rows, some wrapping), nrow = {nrow}")
        if n > nrow + slack and n > 1:
            bad.append(f"page {pi + 1} has {n} table rows, nrow = {nrow}" + (" (+1 unreserved default header row, known finding)" if slack else ""))
    return bad


def check_header_repeat(doc, rtf_text, parsed):
    """C06: the column header row appears on the first page, and on later pages exactly when pageby_header is true."""
    shown = displayed_columns(doc)
    body = doc.rtf_body
    if not body.as_colheader or len(shown) < 2:
        return []
    hdr = tuple(shown)
    bad = []
    for pi, p in enumerate(parsed.pages):
        n = sum(1 for r in p.rows if tuple(c.text for c in r.cells) in (hdr, tuple(x.upper() for x in hdr)))
        want = 1 if (pi == 0 or body.pageby_header) else 0
        if n != want:
            bad.append(f"page {pi + 1}: {n} column header row(s), expected {want} (pageby_header={body.pageby_header})")
    return bad[:4]


FAMILIES = {"header_repeat": check_header_repeat, "wellformed": check_wellformed, "edges": check_edges, "spanning_edges": check_spanning_edges, "cells": check_cells,
            "row_offset": check_row_offset, "headings": check_headings, "rows_per_page": check_rows_per_page}


def search(index, family, seed=0, limit=400, saved=None):
    """Encode the document family on the tree of `index` and return the first document violating `family`."""
    import polars as pl
    rtf = index.real_module("rtflite")
    fn = FAMILIES[family]
    tried = 0
    for desc, build in configs(rtf, pl, seed=seed, limit=limit):
        if saved is not None and desc != saved:
            continue
        tried += 1
        try:
            doc = build()
        except Exception:
            continue                       # configuration rejected at construction: outside the property's domain
        try:
            text = doc.rtf_encode()
        except ValueError:
            continue
        except Exception as e:
            if family == "wellformed":
                return {"found": True, "input": desc, "observed": f"rtf_encode raised {type(e).__name__}: {e}", "family": family, "tried": tried}
            continue
        bad = fn(doc, text, parse(text))
        if bad:
            return {"found": True, "input": desc, "observed": bad[:4], "family": family, "tried": tried}
    return {"found": False, "family": family, "tried": tried}


def replayer(family, limit=2000):
    def fn(index, ob, seed, saved=None):
        if isinstance(saved, dict) and "input" in saved:          # `--replay <file>`: re-run exactly the recorded document
            saved = saved["input"] if saved.get("found") else None
        return search(index, family, seed=seed or 0, limit=limit, saved=saved)
    fn.__name__ = f"replay_docs_{family}"
    return fn


def replayer_any(families, limit=2000):
    """Try several clause families in turn (first hit wins)."""
    def fn(index, ob, seed, saved=None):
        if isinstance(saved, dict) and saved.get("family") in families:
            return replayer(saved["family"], limit)(index, ob, seed, saved)
        last = None
        for fam in families:
            last = replayer(fam, limit)(index, ob, seed, None)
            if last.get("found"):
                return last
        return last
    fn.__name__ = "replay_docs_" + "_".join(families)
    return fn


# ---- further clause families ------------------------------------------------------------------------------------------------------
def _border_word(index_module_row, style):
    return dict(index_module_row.BORDER_CODES).get(style, "")


def make_check_borders(row_module):
    def check(doc, rtf_text, parsed):
        body, page = doc.rtf_body, doc.rtf_page
        if isinstance(body, list):
            return []
        word = lambda st: row_module.BORDER_CODES.get(st, "").lstrip("\\")

        def flat(v):
            while isinstance(v, (list, tuple)) and v:
                v = v[0]
            return v if isinstance(v, str) else None
        bl_body, bf_body = flat(body.border_last), flat(body.border_first)
        pages = [p for p in parsed.pages if p.rows]
        if not pages:
            return []
        bad = []
        first_row = pages[0].rows[0]
        shown = displayed_columns(doc)
        if len(first_row.cells) == 1 and len(shown) > 1:
            return []          # the document starts with a page_by heading row: outside what the C07 units state (see DESIGN 0a.4)
        if page.border_first and any((c.borders["t"] or ("", 0, 0))[0] != word(page.border_first) for c in first_row.cells):
            bad.append(f"first table row top edges {[c.borders['t'] for c in first_row.cells]} != page.border_first {page.border_first!r}")
        last_row = pages[-1].rows[-1]
        if page.border_last and any((c.borders["b"] or ("", 0, 0))[0] != word(page.border_last) for c in last_row.cells):
            bad.append(f"last table row bottom edges {[c.borders['b'] for c in last_row.cells]} != page.border_last {page.border_last!r}")
        for pi, p in enumerate(pages[:-1]):
            r = p.rows[-1]
            if bl_body and any((c.borders["b"] or ("", 0, 0))[0] != word(bl_body) for c in r.cells):
                bad.append(f"page {pi + 1}: last row before the break has bottom edges {[c.borders['b'] for c in r.cells]}, body.border_last is {bl_body!r}")
        # "all other data-cell edges carry exactly the user's border_top / border_bottom": interior data rows of each page against the user's
        # (recycled) pattern at the ORIGINAL row and column
        if not body.group_by and not body.page_by and not body.subline_by:
            rows = data_rows_in_order(doc, parsed)
            if len(rows) == doc.df.height:
                def pat(attr, i, j):
                    v = getattr(body, attr)
                    if not v or not isinstance(v, (list, tuple)):
                        return None
                    if isinstance(v[0], (list, tuple)):
                        row = v[i % len(v)]
                        return row[j % len(row)]
                    return v[j % len(v)]
                k = 0
                for pi, p in enumerate(parsed.pages):
                    on_page = [r for r in p.rows if k < len(rows)]
                    drows = []
                    for r in p.rows:
                        t = tuple(c.text for c in r.cells)
                        if k < len(rows) and (pi, t) == rows[k]:
                            drows.append((k, r))
                            k += 1
                    for idx, (kk, r) in enumerate(drows):
                        for j, c in enumerate(r.cells):
                            if idx > 0:
                                want = pat("border_top", kk, j)
                                if want is not None and (c.borders["t"] or ("", 0, 0))[0] != word(want):
                                    bad.append(f"data row {kk}, column {j}: top edge {c.borders['t']}, the user's border_top there is {want!r}")
                            if idx < len(drows) - 1:
                                want = pat("border_bottom", kk, j)
                                if want is not None and (c.borders["b"] or ("", 0, 0))[0] != word(want):
                                    bad.append(f"data row {kk}, column {j}: bottom edge {c.borders['b']}, the user's border_bottom there is {want!r}")
        return bad[:4]
    return check


def check_placement(doc, rtf_text, parsed):
    """C06: title / footnote / source appear on exactly the pages their placement option selects (table documents of the family use the
    marker texts 'Title', 'fn text', 'src text')."""
    page = doc.rtf_page
    n = len(parsed.pages)
    bad = []

    def on(p, text):
        return any(it.kind == "par" and text in it.text for it in p.items) or any(text in (c.text or "") for r in p.rows for c in r.cells)
    for comp, opt, text in ((doc.rtf_title, page.page_title, "Title"), (doc.rtf_footnote, page.page_footnote, "fn text"), (doc.rtf_source, page.page_source, "src text")):
        if comp is None or not comp.text:
            continue
        for pi, p in enumerate(parsed.pages):
            want = opt == "all" or (opt == "first" and pi == 0) or (opt == "last" and pi == n - 1)
            if on(p, text) != want:
                bad.append(f"page {pi + 1} of {n}: {text!r} {'present' if on(p, text) else 'absent'}, placement option is {opt!r}")
    return bad[:4]


def check_proportional(doc, rtf_text, parsed):
    """C08: data-row boundaries divide the table width in proportion to col_rel_width of the DISPLAYED columns (within one twip)."""
    body = doc.rtf_body
    if isinstance(body, list) or body.col_rel_width is None:
        return []
    shown = displayed_columns(doc)
    cols = list(doc.df.columns)
    rel = list(body.col_rel_width)
    if len(rel) != len(cols):
        return []
    w = [rel[cols.index(c)] for c in shown]
    total = sum(w)
    want, acc = [], 0.0
    for x in w:
        acc += x
        want.append(round(doc.rtf_page.col_width * acc / total * 1440))
    rows = data_rows_in_order(doc, parsed)
    bad = []
    k = 0
    for pi, p in enumerate(parsed.pages):
        for r in p.rows:
            t = tuple(c.text for c in r.cells)
            if k < len(rows) and (pi, t) == rows[k]:
                got = [c.cellx for c in r.cells]
                if len(got) == len(want) and any(abs(a - b) > 1 for a, b in zip(got, want)):
                    bad.append(f"data row {k}: boundaries {got}, proportional boundaries of the displayed columns are {want}")
                k += 1
    return bad[:3]


def check_border_widths(doc, rtf_text, parsed):
    """C09: every data cell's border width is the attribute's value at its original column."""
    body = doc.rtf_body
    if isinstance(body, list) or body.group_by:
        return []
    shown = displayed_columns(doc)
    cols = list(doc.df.columns)
    bw = body.border_width
    if bw is None:
        return []

    def at(i, j):
        v = bw
        if isinstance(v, (int, float)):
            return v
        if v and isinstance(v[0], (list, tuple)):
            row = v[i % len(v)]
            return row[j % len(row)]
        return v[j % len(v)]
    rows = data_rows_in_order(doc, parsed)
    if len(rows) != doc.df.height:
        return []
    bad, k = [], 0
    for pi, p in enumerate(parsed.pages):
        for r in p.rows:
            t = tuple(c.text for c in r.cells)
            if k < len(rows) and (pi, t) == rows[k]:
                for jj, c in enumerate(r.cells):
                    want = at(k, cols.index(shown[jj]))
                    for side in ("l", "t", "b"):
                        b = c.borders.get(side)
                        if b is not None and b[1] is not None and b[1] != want:
                            bad.append(f"cell (row {k}, col {shown[jj]}) {side} border width {b[1]}, attribute says {want}")
                k += 1
    return bad[:4]


FAMILIES.update({"placement": check_placement, "proportional": check_proportional, "border_widths": check_border_widths})
_search_plain = search


def search(index, family, seed=0, limit=400, saved=None):
    if family == "borders" and "borders" not in FAMILIES:
        FAMILIES["borders"] = make_check_borders(index.real_module("rtflite.row"))
    return _search_plain(index, family, seed=seed, limit=limit, saved=saved)


def check_heading_count(doc, rtf_text, parsed):
    """C03 / C05 (page_by shown as rows): the heading rows read back before data row k are exactly the ones the row budget counts - at a page
    top the non-divider values of every level, at a group start inside a page the non-divider values of the first changed level and of the
    levels below it - no more (an extra heading is a row nobody reserved), no fewer."""
    body = doc.rtf_body
    if not body.page_by or (body.new_page and getattr(body, "pageby_row", "column") == "column") or body.subline_by:
        return []
    shown = displayed_columns(doc)
    if len(shown) < 2:
        return []
    keys = [tuple(cell_display(v) for v in row) for row in doc.df.select(body.page_by).iter_rows()]
    rows = data_rows_in_order(doc, parsed)
    if len(rows) != doc.df.height:
        return []
    bad = []
    k = 0
    for pi, p in enumerate(parsed.pages):
        pending = []
        first_on_page = True
        for r in p.rows:
            t = tuple(c.text for c in r.cells)
            if k < len(rows) and (pi, t) == rows[k]:
                if first_on_page:
                    want = [v for v in keys[k] if v != DIV and v != ""]
                elif k > 0 and keys[k] != keys[k - 1]:
                    first_changed = min(l for l in range(len(keys[k])) if keys[k][l] != keys[k - 1][l])
                    want = [v for v in keys[k][first_changed:] if v != DIV and v != ""]
                else:
                    want = []
                if pending != want:
                    bad.append(f"page {pi + 1}: data row {k} {t} is preceded by heading rows {pending}, the row budget counts {want}")
                pending = []
                first_on_page = False
                k += 1
            elif len(r.cells) == 1 and r.cells[0].text not in ("fn text", "src text"):
                pending.append(r.cells[0].text)
    return bad[:6]


FAMILIES["heading_count"] = check_heading_count


def check_no_needless_break(doc, rtf_text, parsed):
    """C04 (breaks only when required), the part a read-back can judge without re-deriving the budget: a table whose every row, heading row
    and repeated component fits the nrow budget several times over, without new_page and without subline_by, sits on one page."""
    body = doc.rtf_body
    if isinstance(body, list) or body.subline_by or (body.page_by and body.new_page):
        return []
    n_levels = len(body.page_by or [])
    worst = doc.df.height * (1 + n_levels) + 6
    if doc.rtf_page.nrow < worst:
        return []
    pages = [p for p in parsed.pages if p.rows]
    if len(pages) > 1:
        return [f"{len(pages)} pages although all {doc.df.height} rows with their headings fit nrow = {doc.rtf_page.nrow} (rows per page {[len(p.rows) for p in pages]})"]
    return []


FAMILIES["no_needless_break"] = check_no_needless_break


# ---- multi-section documents (df = [..], rtf_body = [..]) ---------------------------------------------------------------------------
def multi_configs(rtf, pl, seed=0, limit=None):
    """Yield (description, builder) for multi-section documents: 2-3 sections with different columns, small / large nrow, footnote and
    source as table / paragraph / absent, the four page / body border settings set to distinct styles, with and without header lists."""
    rnd = random.Random(seed)
    combos = list(itertools.product([2, 3], [40, 6, 3], ["none", "fn_table", "src_table", "fn_par", "both_table", "title_first", "title_all", "title_last"], ["nested", "none_lists"]))
    rnd.shuffle(combos)
    count = 0
    for nsec, nrow, notes, headers in combos:
        desc = {"multi_section": nsec, "nrow": nrow, "notes": notes, "headers": headers}

        def build(nsec=nsec, nrow=nrow, notes=notes, headers=headers):
            dfs = [pl.DataFrame({f"s{k}c{j}": [f"s{k}r{i}c{j}" for i in range(2 + k)] for j in range(2 + (k % 2))}) for k in range(nsec)]
            bodies = [rtf.RTFBody(border_first="dotted", border_last="thick") for _ in range(nsec)]
            kw = {}
            if notes in ("fn_table", "both_table"):
                kw["rtf_footnote"] = rtf.RTFFootnote(text="fn text", as_table=True)
            if notes == "fn_par":
                kw["rtf_footnote"] = rtf.RTFFootnote(text="fn text", as_table=False)
            if notes in ("src_table", "both_table"):
                kw["rtf_source"] = rtf.RTFSource(text="src text", as_table=True)
            pkw = {}
            if notes.startswith("title_"):
                kw["rtf_title"] = rtf.RTFTitle(text="DOCTITLE")
                pkw["page_title"] = notes.split("_")[1]
            if headers == "nested":
                kw["rtf_column_header"] = [[rtf.RTFColumnHeader(text=[c.upper() for c in d.columns])] for d in dfs]
            else:
                kw["rtf_column_header"] = [[None] for _ in dfs]
            return rtf.RTFDocument(df=dfs, rtf_body=bodies, rtf_page=rtf.RTFPage(nrow=nrow, border_first="triple", border_last="dashed", **pkw), **kw)
        yield desc, build
        count += 1
        if limit and count >= limit:
            return


def _multi_rows(doc, parsed):
    """(row, kind) for every table row read back: 'header' (upper-cased column names of a section), 'note' (footnote / source table row), 'data'."""
    hdrs = {tuple(c.upper() for c in d.columns) for d in doc.df}
    out = []
    for p in parsed.pages:
        for r in p.rows:
            t = tuple(c.text for c in r.cells)
            kind = "header" if t in hdrs else ("note" if t in (("fn text",), ("src text",)) else "data")
            out.append((r, kind, t))
    return out


def check_multi_cells(doc, rtf_text, parsed):
    """C02 for multi-section documents: the data rows read back are the sections' rows, section after section, in order."""
    want = [tuple(cell_display(v) for v in row) for d in doc.df for row in d.iter_rows()]
    got = [t for _, kind, t in _multi_rows(doc, parsed) if kind == "data"]
    return [] if got == want else [f"data rows read back {got} != the sections' rows in order {want}"]


def make_check_multi_borders(row_module):
    def check(doc, rtf_text, parsed):
        """C07 first / last clauses for multi-section documents: the first table row of the document carries rtf_page.border_first on top,
        the last table row of the document (a footnote / source table row when rendered there) carries rtf_page.border_last at the bottom."""
        word = lambda st: row_module.BORDER_CODES.get(st, "").lstrip("\\")
        rows = _multi_rows(doc, parsed)
        if not rows:
            return []
        page = doc.rtf_page
        bad = []
        first, last = rows[0][0], rows[-1][0]
        if page.border_first and any((c.borders["t"] or ("", 0, 0))[0] != word(page.border_first) for c in first.cells):
            bad.append(f"first table row of the document {rows[0][2]} has top edges {[c.borders['t'] for c in first.cells]}, rtf_page.border_first is {page.border_first!r}")
        if page.border_last and any((c.borders["b"] or ("", 0, 0))[0] != word(page.border_last) for c in last.cells):
            bad.append(f"last table row of the document {rows[-1][2]} has bottom edges {[c.borders['b'] for c in last.cells]}, rtf_page.border_last is {page.border_last!r}")
        return bad
    return check


def check_multi_placement(doc, rtf_text, parsed):
    """Multi-section documents are outside C06's quantifier (plain / page_by / subline_by / figure documents), so only what holds for every
    reading of the placement options is judged: the title paragraph appears at most once per page, never after table rows of its page, and
    with page_title='first' exactly once in the document."""
    if doc.rtf_title is None or not doc.rtf_title.text:
        return []
    pages = [p for p in parsed.pages if p.items]
    opt = doc.rtf_page.page_title
    bad = []
    total = 0
    for pi, p in enumerate(pages):
        idx = [k for k, it in enumerate(p.items) if it.kind == "par" and "DOCTITLE" in it.text]
        total += len(idx)
        if len(idx) > 1:
            bad.append(f"page {pi + 1} of {len(pages)}: the title appears {len(idx)} times")
        if idx:
            first_row = next((k for k, it in enumerate(p.items) if it.kind == "row"), None)
            if first_row is not None and idx[0] > first_row:
                bad.append(f"page {pi + 1}: the title stands after table rows")
    if opt == "first" and total != 1:
        bad.append(f"page_title='first': the title appears {total} times in the document")
    return bad[:4]


MULTI_FAMILIES = {"wellformed": check_wellformed, "edges": check_edges, "cells": check_multi_cells, "placement": check_multi_placement}


def search_multi(index, family, seed=0, limit=60, saved=None):
    import polars as pl
    rtf = index.real_module("rtflite")
    fams = dict(MULTI_FAMILIES)
    fams["borders"] = make_check_multi_borders(index.real_module("rtflite.row"))
    fn = fams.get(family)
    if fn is None:
        return {"found": False, "family": family, "tried": 0}
    tried = 0
    for desc, build in multi_configs(rtf, pl, seed=seed, limit=limit):
        if saved is not None and desc != saved:
            continue
        tried += 1
        try:
            doc = build()
            text = doc.rtf_encode()
        except ValueError:
            continue
        except Exception as e:
            if family == "wellformed":
                return {"found": True, "input": desc, "observed": f"{type(e).__name__}: {e}", "family": family, "tried": tried}
            continue
        bad = fn(doc, text, parse(text))
        if bad:
            return {"found": True, "input": desc, "observed": bad[:4], "family": family, "tried": tried}
    return {"found": False, "family": family, "tried": tried}


_search_single = search


def search(index, family, seed=0, limit=400, saved=None):
    """Single-section family first, then the multi-section documents for the clause families that speak about them."""
    if isinstance(saved, dict) and "multi_section" in saved:
        return search_multi(index, family, seed=seed, saved=saved)
    r = _search_single(index, family, seed=seed, limit=limit, saved=saved)
    if r.get("found") or saved is not None:
        return r
    m = search_multi(index, family, seed=seed)
    if m.get("found"):
        return m
    r["tried_multi_section"] = m.get("tried", 0)
    return r
