"""encoding/unified_encoder.py::UnifiedRTFEncoder._encode_figure_only: figure documents (C16 one figure per page in order with
positional sizes, C06 title / footnote / source on exactly the selected pages, C01 skeleton, C14 the caller's footnote is not written).

`parts` is only ever appended to; every append is observed (handler `parts.append`) and the appends of one loop iteration are
compared, at the end of that iteration, with the page the property prescribes for figure i."""
import z3
from z3 import And, Or, Not, Implies, If, IntVal

from pyvc.contract import Contract
from pyvc.interp import LoopSpec
from pyvc import types as T
from pyvc.values import ListObj, RecObj, Ref, Opt, lit, to_z3, norm_str, StrSort, fresh_name
from pyvc.state import OutOfSubset
from pyvc.seqs import as_symlist
from pyvc.libmodels.strings import StrModel

from contracts.processor import h_deepcopy
from contracts.page_render import show

FIGDATA = z3.Function("figure_bytes", z3.IntSort(), z3.IntSort())         # k -> id of the bytes read from the k-th path
FIGFMT = z3.Function("figure_format", z3.IntSort(), StrSort)
DIM = z3.Function("figure_dimension", z3.IntSort(), z3.IntSort(), z3.RealSort())      # (0 width | 1 height, k) -> _get_dimension(list, k)


def mark(tag):
    return f"\x01{tag}\x01"


class FigureOnly(Contract):
    target = "encoding/unified_encoder.py::UnifiedRTFEncoder._encode_figure_only"
    serves = ["C16", "C06", "C01", "C14"]
    models = [StrModel()]
    variants = ["figures", "no_figures"]
    max_paths = 20000

    def setup(self, c):
        cls = c.cls("rtflite.encoding.unified_encoder", "UnifiedRTFEncoder")
        mk = lambda n, mod: c.alloc(RecObj(n, {}, pyclass=c.cls(mod, n), fresh=False))
        es = mk("RTFEncodingService", "rtflite.services.encoding_service")
        fs = mk("RTFFigureService", "rtflite.services.figure_service")
        c.bind("self", c.alloc(RecObj("UnifiedRTFEncoder", {"encoding_service": es, "figure_service": fs}, pyclass=cls, fresh=False)))
        B = lambda n: z3.Bool(fresh_name(n))
        if c.variant == "no_figures":
            doc = c.alloc(RecObj("RTFDocument", {"rtf_figure": None}, fresh=False))
            c.bind("document", doc)
            return
        NF = z3.Int(fresh_name("n_figures"))
        c.requires("at_least_one_figure", NF >= 1)
        paths = c.alloc(ListObj(length=NF, get=lambda k: z3.Const(fresh_name("path"), StrSort), fresh=False))
        fw, fh = c.fresh("fig_width", T.List(T.Real)), c.fresh("fig_height", T.List(T.Real))
        fig = c.alloc(RecObj("RTFFigure", {"figures": paths, "fig_width": fw, "fig_height": fh, "fig_align": c.fresh("fig_align", T.Str)}, fresh=False))
        pt, pf, ps = c.fresh("page_title", T.Str), c.fresh("page_footnote", T.Str), c.fresh("page_source", T.Str)
        col_width = c.fresh("col_width", T.Real)
        rpage = c.alloc(RecObj("RTFPage", {"page_title": pt, "page_footnote": pf, "page_source": ps, "col_width": col_width}, fresh=False))
        title_has = B("title_has_text")
        title = c.alloc(RecObj("RTFTitle", {}, fresh=False))
        sub_cfg = B("subline_configured")
        subline = Opt(Not(sub_cfg), c.alloc(RecObj("RTFSubline", {}, fresh=False)))
        foot_cfg, src_cfg = B("footnote_configured"), B("source_configured")
        foot_as_table = c.fresh("footnote_as_table", T.Bool)
        foot_rec = c.alloc(RecObj("RTFFootnote", {"as_table": foot_as_table, "text": c.fresh("footnote_text", T.Str)}, fresh=False, origin="CALLER"))
        src_rec = c.alloc(RecObj("RTFSource", {"as_table": False, "text": c.fresh("source_text", T.Str)}, fresh=False, origin="CALLER"))
        foot_nonempty, src_nonempty = B("footnote_renders_something"), B("source_renders_something")
        doc = c.alloc(RecObj("RTFDocument", {"rtf_figure": fig, "rtf_title": title, "rtf_subline": subline, "rtf_footnote": Opt(Not(foot_cfg), foot_rec),
                                             "rtf_source": Opt(Not(src_cfg), src_rec), "rtf_page": rpage, "rtf_page_header": None, "rtf_page_footer": None},
                             fresh=False))
        c.bind("document", doc)
        c.v.update(NF=NF, fig=fig, paths=paths, fw=fw, fh=fh, doc=doc, rpage=rpage, pt=pt, pf=pf, ps=ps, col_width=col_width, title_has=title_has,
                   sub_cfg=sub_cfg, foot_cfg=foot_cfg, src_cfg=src_cfg, foot_rec=foot_rec, src_rec=src_rec, foot_as_table=foot_as_table,
                   foot_nonempty=foot_nonempty, src_nonempty=src_nonempty, title=title)
        c.ghost("log", ())
        c.ghost("closed", False)
        c.ghost("prolog", None)

    @property
    def handlers(self):
        def parts_append(I, st, args, kwargs, node):
            x = norm_str(args[0])
            if st.ghost.get("closed"):
                I.oblige(st, f"C01.nothing_appended_after_the_closing_brace@L{node.lineno}", z3.BoolVal(False), "post", node.lineno)
            if isinstance(x, str) and x.startswith("\x01"):
                tag = x.strip("\x01")
            elif isinstance(x, str):
                tag = {"": "EMPTY", "\n": "NL", "\\par ": "PAR", "\\page ": "PAGE", "\n\n}": "CLOSE"}.get(x, f"LIT:{x!r}")
            else:
                tag = "OTHER"
            if tag == "CLOSE":
                st.ghost["closed"] = True
            st.ghost["log"] = tuple(st.ghost.get("log", ())) + (tag,)
            return None
        return {"parts.append": parts_append, "deepcopy": h_deepcopy}

    @property
    def summaries(self):
        v = lambda: self._v
        same = lambda a, ref: (a.payload if isinstance(a, Opt) else a) is not None and isinstance((a.payload if isinstance(a, Opt) else a), Ref) \
            and (a.payload if isinstance(a, Opt) else a).oid == ref.oid

        def read_figure(I, st, args, kwargs, node):
            vv = v()
            site = getattr(node, "lineno", None)
            I.ctx.assume_lib("rtf_read_figure(paths): one (bytes, format) per path, in the given order (FileNotFoundError / ValueError otherwise)")
            I.oblige(st, f"C16.reads_this_documents_figure_paths@L{site}", z3.BoolVal(isinstance(args[0], Ref) and args[0].oid == vv["paths"].oid), "post", site)
            figs = st.alloc(ListObj(length=vv["NF"], get=lambda k: FIGDATA(to_z3(k)), fresh=True))
            fmts = st.alloc(ListObj(length=vv["NF"], get=lambda k: FIGFMT(to_z3(k)), fresh=True))
            return (figs, fmts)

        def title(I, st, args, kwargs, node):
            return mark("TITLE") if I.decide(st, v()["title_has"], "title.has_text") else ""

        def subline(I, st, args, kwargs, node):
            return mark("SUBLINE")

        def simple(tag):
            return lambda I, st, args, kwargs, node: mark(tag)

        def dimension(I, st, args, kwargs, node):
            vv = v()
            site = getattr(node, "lineno", None)
            lst, k = args[-2], args[-1]
            which = 0 if (isinstance(lst, Ref) and lst.oid == vv["fw"].oid) else (1 if (isinstance(lst, Ref) and lst.oid == vv["fh"].oid) else None)
            I.oblige(st, f"C16.size_looked_up_in_this_documents_size_list@L{site}", z3.BoolVal(which is not None), "post", site)
            I.oblige(st, f"C16.size_looked_up_at_the_figures_own_position@L{site}", to_z3(k) == to_z3(st.ghost["__iter_index__"]), "post", site)
            return DIM(IntVal(which if which is not None else 9), to_z3(k))

        def single_figure(I, st, args, kwargs, node):
            vv = v()
            site = getattr(node, "lineno", None)
            i = to_z3(st.ghost["__iter_index__"])
            data, fmt, w, h = args[-5], args[-4], args[-3], args[-2]
            I.oblige(st, f"C16.page_i_embeds_figure_i_with_its_own_format@L{site}", And(to_z3(data) == FIGDATA(i), to_z3(norm_str(fmt)) == FIGFMT(i)), "post", site)
            I.oblige(st, f"C16.page_i_uses_the_ith_width_and_height@L{site}", And(to_z3(w) == DIM(IntVal(0), i), to_z3(h) == DIM(IntVal(1), i)), "post", site)
            return mark("FIGURE")

        def note(tag, rec_key, nonempty_key):
            def fn(I, st, args, kwargs, node):
                vv = v()
                site = getattr(node, "lineno", None)
                comp = args[1]
                o = st.obj(comp.payload if isinstance(comp, Opt) else comp)
                pn = kwargs.get("page_number")
                I.oblige(st, f"C06.{tag.lower()}_rendered_for_page_i_plus_1@L{site}", to_z3(pn) == to_z3(st.ghost["__iter_index__"]) + 1 if pn is not None else z3.BoolVal(False), "post", site)
                # EncodeFootnote / EncodeSource: paragraphs for a component with text, [] otherwise
                if I.decide(st, vv[nonempty_key], f"{tag}.nonempty"):
                    return st.alloc(ListObj(items=[mark(tag)], fresh=True))
                return st.alloc(ListObj(items=[], fresh=True))
            return fn
        return {"rtf_read_figure": read_figure, "RTFEncodingService.encode_title": title, "RTFEncodingService.encode_subline": subline,
                "RTFEncodingService.encode_document_start": simple("START"), "RTFEncodingService.encode_font_table": simple("FONTS"),
                "RTFEncodingService.encode_color_table": simple("COLORS"), "RTFEncodingService.encode_page_header": simple("PAGEHEADER"),
                "RTFEncodingService.encode_page_footer": simple("PAGEFOOTER"), "RTFEncodingService.encode_page_settings": simple("PAGESETTINGS"),
                "RTFFigureService._get_dimension": dimension, "RTFFigureService._encode_single_figure": single_figure,
                "RTFEncodingService.encode_footnote": note("FOOTNOTE", "foot_rec", "foot_nonempty"),
                "RTFEncodingService.encode_source": note("SOURCE", "src_rec", "src_nonempty")}

    def setup_loops(self, c):
        self._v = v = c.v
        if c.variant == "no_figures":
            self.loops = {}
            return
        NF = v["NF"]

        def before(I, st):
            # the prolog `parts` starts with: document start, font table, colour table, "\n", page header, page footer, page settings - each once
            lst = st.obj(st.env["parts"])
            items = [norm_str(x) for x in (lst.items or [])]
            tags = [x.strip("\x01") if isinstance(x, str) and x.startswith("\x01") else ("NL" if x == "\n" else "OTHER") for x in items]
            I.oblige(st, "C01.prolog_parts_in_fixed_order(document_start,fonts,colours,page_header,page_footer,page_settings)",
                     z3.BoolVal(tags == ["START", "FONTS", "COLORS", "NL", "PAGEHEADER", "PAGEFOOTER", "PAGESETTINGS"]), "post", None)
            I.oblige(st, "C06.page_header_and_footer_defined_exactly_once", z3.BoolVal(tags.count("PAGEHEADER") == 1 and tags.count("PAGEFOOTER") == 1), "post", None)

        def ghost_iter(I, st, i):
            st.ghost["log"] = ()                 # the appends of THIS iteration

        def inv(vv):
            st = vv._state
            cl = {"range": And(0 <= vv.i, vv.i <= NF)}
            idx = st.ghost.get("__iter_index__")
            if idx is None or not z3.is_expr(vv.i) or not z3.simplify(vv.i - 1).eq(z3.simplify(to_z3(idx))):
                return cl
            i = vv.i - 1
            first, last = i == 0, i == NF - 1
            log = [t for t in st.ghost.get("log", ())]
            want_title = show(v["pt"], first, last)
            want_foot = And(v["foot_cfg"], show(v["pf"], first, last))
            want_src = And(v["src_cfg"], show(v["ps"], first, last))
            # strip the join() result tokens: footnote / source content is "\n".join(list) -> a rope; a marker survives as JOIN of one item
            tags = [t for t in log if t != "EMPTY"]          # '' parts are dropped by the final `if p` filter
            order = ["TITLE", "NL", "SUBLINE", "FIGURE", "PAR", "FOOTNOTE", "SOURCE", "PAGE"]
            known = all(t in order or t in ("EMPTY",) for t in tags)
            cl["C16.only_the_prescribed_parts_are_appended_for_a_figure_page"] = z3.BoolVal(known)
            pos = [order.index(t) for t in tags if t in order]
            cl["C16.parts_of_a_figure_page_in_order"] = z3.BoolVal(all(a < b for a, b in zip(pos, pos[1:])))
            cl["C16.exactly_one_figure_per_page"] = z3.BoolVal(tags.count("FIGURE") == 1 and tags.count("PAR") == 1)
            cl["C16.page_break_exactly_between_consecutive_figures"] = z3.BoolVal("PAGE" in tags) == Not(last)
            cl["C06.title_on_exactly_the_selected_pages"] = Implies(v["title_has"], z3.BoolVal("TITLE" in tags) == want_title)
            cl["C06.footnote_on_exactly_the_selected_pages"] = Implies(v["foot_nonempty"], z3.BoolVal("FOOTNOTE" in tags) == want_foot)
            cl["C06.source_on_exactly_the_selected_pages"] = Implies(v["src_nonempty"], z3.BoolVal("SOURCE" in tags) == want_src)
            return cl
        # every append to `parts` is observed by the handler (the list object itself keeps the prolog), so nothing to havoc
        self.loops = {0: LoopSpec(inv=inv, before=before, ghost_iter=ghost_iter, havoc={"parts": (lambda I, st, name, ref: None)})}

    def ensures(self, c, out):
        if c.variant == "no_figures":
            return {"no_figures_empty_document": z3.BoolVal(norm_str(out.value) == "")}
        log = out.state.ghost.get("log", ())
        fr = out.state.obj(c.v["foot_rec"])
        at = fr.fields.get("as_table")
        return {"C01.closing_brace_appended_last": z3.BoolVal(bool(out.state.ghost.get("closed")) and len(log) >= 1 and log[-1] == "CLOSE"),
                "C14.callers_footnote_component_is_not_written": z3.BoolVal(at is c.v["foot_as_table"] or (z3.is_expr(at) and at.eq(to_z3(c.v["foot_as_table"]))))}



class EncodeFigure(Contract):
    """services/figure_service.py::RTFFigureService.encode_figure (a figure placed before / after a table): figure i of the given path
    list is encoded with its own bytes and format and the i-th width / height, a page break stands exactly between consecutive figures
    and one closing paragraph follows the last figure; '' without figures (C16)."""
    target = "services/figure_service.py::RTFFigureService.encode_figure"
    serves = ["C16"]
    models = [StrModel()]
    variants = ["figures", "no_component", "no_paths"]

    def setup(self, c):
        if c.variant == "no_component":
            c.bind("rtf_figure", None)
            return
        if c.variant == "no_paths":
            c.bind("rtf_figure", c.alloc(RecObj("RTFFigure", {"figures": None}, fresh=False)))
            return
        NF = z3.Int(fresh_name("n_figures"))
        c.requires("at_least_one_figure", NF >= 1)
        paths = c.alloc(ListObj(length=NF, get=lambda k: z3.Const(fresh_name("path"), StrSort), fresh=False))
        fw, fh = c.fresh("fig_width", T.List(T.Real)), c.fresh("fig_height", T.List(T.Real))
        align = c.fresh("fig_align", T.Str)
        fig = c.alloc(RecObj("RTFFigure", {"figures": paths, "fig_width": fw, "fig_height": fh, "fig_align": align}, fresh=False))
        c.bind("rtf_figure", fig)
        c.v.update(NF=NF, paths=paths, fw=fw, fh=fh, align=align)
        c.ghost("log", ())

    @property
    def handlers(self):
        def out_append(I, st, args, kwargs, node):
            x = norm_str(args[0])
            tag = x.strip("\x01") if isinstance(x, str) and x.startswith("\x01") else ({"\\par ": "PAR", "\\page ": "PAGE"}.get(x, f"LIT:{x!r}") if isinstance(x, str) else "OTHER")
            st.ghost["log"] = tuple(st.ghost.get("log", ())) + (tag,)
            return None
        return {"rtf_output.append": out_append}

    @property
    def summaries(self):
        v = lambda: self._v

        def read_figure(I, st, args, kwargs, node):
            site = getattr(node, "lineno", None)
            I.ctx.assume_lib("rtf_read_figure(paths): one (bytes, format) per path, in the given order (FileNotFoundError / ValueError otherwise)")
            I.oblige(st, f"C16.reads_this_components_figure_paths@L{site}", z3.BoolVal(isinstance(args[0], Ref) and args[0].oid == v()["paths"].oid), "post", site)
            figs = st.alloc(ListObj(length=v()["NF"], get=lambda k: FIGDATA(to_z3(k)), fresh=True))
            fmts = st.alloc(ListObj(length=v()["NF"], get=lambda k: FIGFMT(to_z3(k)), fresh=True))
            return (figs, fmts)

        def dimension(I, st, args, kwargs, node):
            vv = v()
            site = getattr(node, "lineno", None)
            lst, k = args[-2], args[-1]
            which = 0 if (isinstance(lst, Ref) and lst.oid == vv["fw"].oid) else (1 if (isinstance(lst, Ref) and lst.oid == vv["fh"].oid) else None)
            I.oblige(st, f"C16.size_looked_up_in_this_components_size_list@L{site}", z3.BoolVal(which is not None), "post", site)
            I.oblige(st, f"C16.size_looked_up_at_the_figures_own_position@L{site}", to_z3(k) == to_z3(st.ghost["__iter_index__"]), "post", site)
            return DIM(IntVal(which if which is not None else 9), to_z3(k))

        def single_figure(I, st, args, kwargs, node):
            site = getattr(node, "lineno", None)
            i = to_z3(st.ghost["__iter_index__"])
            data, fmt, w, h, al = args[-5], args[-4], args[-3], args[-2], args[-1]
            I.oblige(st, f"C16.figure_i_is_encoded_with_its_own_bytes_and_format@L{site}", And(to_z3(data) == FIGDATA(i), to_z3(norm_str(fmt)) == FIGFMT(i)), "post", site)
            I.oblige(st, f"C16.figure_i_uses_the_ith_width_and_height@L{site}", And(to_z3(w) == DIM(IntVal(0), i), to_z3(h) == DIM(IntVal(1), i)), "post", site)
            I.oblige(st, f"C16.figure_i_uses_the_configured_alignment@L{site}", to_z3(norm_str(al)) == to_z3(v()["align"]), "post", site)
            return mark("FIGURE")
        return {"rtf_read_figure": read_figure, "RTFFigureService._get_dimension": dimension, "RTFFigureService._encode_single_figure": single_figure}

    def setup_loops(self, c):
        self._v = v = c.v
        self.loops = {}
        if c.variant != "figures":
            return
        NF = v["NF"]

        def ghost_iter(I, st, i):
            st.ghost["log"] = ()

        def after(I, st, fin):
            st.ghost["log"] = ()

        def inv(vv):
            st = vv._state
            cl = {"range": And(0 <= vv.i, vv.i <= NF)}
            idx = st.ghost.get("__iter_index__")
            if idx is None or not z3.is_expr(vv.i) or not z3.simplify(vv.i - 1).eq(z3.simplify(to_z3(idx))):
                return cl
            last = (vv.i - 1) == NF - 1
            tags = list(st.ghost.get("log", ()))
            cl["C16.each_iteration_appends_one_figure_then_at_most_a_page_break"] = z3.BoolVal(tags in (["FIGURE"], ["FIGURE", "PAGE"]))
            cl["C16.page_break_exactly_between_consecutive_figures"] = z3.BoolVal("PAGE" in tags) == Not(last)
            return cl
        self.loops = {0: LoopSpec(inv=inv, ghost_iter=ghost_iter, after=after, havoc={"rtf_output": (lambda I, st, name, ref: None)})}

    def ensures(self, c, out):
        if c.variant != "figures":
            return {"C16.nothing_is_emitted_without_figures": z3.BoolVal(norm_str(out.value) == "")}
        return {"C16.one_closing_paragraph_after_the_last_figure": z3.BoolVal(tuple(out.state.ghost.get("log", ())) == ("PAR",))}


# ---- figure.py::_read_image_data ----------------------------------------------------------------------------------------------------
from contracts.figures import FILE_BYTES


class FileModel:
    """`with open(...) as f:` - the file object is bound, the body runs, the file is closed on every exit of the block."""
    assumed = ["open(path, 'rb') as f; f.read(): the bytes stored at that path (whole file, no decoding); the with block closes the file"]

    def call_method(self, I, st, recv, name, args, kwargs, node):
        # methods of the file object, whatever local name the code gives it
        if isinstance(recv, Ref) and isinstance(st.obj(recv), RecObj) and st.obj(recv).cls == "BinaryFile" and name == "read":
            site = getattr(node, "lineno", None)
            I.oblige(st, f"C16.reads_the_whole_file@L{site}", z3.BoolVal(len(args) == 0 and not kwargs), "post", site)
            return FILE_BYTES(st.obj(recv).fields["_path"])
        return NotImplemented

    def with_stmt(self, I, st, s):
        if len(s.items) != 1:
            return NotImplemented
        item = s.items[0]
        cm = I.eval(st, item.context_expr)
        if not (isinstance(cm, Ref) and isinstance(st.obj(cm), RecObj) and st.obj(cm).cls == "BinaryFile"):
            return NotImplemented
        if item.optional_vars is not None:
            I.assign(st, item.optional_vars, cm)
        outs = []
        for o in I.exec_block(st, s.body):
            o.state.ghost["closed_files"] = tuple(o.state.ghost.get("closed_files", ())) + (cm.oid,)
            outs.append(o)
        return outs


class ReadImageData(Contract):
    """_read_image_data(path): the whole content of the file at `path`, opened for binary reading (C16: the exact bytes)."""
    target = "figure.py::_read_image_data"
    serves = ["C16"]
    models = [FileModel(), StrModel()]

    def setup(self, c):
        p = z3.Const(fresh_name("path"), StrSort)
        c.bind("path", ("path", p))
        c.v.update(p=p)
        c.ghost("opened", ())

    @property
    def handlers(self):
        def h_open(I, st, args, kwargs, node):
            site = getattr(node, "lineno", None)
            I.ctx.assume_lib("open(path, 'rb') as f; f.read(): the bytes stored at that path (whole file, no decoding)")
            tgt = args[0]
            mode = norm_str(args[1]) if len(args) > 1 else norm_str(kwargs.get("mode", "r"))
            I.oblige(st, f"C16.opens_the_given_path_for_binary_reading@L{site}",
                     z3.BoolVal(isinstance(tgt, tuple) and len(tgt) == 2 and tgt[0] == "path" and tgt[1].eq(self._v["p"]) and mode == "rb"), "post", site)
            st.ghost["opened"] = tuple(st.ghost.get("opened", ())) + (site,)
            return st.alloc(RecObj("BinaryFile", {"_path": tgt[1] if isinstance(tgt, tuple) else None}, fresh=True))

        return {"open": h_open}

    def setup_loops(self, c):
        self._v = c.v
        self.loops = {}

    def ensures(self, c, out):
        return {"C16.returns_the_files_exact_bytes": to_z3(out.value) == FILE_BYTES(c.v["p"]),
                "opened_once": z3.BoolVal(len(out.state.ghost.get("opened", ())) == 1)}


UNITS = [FigureOnly(), EncodeFigure(), ReadImageData()]
