"""Contracts for pagination/strategies/*.py (DESIGN A8-A10): C02 (page = interval slice), C04 (new_page forwarding),
C05 (group headers / boundaries), C06 (needs_header, first/last flags), C09 (first original row of a page)."""
import z3
from z3 import And, Or, Not, Implies, ForAll, Exists, If, IntVal, Select

from pyvc.contract import Contract
from pyvc.interp import LoopSpec
from pyvc import types as T
from pyvc.state import OutOfSubset, lazy_alloc
from pyvc.units import LemmaUnit
from pyvc.values import (RecObj, ListObj, DictObj, FrameObj, Ref, Opt, StrSort, ValSort, lit, norm_str, to_z3, val_null, val_str, fresh_name)
from pyvc.libmodels.polars_model import PolarsModel, DfObj, fresh_df, cell_value
from pyvc.libmodels.strings import StrModel
from pyvc.seqs import safe_view, seq_view

DIV = lit("-----")
COLIDX = z3.Function("column_index_of_name", StrSort, z3.IntSort())


class MetaView:
    """The row metadata frame returned by calculate_row_metadata, as the ensures of AssignPages describe it."""
    def __init__(self, n):
        self.n = n
        self.page = z3.Function(fresh_name("page"), z3.IntSort(), z3.IntSort())
        self.first = z3.Function(fresh_name("first"), z3.IntSort(), z3.IntSort())
        self.last = z3.Function(fresh_name("last"), z3.IntSort(), z3.IntSort())
        self.m = z3.Int(fresh_name("m"))
        self.group_start = z3.Function(fresh_name("is_group_start"), z3.IntSort(), z3.BoolSort())     # RowMetadata: flag == page_by key change

    def facts(self):
        n, page, first, last, m = self.n, self.page, self.first, self.last, self.m
        k, p = z3.Ints("mk mp")
        return [Implies(n > 0, And(m >= 1, first(1) == 0, last(m) == n - 1)), Implies(n == 0, m == 0),
                ForAll([p], Implies(And(1 <= p, p < m), first(p + 1) == last(p) + 1)),
                ForAll([p], Implies(And(1 <= p, p <= m), And(0 <= first(p), first(p) <= last(p), last(p) < n))),
                ForAll([p, k], Implies(And(1 <= p, p <= m, 0 <= k, k < n), (page(k) == p) == And(first(p) <= k, k <= last(p))))]


class _Filtered:
    def __init__(self, mv, p):
        self.mv, self.p = mv, p


class _Col:
    def __init__(self, flt, col):
        self.flt, self.col = flt, col


class MetaModel:
    """Assumed polars contracts on the metadata frame, justified by AssignPages' ensures + lemma `filter_min_max`:
    unique().sort() of the page column is [1..m]; filter(page == p) is the interval [first[p], last[p]] whose row_index
    column is the identity, so min / max are first[p] / last[p] and height is last[p]-first[p]+1."""
    assumed = ["polars: Series.unique().sort(), DataFrame.filter(col == v), Series.min()/max() (set semantics)"]

    def __init__(self, mv):
        self.mv = mv

    def get_item(self, I, st, base, key, node):
        if isinstance(base, MetaView) and norm_str(key) == "page":
            return ("pagecol", base)
        if isinstance(base, _Filtered) and norm_str(key) == "row_index":
            return _Col(base, "row_index")
        return NotImplemented

    def call_method(self, I, st, recv, name, args, kwargs, node):
        if isinstance(recv, tuple) and recv and recv[0] == "pagecol" and name == "unique":
            return ("uniq", recv[1])
        if isinstance(recv, tuple) and recv and recv[0] == "uniq" and name == "sort":
            I.ctx.assume_lib(self.assumed[0])
            mv = recv[1]
            return st.alloc(ListObj(length=mv.m, get=lambda j: z3.simplify(to_z3(j) + 1), fresh=True))
        if isinstance(recv, MetaView) and name == "filter":
            p = args[0]
            if not (isinstance(p, tuple) and p[0] == "page_eq"):
                raise OutOfSubset("metadata.filter with an unmodelled predicate")
            return _Filtered(recv, p[1])
        if isinstance(recv, _Col) and name in ("min", "max"):
            mv, p = recv.flt.mv, recv.flt.p
            return mv.first(p) if name == "min" else mv.last(p)
        return NotImplemented

    def get_attr(self, I, st, base, attr, node):
        if isinstance(base, _Filtered) and attr == "height":
            mv, p = base.mv, base.p
            return mv.last(p) - mv.first(p) + 1
        if isinstance(base, (MetaView, _Filtered, _Col)) or (isinstance(base, tuple) and base and base[0] in ("pagecol", "uniq")):
            from pyvc.values import BoundMethod
            return BoundMethod(base, attr)
        return NotImplemented

    def compare(self, I, st, op, a, b, node):
        import ast as _ast
        if isinstance(op, _ast.Eq) and isinstance(a, tuple) and len(a) == 2 and a[0] == "plcol" and a[1] == "page":
            return ("page_eq", to_z3(b))
        return NotImplemented

    def len(self, I, st, v, node):
        return NotImplemented


def h_pl_col(I, st, args, kwargs, node):
    return ("plcol", norm_str(args[0]))


class _ColEq:
    """`pl.col('page') == page_num` expression."""

    def compare(self, I, st, a, b):
        return NotImplemented


def lemma_filter_min_max(index):
    """From page[k]==p <=> first[p]<=k<=last[p] and first<=last: the set {k | page[k]==p} has min first[p], max last[p], size last-first+1."""
    page = z3.Function("page", z3.IntSort(), z3.IntSort())
    n, p, f, l, k = z3.Ints("n p f l k")
    hyp = [0 <= f, f <= l, l < n, ForAll([k], Implies(And(0 <= k, k < n), (page(k) == p) == And(f <= k, k <= l)))]
    return [("min_is_first", hyp, And(page(f) == p, ForAll([k], Implies(And(0 <= k, k < n, page(k) == p), k >= f)))),
            ("max_is_last", hyp, And(page(l) == p, ForAll([k], Implies(And(0 <= k, k < n, page(k) == p), k <= l)))),
            ("unique_pages_are_1_to_m", [ForAll([k], Implies(And(0 <= k, k < n), And(1 <= page(k), page(k) <= p))), n > 0,
                                          ForAll([k], Implies(And(1 <= k, k <= p), Exists([f], And(0 <= f, f < n, page(f) == k))))],
             ForAll([k], Implies(And(1 <= k, k <= p), Exists([f], And(0 <= f, f < n, page(f) == k)))))]


# =====================================================================================================================
class _Paginate(Contract):
    serves = ["C02", "C04", "C05", "C06", "C09"]
    strategy = "default"
    cls_name = "DefaultPaginationStrategy"
    cls_mod = "rtflite.pagination.strategies.defaults"
    max_paths = 4000

    @property
    def models(self):
        mm = getattr(self, "_meta_model", None)
        return ([mm] if mm is not None else []) + [PolarsModel(), StrModel()]

    def setup(self, c):
        scls = c.cls(self.cls_mod, self.cls_name)
        c.bind("self", c.alloc(RecObj(self.cls_name, {}, pyclass=scls, fresh=False)))
        df = fresh_df(c.st, "df")
        d = c.obj(df)
        mv = MetaView(d.n)
        self._meta_model = MetaModel(mv)
        c.ctx.models = self.models
        for i, f in enumerate(mv.facts()):
            c.requires(f"A1_ensures_{i}", f)
        page = c.alloc(RecObj("RTFPage", {"width": c.fresh("width", T.Real), "height": c.fresh("height", T.Real),
                                          "margin": c.fresh("margin", T.List(T.Real)), "nrow": c.fresh("nrow", T.Int),
                                          "orientation": c.fresh("orientation", T.Str)}, fresh=False))
        pbh = c.fresh("pageby_header", T.Bool)
        newp = c.fresh("new_page", T.Bool)
        M = getattr(self, "levels", 0)
        S = getattr(self, "sub_levels", 0)
        pb_cols = [f"pb{l}" for l in range(M)]
        sb_cols = [f"sb{l}" for l in range(S)]
        body = c.alloc(RecObj("RTFBody", {"pageby_header": pbh, "new_page": newp,
                                          "page_by": c.alloc(ListObj(items=pb_cols, fresh=False)) if M else None,
                                          "subline_by": c.alloc(ListObj(items=sb_cols, fresh=False)) if S else None}, fresh=False))
        cw = c.fresh("col_widths", T.List(T.Real))
        tattrs = c.alloc(RecObj("TableAttributes", {}, fresh=False))
        rem = c.fresh("removed_column_indices", T.List(T.Int))
        add = c.fresh("additional_rows_per_page", T.Int)
        ctxo = c.alloc(RecObj("PaginationContext", {"df": df, "rtf_body": body, "rtf_page": page, "col_widths": cw, "table_attrs": tattrs,
                                                    "removed_column_indices": rem, "additional_rows_per_page": add}, fresh=False))
        c.bind("context", ctxo)
        c.ghost("created", None)
        c.v.update(df=df, d=d, mv=mv, pbh=pbh, newp=newp, cw=cw, tattrs=tattrs, rem=rem, add=add, pb_cols=pb_cols, sb_cols=sb_cols, M=M, S=S)

    # ---- handlers ------------------------------------------------------------------------------------------------
    @property
    def handlers(self):
        v = lambda: self._v

        def new_pagination(I, st, cv, args, kwargs, node):
            return st.alloc(RecObj("RTFPagination", dict(kwargs), pyclass=cv.pyclass))

        def new_calc(I, st, cv, args, kwargs, node):
            return st.alloc(RecObj("PageBreakCalculator", dict(kwargs), pyclass=cv.pyclass))

        def pl_col(I, st, args, kwargs, node):
            return ("plcol", norm_str(args[0]))

        def new_page_ctx(I, st, cv, args, kwargs, node):
            vv = v()
            mv = vv["mv"]
            site = getattr(node, "lineno", None)
            q = st.ghost["__iter_index__"]                # 0-based position in the sorted unique pages
            p = z3.simplify(to_z3(q) + 1)
            ob = lambda name, f: I.oblige(st, f"{name}@L{site}", f, "post", site)
            # omitted keyword arguments take the real model's declared defaults; an omitted required field is a construction error
            real = I.ctx.index.real_module("rtflite.pagination.strategies.base").PageContext
            kwargs = dict(kwargs)
            for fname, finfo in real.model_fields.items():
                if fname not in kwargs:
                    if finfo.is_required():
                        ob(f"C01.PageContext_required_field_{fname}_given", z3.BoolVal(False))
                        kwargs[fname] = None
                    elif finfo.default_factory is None:
                        kwargs[fname] = finfo.default
            ob("C06.page_number_is_position_plus_1", to_z3(kwargs["page_number"]) == p)
            ob("C06.total_pages", to_z3(kwargs["total_pages"]) == mv.m)
            ob("C06.is_first_iff_number_1", to_z3(kwargs["is_first_page"]) == (p == 1))
            ob("C06.is_last_iff_number_total", to_z3(kwargs["is_last_page"]) == (p == mv.m))
            ob("C06.needs_header_iff_pageby_header_or_first", to_z3(kwargs["needs_header"]) == Or(vv["pbh"], p == 1))
            data = kwargs["data"]
            dd = st.obj(data)
            is_slice = isinstance(dd, DfObj) and dd.origin is not None and dd.origin[0] == vv["df"]
            ob("C02.page_data_is_a_row_slice_of_the_frame", z3.BoolVal(bool(is_slice)))
            if is_slice:
                ob("C02.page_rows_are_exactly_the_pages_interval", And(dd.origin[1] == mv.first(p), dd.n == mv.last(p) - mv.first(p) + 1))
            ob("C08.page_col_widths", z3.BoolVal(kwargs.get("col_widths") == vv["cw"]))
            ob("C09.page_table_attrs", z3.BoolVal(kwargs.get("table_attrs") == vv["tattrs"]))
            rs = kwargs.get("row_start")
            ob("C09.page_knows_its_first_original_row", to_z3(rs) == mv.first(p) if rs is not None else z3.BoolVal(False))
            ref = st.alloc(RecObj("PageContext", dict(kwargs, pageby_header_info=None, group_boundaries=None, subline_header=None), pyclass=cv.pyclass))
            st.ghost["created"] = ref
            return ref

        def pages_append(I, st, args, kwargs, node):
            site = getattr(node, "lineno", None)
            I.oblige(st, f"C02.appended_page_is_the_one_built_in_this_iteration@L{site}", z3.BoolVal(args[0] == st.ghost.get("created")), "post", site)
            pages = st.obj(st.env["pages"])
            n, g = safe_view(st, pages, IntVal(-1))
            pid = z3.simplify(to_z3(st.ghost["__iter_index__"]))
            # post-construction stores (page_by / subline strategies)
            self.check_page_stores(I, st, args[0], site)
            if pages.concrete:
                pages.items.append(pid)
            else:
                from pyvc.seqs import ite
                pages.length = z3.simplify(n + 1)
                pages.get = lambda j, n=n, g=g, pid=pid: ite(st, to_z3(j) == n, pid, g(j))
            return None
        return {"new:RTFPagination": new_pagination, "new:PageBreakCalculator": new_calc, "pl.col": pl_col, "new:PageContext": new_page_ctx,
                "pages.append": pages_append}

    def check_page_stores(self, I, st, page, site):
        pass

    @property
    def summaries(self):
        def row_metadata(I, st, args, kwargs, node):
            vv = self._v
            site = getattr(node, "lineno", None)
            ob = lambda name, f: I.oblige(st, f"{name}@L{site}", f, "pre", site)
            ob("call.calculate_row_metadata.df_is_context_df", z3.BoolVal(kwargs.get("df") == vv["df"]))
            ob("call.calculate_row_metadata.col_widths", z3.BoolVal(kwargs.get("col_widths") == vv["cw"]))
            ob("call.calculate_row_metadata.removed_column_indices", z3.BoolVal(kwargs.get("removed_column_indices") == vv["rem"]))
            ob("call.calculate_row_metadata.additional_rows", to_z3(kwargs.get("additional_rows_per_page")) == vv["add"])
            self.check_metadata_call(I, st, kwargs, ob)
            return vv["mv"]
        d = {"PageBreakCalculator.calculate_row_metadata": row_metadata}
        d.update(self.extra_summaries())
        return d

    def extra_summaries(self):
        return {}

    def check_metadata_call(self, I, st, kwargs, ob):
        ob("C04.plain_pagination_has_no_group_rules", z3.BoolVal(kwargs.get("page_by") is None and kwargs.get("subline_by") is None))

    def setup_loops(self, c):
        self._v = c.v
        mv = c.v["mv"]

        def inv(vv):
            pages = vv.obj(vv.pages)
            n, g = safe_view(vv.state, pages, IntVal(-1))
            k = z3.Int("k")
            return {"one_page_context_per_page_number_so_far": n == vv.i,
                    "in_page_order": ForAll([k], Implies(And(0 <= k, k < vv.i), g(k) == k))}
        self.loops = {0: LoopSpec(inv=inv, havoc={"pages": T.List(T.Int)}, ghost_vars=[])}

    def ensures(self, c, out):
        mv = c.v["mv"]
        n, g = seq_view(out.state, out.value)
        k = z3.Int("k")
        return {"one_page_per_page_number_in_order": And(n == mv.m, ForAll([k], Implies(And(0 <= k, k < mv.m), g(k) == k)))}


class _PlColEqModel:
    """`pl.col('page') == page_num` -> predicate marker."""

    def binop(self, I, st, op, a, b, node):
        return NotImplemented


class PaginateDefault(_Paginate):
    target = "pagination/strategies/defaults.py::DefaultPaginationStrategy.paginate"


# ---- page_by / subline strategies ---------------------------------------------------------------------------------
GH = z3.Function("group_headers_of", z3.IntSort(), z3.IntSort(), StrSort)     # (which key list id, start row) -> opaque result id


class PaginatePageBy(_Paginate):
    target = "pagination/strategies/grouping.py::PageByStrategy.paginate"
    cls_name, cls_mod = "PageByStrategy", "rtflite.pagination.strategies.grouping"
    levels = 2

    def check_metadata_call(self, I, st, kwargs, ob):
        vv = self._v
        ob("C04.page_by_columns_forwarded", z3.BoolVal(kwargs.get("page_by") == st.obj(st.obj(vv_ctx(st)).fields["rtf_body"]).fields["page_by"]))
        ob("C04.new_page_forwarded_from_body", to_z3(kwargs.get("new_page")) == vv["newp"])
        ob("C04.no_subline_rule_in_page_by_strategy", z3.BoolVal(kwargs.get("subline_by") is None))

    def extra_summaries(self):
        def group_headers(I, st, args, kwargs, node):
            # contract of _get_group_headers (unit GetGroupHeaders): a dict describing the non-divider values of row start_row
            return st.alloc(DictObj(items={"__of__": (args[1], args[2], args[3])}, fresh=True))

        def boundaries(I, st, args, kwargs, node):
            nb = z3.Int(fresh_name("nb"))
            st.assume(nb >= 0)
            r = st.alloc(ListObj(length=nb, get=lambda j: None, fresh=True))
            st.obj(r).tag = (args[1], args[2], args[3], args[4])
            return r
        return {"PageByStrategy._get_group_headers": group_headers, "PageByStrategy._detect_group_boundaries": boundaries,
                "SublineStrategy._get_group_headers": group_headers, "SublineStrategy._detect_group_boundaries": boundaries}

    def check_page_stores(self, I, st, page, site):
        vv = self._v
        mv = vv["mv"]
        p = z3.simplify(to_z3(st.ghost["__iter_index__"]) + 1)
        po = st.obj(page)
        ob = lambda name, f: I.oblige(st, f"{name}@L{site}", f, "post", site)
        body = st.obj(st.obj(vv_ctx(st)).fields["rtf_body"])
        if vv["M"]:
            info = po.fields.get("pageby_header_info")
            okinfo = isinstance(info, Ref) and "__of__" in st.obj(info).items
            ob("C05.page_heading_info_present", z3.BoolVal(bool(okinfo)))
            if okinfo:
                df_, cols_, start_ = st.obj(info).items["__of__"]
                ob("C05.page_headings_come_from_the_pages_first_row", And(z3.BoolVal(df_ == vv["df"] and cols_ == body.fields["page_by"]), to_z3(start_) == mv.first(p)))
                # (C03: the rows these page-top headings take are budgeted by _assign_pages through continuation_header_rows of the page's first row)
            gb = po.fields.get("group_boundaries")
            # boundaries are stored iff non-empty, computed over exactly this page's row range with the page_by columns
            if gb is not None:
                tag = st.obj(gb).tag if isinstance(gb, Ref) else None
                ob("C05.boundaries_computed_over_this_pages_rows", z3.BoolVal(tag is not None and tag[0] == vv["df"] and tag[1] == body.fields["page_by"])
                   if tag is None else And(z3.BoolVal(tag[0] == vv["df"] and tag[1] == body.fields["page_by"]), to_z3(tag[2]) == mv.first(p), to_z3(tag[3]) == mv.last(p)))
            st.ghost.setdefault("__gb_seen__", []).append(gb is not None)
        if vv["S"]:
            sh = po.fields.get("subline_header")
            oks = isinstance(sh, Ref) and "__of__" in st.obj(sh).items
            ob("C05.subline_heading_present_on_every_page", z3.BoolVal(bool(oks)))
            if oks:
                df_, cols_, start_ = st.obj(sh).items["__of__"]
                ob("C05.subline_heading_names_the_pages_group", And(z3.BoolVal(df_ == vv["df"] and cols_ == body.fields["subline_by"]), to_z3(start_) == mv.first(p)))


def vv_ctx(st):
    return st.env["context"]


class PaginateSubline(PaginatePageBy):
    target = "pagination/strategies/grouping.py::SublineStrategy.paginate"
    cls_name = "SublineStrategy"
    levels = 1
    sub_levels = 1

    def check_metadata_call(self, I, st, kwargs, ob):
        vv = self._v
        body = st.obj(st.obj(vv_ctx(st)).fields["rtf_body"])
        ob("C04.subline_change_always_breaks(new_page=True)", z3.BoolVal(kwargs.get("new_page") is True))
        ob("C04.subline_by_columns_forwarded", z3.BoolVal(kwargs.get("subline_by") == body.fields["subline_by"]))
        ob("C04.page_by_columns_forwarded", z3.BoolVal(kwargs.get("page_by") == body.fields["page_by"]))


# =====================================================================================================================
class GetGroupHeaders(Contract):
    """_get_group_headers: the non-divider values of row start_row for the key columns, in key order (A9)."""
    target = "pagination/strategies/grouping.py::PageByStrategy._get_group_headers"
    serves = ["C05"]
    variants = ["levels1", "levels2", "levels3"]

    @property
    def models(self):
        return [NamedColumns(), PolarsModel(), StrModel()]

    def setup(self, c):
        M = int(c.variant[-1])
        cols = [f"pb{l}" for l in range(M)]
        scls = c.cls("rtflite.pagination.strategies.grouping", "PageByStrategy")
        c.bind("self", c.alloc(RecObj("PageByStrategy", {}, pyclass=scls, fresh=False)))
        df = fresh_df(c.st, "df")
        c.bind("df", df)
        c.bind("page_by", c.alloc(ListObj(items=list(cols), fresh=False)))
        s = c.param("start_row", T.Int)
        c.requires("start_row_nonneg", s >= 0)
        for col in cols:
            c.requires(f"column_{col}_exists", And(COLIDX(lit(col)) >= 0, COLIDX(lit(col)) < c.obj(df).w))
        c.v.update(cols=cols, d=c.obj(df), M=M)

    def ensures(self, c, out):
        d, s = c.v["d"], c.v["start_row"]
        res = out.state.obj(out.value)
        if not res.items:
            return {"empty_only_beyond_the_frame": s >= d.n}
        gv = out.state.obj(res.items["group_values"])
        cl = {"in_range": s < d.n, "keys_in_page_by_order": z3.BoolVal([k for k in gv.items] == [k for k in c.v["cols"] if k in gv.items])}
        for col in c.v["cols"]:
            v = d.cell(s, COLIDX(lit(col)))
            shown = z3.If(val_null(v), lit("None"), val_str(v)) != DIV
            pres = gv.present.get(col, True) if col in gv.items else False
            cl[f"{col}_present_iff_not_divider"] = to_z3(pres) == shown
            if col in gv.items:
                item = gv.items[col]
                cl[f"{col}_value_is_the_rows_value"] = (item.payload == v) if isinstance(item, Opt) else (to_z3(item) == v)
        return cl


class NamedColumns:
    """polars: df[name] is the column with that name; df[name][i] is cell (i, index of name)."""

    def get_item(self, I, st, base, key, node):
        from pyvc.libmodels.polars_model import Series
        key_n = norm_str(key)
        if isinstance(base, Ref) and isinstance(st.heap.get(base.oid), DfObj) and (isinstance(key_n, str) or (z3.is_expr(key_n) and key_n.sort() == StrSort)):
            I.ctx.assume_lib("polars: df[name][i] is the cell of row i in the column named `name`")
            return Series(base, COLIDX(to_z3(key_n)))
        if isinstance(base, Series):
            d = st.obj(base.df)
            i = to_z3(key)
            I.check(st, And(i >= 0, i < d.n), "IndexError", "series.index", getattr(node, "lineno", None))
            return cell_value(st, d, i, base.col)
        return NotImplemented


class DetectGroupBoundaries(Contract):
    """_detect_group_boundaries: exactly the rows k+1 in (start, end] whose key differs from row k, in increasing order, with the
    page-relative index k+1-start and the non-divider values of row k+1 (A8)."""
    target = "pagination/strategies/grouping.py::PageByStrategy._detect_group_boundaries"
    serves = ["C05", "C02"]
    variants = ["levels1", "levels2"]

    @property
    def models(self):
        return [NamedColumns(), PolarsModel(), StrModel()]

    def setup(self, c):
        M = int(c.variant[-1])
        cols = [f"pb{l}" for l in range(M)]
        scls = c.cls("rtflite.pagination.strategies.grouping", "PageByStrategy")
        c.bind("self", c.alloc(RecObj("PageByStrategy", {}, pyclass=scls, fresh=False)))
        df = fresh_df(c.st, "df")
        c.bind("df", df)
        c.bind("page_by", c.alloc(ListObj(items=list(cols), fresh=False)))
        s, e = c.param("start_row", T.Int), c.param("end_row", T.Int)
        d = c.obj(df)
        c.requires("page_range_inside_frame", And(0 <= s, s <= e, e < d.n))
        for col in cols:
            c.requires(f"column_{col}_exists", And(COLIDX(lit(col)) >= 0, COLIDX(lit(col)) < d.w))
        c.v.update(cols=cols, d=d, M=M)

    def key_differs(self, c, k):
        d = c.v["d"]
        # dict equality of raw values: null == null, otherwise value equality
        def eqv(a, b):
            return Or(And(val_null(a), val_null(b)), And(Not(val_null(a)), Not(val_null(b)), a == b))
        return Or(*[Not(eqv(d.cell(k, COLIDX(lit(col))), d.cell(k + 1, COLIDX(lit(col))))) for col in c.v["cols"]])

    @property
    def handlers(self):
        def gb_append(I, st, args, kwargs, node):
            site = getattr(node, "lineno", None)
            vv = self._v
            b = st.obj(args[0])
            row_idx = I.lookup(st, "row_idx")
            s = vv["start_row"]
            ob = lambda name, f: I.oblige(st, f"{name}@L{site}", f, "post", site)
            ob("C05.boundary_absolute_row_is_next_row", to_z3(b.items["absolute_row"]) == to_z3(row_idx) + 1)
            ob("C05.boundary_page_relative_row", to_z3(b.items["page_relative_row"]) == to_z3(row_idx) + 1 - s)
            gv = st.obj(b.items["group_values"])
            for col in vv["cols"]:
                v = vv["d"].cell(to_z3(row_idx) + 1, COLIDX(lit(col)))
                shown = z3.If(val_null(v), lit("None"), val_str(v)) != DIV
                pres = gv.present.get(col, True) if col in gv.items else False
                ob(f"C05.boundary_{col}_present_iff_not_divider", to_z3(pres) == shown)
                if col in gv.items:
                    item = gv.items[col]
                    ob(f"C05.boundary_{col}_value_is_next_rows_value", (item.payload == v) if isinstance(item, Opt) else (to_z3(item) == v))
            lst = st.obj(st.env["group_boundaries"])
            n, g = safe_view(st, lst, IntVal(-1))
            val = z3.simplify(to_z3(row_idx) + 1)
            if lst.concrete:
                lst.items.append(val)
            else:
                from pyvc.seqs import ite
                lst.length = z3.simplify(n + 1)
                lst.get = lambda j, n=n, g=g, val=val: ite(st, to_z3(j) == n, val, g(j))
            return None
        return {"group_boundaries.append": gb_append}

    def setup_loops(self, c):
        self._v = c.v
        s, e = c.v["start_row"], c.v["end_row"]

        def inv(vv):
            lst = vv.obj(vv.group_boundaries)
            n, g = safe_view(vv.state, lst, IntVal(-1))
            row = s + vv.i
            k, t = z3.Ints("k t")
            return {"boundaries_are_exactly_the_key_changes_so_far":
                    ForAll([k], Implies(And(s <= k, k < row), self.key_differs(c, k) == Exists([t], And(0 <= t, t < n, g(t) == k + 1)))),
                    "boundaries_in_range_and_increasing": And(n >= 0, ForAll([t], Implies(And(0 <= t, t < n), And(s + 1 <= g(t), g(t) <= row))),
                                                              ForAll([t], Implies(And(0 <= t, t + 1 < n), g(t) < g(t + 1))))}
        self.loops = {0: LoopSpec(inv=inv, havoc={"group_boundaries": T.List(T.Int)})}

    def ensures(self, c, out):
        s, e = c.v["start_row"], c.v["end_row"]
        n, g = seq_view(out.state, out.value)
        k, t = z3.Ints("k t")
        return {"exactly_the_key_changes_inside_the_page": ForAll([k], Implies(And(s <= k, k < e), self.key_differs(c, k) == Exists([t], And(0 <= t, t < n, g(t) == k + 1)))),
                "strictly_increasing_inside_the_page": And(ForAll([t], Implies(And(0 <= t, t < n), And(s + 1 <= g(t), g(t) <= e))),
                                                           ForAll([t], Implies(And(0 <= t, t + 1 < n), g(t) < g(t + 1))))}


UNITS = [PaginateDefault(), PaginatePageBy(), PaginateSubline(), GetGroupHeaders(), DetectGroupBoundaries()]
LEMMAS = [LemmaUnit("filter_min_max", lemma_filter_min_max)]


# ---- strategy registry and encoder wiring: finite facts of the real objects (no inputs to quantify over) -------------------------------
def strategy_registry_facts(index):
    """After a UnifiedRTFEncoder is constructed, the registry resolves each strategy name to the class of that name, and the encoder's
    service attributes are instances of the classes the carriers' contracts are stated on."""
    ue = index.real_module("rtflite.encoding.unified_encoder")
    reg = index.real_module("rtflite.pagination.strategies.registry").StrategyRegistry
    enc = ue.UnifiedRTFEncoder()
    defaults = index.real_module("rtflite.pagination.strategies.defaults")
    grouping = index.real_module("rtflite.pagination.strategies.grouping")
    want = {"default": defaults.DefaultPaginationStrategy, "page_by": grouping.PageByStrategy, "subline": grouping.SublineStrategy}
    for name, cls in want.items():
        got = reg.get(name)
        yield (f"C04.registry_resolves_{name}_to_its_strategy_class", got is cls, {"got": getattr(got, "__name__", str(got)), "input": {"strategy_name": name}})
    try:
        reg.get("no_such_strategy")
        unknown = "accepted"
    except ValueError:
        unknown = "ValueError"
    yield ("unknown_strategy_name_is_refused", unknown == "ValueError", {"got": unknown})
    wiring = {"encoding_service": ("rtflite.services.encoding_service", "RTFEncodingService"), "document_service": ("rtflite.services.document_service", "RTFDocumentService"),
              "figure_service": ("rtflite.services.figure_service", "RTFFigureService"), "feature_processor": ("rtflite.pagination.processor", "PageFeatureProcessor"),
              "renderer": ("rtflite.encoding.renderer", "PageRenderer")}
    for attr, (mod, cls) in wiring.items():
        obj = getattr(enc, attr, None)
        yield (f"encoder_{attr}_is_a_{cls}", type(obj) is getattr(index.real_module(mod), cls), {"got": type(obj).__name__})
    # the strategy classes implement paginate themselves (SublineStrategy may inherit helpers from PageByStrategy but not its paginate)
    yield ("each_strategy_defines_its_own_paginate", all("paginate" in vars(c) for c in want.values()), {})


from pyvc.units import TableUnit as _TableUnit
TABLES = [_TableUnit("strategy_registry", strategy_registry_facts)]
