"""Per-property composition: which units decide which property (DESIGN section 4)."""
from pyvc.units import Property, ContractUnit, LemmaUnit, TableUnit, ScanUnit, BoundedUnit

POLARS = "polars (assumed contracts, DESIGN 1.7): to_dicts / DataFrame(list[dict]) round trip, height"
SOLVERS = "z3 5.1 (API), /usr/bin/cvc5 1.0, /usr/bin/z3 4.8 (portfolio; soundness of the SMT solvers)"
ENGINE = "pyvc executor's encoding of the Python subset (DESIGN 1.3): ints exact, floats as reals, dict/list value model"


def C04():
    from contracts.replay_pagination import replay_row_metadata, replay_reserved_rows
    from contracts.replay_docs import replayer_any as DA
    from contracts.pagination_core import AssignPages
    from contracts.replay_pagination import replay_assign_pages
    return Property(
        "C04",
        units=[ContractUnit(AssignPages()), _section_unit()] + _strategy_units() + _budget_units(),
        level="proof",
        technique="loop invariant + postconditions on the real AST of PageBreakCalculator._assign_pages; the three paginate() strategies forward "
                  "page_by / subline_by / new_page (SublineStrategy: new_page=True) and cut pages as the intervals; _encode_body_section picks the subline "
                  "strategy when subline_by is set, else page_by, else default, and hands it the caller's body and the reservation; VCs by z3/cvc5",
        trusted_base=[SOLVERS, ENGINE, POLARS],
        assumptions=["str() injective on non-null group keys of one dtype (the flag computation compares str(value))"],
        replayers={"pagination/core.py::PageBreakCalculator._assign_pages": replay_assign_pages, "pagination/core.py::PageBreakCalculator.calculate_row_metadata": replay_row_metadata,
                   "services/document_service.py::": replay_reserved_rows, "pagination/strategies/": DA(["no_needless_break", "rows_per_page", "cells"]),
                   "encoding/unified_encoder.py::": DA(["no_needless_break", "rows_per_page", "cells"])},
        design_ref="4/C04, A1",
    )


def C06():
    from contracts.placement import ShouldShow, ShouldShowElement, PageBreak, PageSettings, EncodePageSettings
    from contracts.validators_extra import PortraitDefaults, LandscapeDefaults
    from contracts import replayers as R
    from contracts.replay_docs import replayer as D
    return Property(
        "C06",
        units=[ContractUnit(ShouldShow()), ContractUnit(ShouldShowElement()), ContractUnit(PageBreak()), ContractUnit(PageSettings()), ContractUnit(EncodePageSettings()), ContractUnit(PortraitDefaults()), ContractUnit(LandscapeDefaults()), _render_unit(),
               _figure_doc_unit()] + _text_units() + _note_units() + _strategy_units(),
        level="proof",
        technique="postconditions on the placement predicates and on the page-break / page-settings emitters (token view of the built string); "
                  "PageRenderer.render: each component's marker chunk is present exactly when its placement condition holds for this page, at most once, "
                  "in the fixed order break < title < subline < subline heading < figure < column headers < page-top headings < body < footnote < source < figure; "
                  "the text / footnote / source emitters return '' or [] exactly without text",
        trusted_base=[SOLVERS, ENGINE, "round(): deterministic function with |round(x)-x| <= 1/2; floats treated as reals (L3)",
                      "RTF reader interprets \\paperw/\\paperh/\\marg* as the specification says (L4)"],
        assumptions=["RenderPage abstracts each callee's chunk sequence by one marker chunk (render only appends / extends); the 2-level page_by variant "
                     "of RenderPage runs in the thorough tier only (quick: no page_by headings and 1 level)",
                     "RTFFigureService.encode_figure: unit EncodeFigure (C16); the multi-section page loop (_encode_multi_section) is not yet under "
                     "contract in this check; figure documents: unit FigureOnly"],
        replayers={"services/document_service.py::RTFDocumentService.generate_page_break": R.replay_page_geometry,
                   "rtf/syntax.py::RTFSyntaxGenerator.generate_page_settings": R.replay_page_geometry,
                   "encoding/renderer.py::PageRenderer._should_show": R.replay_should_show,
                   "pagination/processor.py::PageFeatureProcessor._should_show_element": R.replay_should_show,
                   "pagination/strategies/*": D("header_repeat"), "encoding/renderer.py::PageRenderer.render": D("placement"), "encoding/unified_encoder.py::": D("placement"), "services/encoding_service.py::": D("placement"), "attributes.py::": D("placement"), "encoding/unified_encoder.py::UnifiedRTFEncoder._encode_figure_only": R.replay_figure_document},
        design_ref="4/C06, A15-A16",
    )


def C08():
    from contracts.row import ColWidths, InchToTwip, LEMMAS
    from contracts.attributes import EncodeRows
    from contracts.emitters import CellAsRtf, RowAsRtf
    from contracts.renderer import RenderBody
    from contracts.spanning import EncodeSpanningRow
    from contracts.headers import EncodeColumnHeader, RenderColumnHeaders
    from contracts.document_init import DocumentInit
    from contracts import replayers as R
    from contracts.replay_docs import replayer as D
    return Property(
        "C08",
        units=[ContractUnit(ColWidths()), ContractUnit(InchToTwip()), ContractUnit(EncodeRows()), ContractUnit(CellAsRtf()), ContractUnit(RowAsRtf()),
               ContractUnit(EncodeSpanningRow()), ContractUnit(RenderBody(), variants=["levels1", "levels2", "no_boundaries"]),
               ContractUnit(EncodeColumnHeader()), ContractUnit(RenderColumnHeaders()), _render_unit(quick=("groups1",), thorough=("groups2",)), _section_unit(), _prepare_unit(), ContractUnit(DocumentInit())]
        + _note_units() + LEMMAS,
        level="proof",
        technique="comprehension invariant cum*total == col_width*P[i] (nonlinear real arithmetic) on the real Utils._col_widths; inductive lemma for prefix "
                  "sums; every data cell's width is col_widths[j] (constructor obligation in the real _encode), every cell ends with \\cellx round(1440*width), "
                  "a row emits its cells in order, a group heading row is one cell of width page_width and _render_body passes the table width for it "
                  "and the page's col_widths for the data rows; every column header is laid out on the table width with exactly one relative width per "
                  "header cell (inherited full-table widths are replaced by the displayed columns' widths)",
        trusted_base=[SOLVERS, ENGINE, "floats treated as reals (L3): 'within one twip' is exact in the model"],
        assumptions=["RTFDocument.__init__ sets default / broadcast / inherited relative widths (unit DocumentInit: per-object obligations on lazily allocated "
                     "section bodies and headers), prepare_dataframe_for_body_encoding slices them to the displayed columns (unit PrepareFrame) and "
                     "_encode_body_section turns them into the page boundaries (unit EncodeBodySection); these units are composed by their stated contracts, "
                     "the composition itself (one end-to-end lemma) is not machine checked; "
                     "RenderColumnHeaders assumes their results: the page carries one relative width per displayed column and every header has widths",
                     "header labels are one per displayed column or one per own relative width (other shapes are configuration errors outside the property)",
                     "nested (multi-section) header lists are not covered by RenderColumnHeaders"],
        replayers={"row.py::Utils._col_widths": R.replay_col_widths, "row.py::Utils._inch_to_twip": R.replay_inch_to_twip,
                   "*spanning*": D("spanning_edges"), "*_render_column_headers*": D("edges"), "*encode_column_header*": D("edges"),
                   "encode.py::RTFDocument.__init__": R.replay_document_init,
                   "*_render_body*": D("spanning_edges"), "services/encoding_service.py::RTFEncodingService.prepare_dataframe_for_body_encoding": D("proportional"), "encoding/unified_encoder.py::": D("proportional"), "attributes.py::TableAttributes._encode": D("proportional")},
        design_ref="4/C08, A4",
    )


def C10():
    from contracts.row import ConvertSpecialChars
    from contracts.headers import SublineHeader
    from contracts.emitters import TextAsRtf
    from contracts import replayers as R
    from contracts.validators_doc import TextToSequence, ProcessTextConversion
    return Property(
        "C10",
        units=[ContractUnit(ConvertSpecialChars()), ContractUnit(SublineHeader()), ContractUnit(TextAsRtf()), ContractUnit(TextToSequence()),
               ContractUnit(ProcessTextConversion())] + _text_units(),
        level="proof",
        technique="per-character obligations over a symbolic code point (all scalar values at once) inside the loop invariant of the real "
                  "TextContent._convert_special_chars: ASCII output, signed 16-bit \\u range, decode(piece) == character incl. surrogate pairs",
        trusted_base=[SOLVERS, ENGINE, "homomorphism laws of decode/ascii over string concatenation (DESIGN 1.5)",
                      "RTF 1.9 \\u / \\uc decode rule (L4)", "str.replace / LaTeX pass as uninterpreted functions (their output is the loop's input)"],
        assumptions=["domain: Unicode scalar values except C0/C1 controls and the raw RTF metacharacters \\ { } (C01's hypothesis on text)",
                     "the cell / paragraph / plain templates of TextContent._as_rtf and the subline_by heading use the escaped text exactly once (units "
                     "TextAsRtf, SublineHeader); the paragraph_format re-wrap in _encode_text receives only escaped runs (unit EncodeText)"],
        replayers={"row.py::TextContent._convert_special_chars": R.replay_convert_special_chars, "encoding/": R.replay_unicode_document,
                   "services/": R.replay_unicode_document, "attributes.py::": R.replay_unicode_document, "row.py::TextContent._as_rtf": R.replay_unicode_document, "input.py::": R.replay_unicode_document},
        design_ref="4/C10, A13",
    )


def C12():
    from contracts.colors import GetRtfColorIndex, GenerateColorTable, LEMMAS, TABLES
    from contracts.encoder import EncodeCtx
    from contracts.color_glue import UNITS as GLUE
    from contracts.attributes import EncodeRows
    from contracts import replayers as R
    return Property(
        "C12",
        units=[ContractUnit(GetRtfColorIndex()), ContractUnit(GenerateColorTable()), ContractUnit(EncodeCtx()), ContractUnit(EncodeRows())] + [ContractUnit(u) for u in GLUE] + LEMMAS + TABLES,
        level="proof",
        technique="both functions are shown to compute the same sorted(filter(used)) term; index contract + table loop invariant + composition "
                  "lemma table[idx(c)] == rgb(c); real colour tables checked exhaustively; glue: Utils._get_color_index asks the service for exactly this colour and "
                  "list (0 for '' / black), encode_color_table generates the table from collect_document_colors(this document)",
        trusted_base=[SOLVERS, ENGINE, "stdlib: filtering comprehension, sorted(key=), list.index as functions of the input list with their defining axioms (DESIGN 1.7)"],
        assumptions=["collect_document_colors coverage of every emitted colour attribute and font-table references are not yet under contract in this check"],
        replayers={"services/color_service.py::ColorService": R.replay_color_index, "lemma::c12": R.replay_color_index, "row.py::": R.replay_colour_references, "table::colour_context_frame": R.replay_colour_references,
                   "attributes.py::": R.replay_colour_references,
                   "services/encoding_service.py::": R.replay_colour_references, "rtf/syntax.py::": R.replay_colour_references,
                   "encoding/unified_encoder.py::UnifiedRTFEncoder.encode": R.replay_purity, "table::colour_collection": R.replay_colour_collection},
        design_ref="4/C12, A17",
    )


def C16():
    from contracts.figures import UNITS, TABLES
    from contracts import replayers as R
    return Property(
        "C16",
        units=[ContractUnit(u) for u in UNITS] + [_figure_doc_unit()] + _figure_extra_units() + TABLES,
        level="proof",
        technique="loop invariant on the 80-character windows of data.hex(); byte-layout postconditions for PNG/JPEG headers; token view of the "
                  "picture group; exhaustive suffix table; per-page obligations on the real _encode_figure_only: page i embeds figure i with its own "
                  "format and the i-th width / height, one figure per page, a page break exactly between consecutive figures, title / footnote / "
                  "source on exactly the selected pages; the same per-figure obligations on RTFFigureService.encode_figure (figure beside a table); "
                  "_read_image_data opens the given path 'rb' and returns the whole read; validate_figure_data keeps the path list in the given order",
        trusted_base=[SOLVERS, ENGINE, "bytes.hex / str slicing / struct.unpack big-endian (assumed, DESIGN 1.7)",
                      "concatenating consecutive windows covering [0, L) yields the string (fact about strings)"],
        assumptions=["FigureOnly / EncodeFigure use rtf_read_figure through its contract (unit ReadFigure: one (bytes, format) per path, in order); "
                     "open(path,'rb') / f.read() and Path.exists are assumed file-system contracts (unit ReadImageData binds path, mode and the whole-file read); the appended parts of _encode_figure_only are observed through a handler on "
                     "parts.append (the function only appends)"],
        replayers={"services/figure_service.py::RTFFigureService": R.replay_figures, "encoding/unified_encoder.py::UnifiedRTFEncoder._encode_figure_only": R.replay_figure_document, "figure.py::": R.replay_figure_document, "figure.py::_read_image_data": R.replay_figures, "figure.py::rtf_read_figure": R.replay_figures, "input.py::": R.replay_figures},
        design_ref="4/C16, A19",
    )


def C19():
    import contracts.validators as V
    import contracts.validators_extra as VX
    import contracts.validators_doc as VD
    from contracts import replayers as R

    class _Lazy(ContractUnit):
        pass
    units = []

    class ValidatorUnits:
        kind = "contract"
        deductive = True
        name = "validators"

        def run(self, index, tier, seed):
            out = []
            for u in V.build_units(index):
                out.extend(ContractUnit(u).run(index, tier, seed))
            return out
    return Property(
        "C19",
        units=[ValidatorUnits()] + [ContractUnit(u) for u in VX.UNITS if "C19" in u.serves] + [ContractUnit(u) for u in VD.UNITS if "C19" in u.serves],
        level="proof",
        technique="exceptional postconditions on the real validators: returns iff all elements legal (loop invariants over flat / jagged nested "
                  "values), raises only subclasses of ValueError; attribute existence taken from the real classes",
        trusted_base=[SOLVERS, ENGINE, "pydantic runs the registered validators on construction and wraps ValueError into ValidationError (L1)"],
        assumptions=["the decorator-coverage lemma (which validator pydantic runs for which field) is not under contract in this check; "
                     "validate_column_names uses _validate_section_columns through its contract (unit ValidateSectionColumns)",
                     "empty vectors ([]) are outside the property's domain (validate_positive_value indexes v[0])"],
        replayers={"attributes.py::": R.replay_validators, "input.py::": R.replay_validators, "encode.py::": R.replay_validators},
        design_ref="4/C19, A22",
    )


def C18():
    from contracts.exports import UNITS
    from contracts.encoder import RtfEncodeEntry, EngineEncodeDocument, EncodeCtx
    from contracts import replayers as R
    return Property(
        "C18",
        units=[ContractUnit(u) for u in UNITS] + [ContractUnit(RtfEncodeEntry()), ContractUnit(EngineEncodeDocument()), ContractUnit(EncodeCtx())],
        level="proof",
        technique="effect-trace contracts on the real write_rtf/write_docx/write_html/write_pdf bodies with a raise point injected at the "
                  "encode and conversion calls (before, after output, malformed result); trace obligations per exit path",
        trusted_base=[SOLVERS, ENGINE, "pathlib / tempfile.TemporaryDirectory / shutil.move assumed contracts (DESIGN 1.7)",
                      "converter contract: writes only under output_dir and returns its result path; a failed converter process raises (unit ConvertSingleFile: "
                      "a result only after exit status 0 and an existing output file); subprocess.run(check=True) raises exactly on a non-zero status"],
        assumptions=["faults are injected at the encoding and conversion calls (the property's 'encoding or conversion fails'), not inside "
                     "mkdir/write_text/shutil.move; write_html's second move (resources folder) after a successful first move is outside the clause",
                     "rtf_encode() itself performs no file-system write (frame scan: separate unit, not yet in this check)"],
        replayers={"encode.py::RTFDocument.write_": R.replay_exports, "convert.py::": R.replay_converter, "encode.py::RTFDocument.rtf_encode": R.replay_failing_encode_exports, "encoding/": R.replay_failing_encode_exports},
        design_ref="4/C18, A21",
    )


def C14():
    from contracts.frames import UNITS_SCAN
    from contracts.encoder import EncodeCtx, ENTRY_UNITS
    from contracts.document_init import DocumentInit
    from contracts.attributes import UpdateCell, UpdateRow
    from contracts import replayers as R
    return Property(
        "C14",
        units=[UNITS_SCAN[0], ContractUnit(DocumentInit()), ContractUnit(EncodeCtx()), ContractUnit(UpdateCell()), ContractUnit(UpdateRow())] + [ContractUnit(u) for u in ENTRY_UNITS],
        level="proof",
        technique="frame (modifies) contract over the encode call graph: every store/mutator site of the real AST must be justified by a "
                  "mechanically checked rule; colour-context protocol proved on the real UnifiedRTFEncoder.encode with a fault injected at every call; "
                  "strict frame on the real RTFDocument.__init__ (symbolic execution: every store goes to the document itself or to a copy it made, "
                  "never to a component object handed in by the caller)",
        trusted_base=[SOLVERS, ENGINE, "library internals (polars, pydantic, Pillow) keep no cross-call state visible to rtflite",
                      "call graph over-approximated by method name; fresh-expression rules of pyvc/frames.py"],
        assumptions=["pydantic: model_copy() returns a new object with the same field values (assumed); RTFDocument._apply_table_spacing is used through "
                     "a summary in unit DocumentInit (its branch needs text_indent_reference == 'table', which the list-valued field never equals)"],
        replayers={"table::": R.replay_purity, "encoding/unified_encoder.py::UnifiedRTFEncoder.encode": R.replay_purity,
                   "attributes.py::BroadcastValue": R.replay_broadcast, "encode.py::": R.replay_purity, "encoding/engine.py::": R.replay_purity},
        design_ref="4/C14, 1.6",
    )


def C15():
    from contracts.frames import UNITS_SCAN
    from contracts.encoder import EncodeCtx, ENTRY_UNITS
    from contracts import replayers as R
    return Property(
        "C15",
        units=[UNITS_SCAN[0], ContractUnit(EncodeCtx())] + [ContractUnit(u) for u in ENTRY_UNITS],
        level="proof",
        technique="sufficient condition: no state shared between threads is written during rtf_encode (frame contract over the call graph); the "
                  "colour context is context-local and set/cleared around every pipeline call",
        trusted_base=[SOLVERS, ENGINE, "CPython: threads share only module/class state and arguments; dict stores are GIL-atomic; "
                      "contextvars are per thread", "library internals are thread-safe for independent inputs"],
        assumptions=["concurrently encoded documents share no mutable component objects",
                     "a lock-based design would be undecided for this technique, not violated (L6)"],
        replayers={"table::": R.replay_threads, "encoding/unified_encoder.py::UnifiedRTFEncoder.encode": R.replay_threads, "encode.py::": R.replay_threads,
                   "encoding/engine.py::": R.replay_threads},
        design_ref="4/C15, 1.6",
    )


def C01():
    from contracts.emitters import UNITS as EM
    from contracts.processor import PaginationBorders
    from contracts.attributes import EncodeRows, Iloc, ToList, UpdateCell
    from contracts.encoder import EncodeCtx
    from contracts.row import ColWidths, ConvertSpecialChars, LEMMAS
    from contracts.placement import PageBreak, PageSettings, EncodePageSettings
    from contracts.figures import EncodeSingleFigure
    from contracts.colors import GenerateColorTable
    from contracts.headers import EncodeColumnHeader, RenderColumnHeaders, SublineHeader
    from contracts.spanning import EncodeSpanningRow
    from contracts import replayers as R
    from contracts.replay_docs import replayer as D
    units = [ContractUnit(u) for u in EM] + [ContractUnit(EncodeRows()), ContractUnit(EncodeCtx()), ContractUnit(ColWidths()),
             ContractUnit(ConvertSpecialChars()), ContractUnit(PageBreak()), ContractUnit(PageSettings()), ContractUnit(EncodePageSettings()), ContractUnit(EncodeSingleFigure()),
             ContractUnit(GenerateColorTable()), ContractUnit(EncodeColumnHeader()), ContractUnit(RenderColumnHeaders()),
             ContractUnit(SublineHeader()), ContractUnit(EncodeSpanningRow()), _figure_doc_unit(), _multi_section_unit(),
             ContractUnit(Iloc()), ContractUnit(ToList()), ContractUnit(UpdateCell()),
             ContractUnit(PaginationBorders(), variants=["middle.rowsN", "last_notfirst.rowsN"])] + _text_units() + _note_units() + LEMMAS
    return Property(
        "C01", units=units, level="proof",
        technique="measure contracts (brace balance / minimal prefix balance / ASCII / integral parameters) on the real emitters' f-strings, row-shape "
                  "contract #cellx == #cell, document skeleton and prolog order on UnifiedRTFEncoder.encode, safety obligations (implicit exceptions) in every unit; "
                  "BroadcastValue.iloc / to_list / update_cell: the expanded grid has the full table shape for every pattern length (no IndexError downstream)",
        trusted_base=[SOLVERS, ENGINE, "homomorphism laws of bal/low/ascii over concatenation (DESIGN 1.5)", "RTF reader reads the literal chunk shapes as the RTF specification says (L4)",
                      "pydantic model construction = record construction after declared-type coercion"],
        assumptions=["user text is balanced w.r.t. unescaped braces (the property's own hypothesis)",
                     "the chunk join of PageRenderer.render is not under contract in this check; the multi-section skeleton with a flat header list runs "
                     "in the thorough tier only; totality of the pydantic/polars glue is assumed (L2)"],
        replayers={"row.py::TextContent._convert_special_chars": R.replay_convert_special_chars, "row.py::Utils._col_widths": R.replay_col_widths,
                   "services/document_service.py::": R.replay_page_geometry, "rtf/syntax.py::": R.replay_page_geometry,
                   "services/figure_service.py::": R.replay_figures, "services/color_service.py::": R.replay_color_index,
                   "encoding/unified_encoder.py::": R.replay_purity, "encoding/renderer.py::": D("wellformed"),
                   "services/encoding_service.py::": D("wellformed"), "attributes.py::": D("wellformed"), "pagination/": D("wellformed")},
        design_ref="4/C01, A14")


def _text_units():
    from contracts.textattrs import UNITS, LEMMAS
    return [ContractUnit(u) for u in UNITS] + LEMMAS


def _note_units():
    from contracts.notes import UNITS
    return [ContractUnit(u) for u in UNITS]


def _render_unit(quick=("no_groups", "groups1"), thorough=("groups2",)):
    from contracts.page_render import RenderPage
    return ContractUnit(RenderPage(), variants=list(quick), thorough_variants=list(thorough))


def _section_unit():
    from contracts.body_section import EncodeBodySection
    return ContractUnit(EncodeBodySection())


def _prepare_unit():
    from contracts.prepare import PrepareFrame
    return ContractUnit(PrepareFrame())


def _figure_doc_unit():
    from contracts.figure_doc import FigureOnly
    return ContractUnit(FigureOnly())


def _figure_extra_units():
    from contracts.figure_doc import EncodeFigure, ReadImageData
    from contracts.validators_doc import ValidateFigureData
    return [ContractUnit(EncodeFigure()), ContractUnit(ReadImageData()), ContractUnit(ValidateFigureData())]


def _multi_section_unit():
    from contracts.multi_section import MultiSection
    return ContractUnit(MultiSection(), variants=["nested_headers"], thorough_variants=["flat_headers"])


def _component_init_units():
    from contracts.component_init import UNITS
    return [ContractUnit(u) for u in UNITS]


def _budget_units():
    from contracts.budget import UNITS, LEMMAS
    return [ContractUnit(u) for u in UNITS] + LEMMAS


def _strategy_units():
    from contracts.strategies import UNITS, LEMMAS, TABLES
    return [ContractUnit(u) for u in UNITS] + LEMMAS + TABLES


def C02():
    from contracts import replayers as R2
    from contracts.attributes import EncodeRows
    from contracts.renderer import RenderBody
    from contracts.emitters import RowAsRtf, TextAsRtf
    from contracts.pagination_core import AssignPages
    from contracts.replay_pagination import replay_assign_pages
    from contracts.replay_docs import replayer as D
    from contracts.postprocess import ApplyDataPostProcessing
    return Property(
        "C02", units=[ContractUnit(EncodeRows()), ContractUnit(RenderBody()), ContractUnit(RowAsRtf()), ContractUnit(TextAsRtf()), ContractUnit(AssignPages()),
                      ContractUnit(ApplyDataPostProcessing()), _section_unit(), _prepare_unit(), _multi_section_unit()]
        + _strategy_units() + _component_init_units(),
        level="proof",
        technique="row-view contracts: _assign_pages pages are consecutive intervals covering all rows; _render_body emits every page row exactly once in order; "
                  "_encode emits one Row per frame row whose cell j shows the display text of cell (i, j) in column order; Row._as_rtf keeps cell order; one delimiter space before the text",
        trusted_base=[SOLVERS, ENGINE, POLARS, "polars slice / df[a:b] row-interval semantics (assumed)"],
        assumptions=["PrepareFrame abstracts type(attrs).model_fields by representative fields and assumes the filter / select / unique-column-name contracts "
                     "(KEPT enumeration); multi-section order: unit MultiSection; calculate_row_metadata is used through AssignPages' ensures"],
        replayers={"pagination/core.py::PageBreakCalculator._assign_pages": replay_assign_pages,
                   "encoding/renderer.py::PageRenderer._render_body": D("cells"), "attributes.py::TableAttributes._encode": D("cells"),
                   "encoding/unified_encoder.py::": D("cells"), "pagination/strategies/": D("cells"), "input.py::": R2.replay_component_keywords,
                   "services/encoding_service.py::": D("cells")},
        design_ref="4/C02")


def C05():
    from contracts.renderer import RenderBody
    from contracts.headers import SublineHeader
    from contracts.spanning import EncodeSpanningRow
    from contracts.replay_docs import replayer as D, replayer_any as DA
    from contracts.validators_doc import BodyKeysValidator
    from contracts.budget import RowMetadata
    return Property(
        "C05", units=[ContractUnit(RenderBody()), ContractUnit(SublineHeader()), ContractUnit(EncodeSpanningRow()), _render_unit(quick=("groups1",)),
                      ContractUnit(BodyKeysValidator()), ContractUnit(RowMetadata())]
        + _strategy_units(), level="proof",
        technique="ghost heading state (displayed value and position per page_by level) in the loop invariant of the real PageRenderer._render_body, "
                  "inner level loop unrolled for the property's 1-3 levels; obligations at every row emission",
        trusted_base=[SOLVERS, ENGINE, POLARS],
        assumptions=["str() injective on non-null keys; a non-null key's text is not the literal 'None'",
                     "render step 7 (page-top headings) is under contract for 1 level in the quick tier and 2 levels in the thorough tier; that "
                     "pageby_header_info carries the first row's values is the strategies' contract (GetGroupHeaders)"],
        replayers={"encoding/renderer.py::": DA(["headings", "heading_count"]), "pagination/": DA(["headings", "heading_count"]),
                   "encoding/unified_encoder.py::": DA(["headings", "heading_count"]), "services/encoding_service.py::": DA(["headings", "heading_count"]),
                   "input.py::": DA(["headings", "heading_count"])}, design_ref="4/C05, A7")


def C07():
    from contracts.processor import PaginationBorders, ProcessPage
    from contracts.replay_docs import replayer as D
    from contracts.headers import RenderColumnHeaders
    from contracts.attributes import UpdateCell, UpdateRow, ToList, Iloc, LEMMAS
    from contracts.emitters import CellAsRtf, BorderAsRtf
    from contracts.placement import ShouldShowElement
    return Property(
        "C07", units=[ContractUnit(PaginationBorders()), ContractUnit(ProcessPage()), ContractUnit(UpdateCell()), ContractUnit(UpdateRow()), ContractUnit(ToList()), ContractUnit(Iloc()),
                      ContractUnit(CellAsRtf()), ContractUnit(BorderAsRtf()), ContractUnit(ShouldShowElement()), _render_unit(quick=("no_groups",), thorough=()), _multi_section_unit(), ContractUnit(RenderColumnHeaders())]
        + _note_units() + LEMMAS,
        level="proof",
        technique="whole-matrix postcondition of the real _apply_pagination_borders per page kind (column-loop invariants 'columns < c done, everything else "
                  "as before'), whole-view contracts of BroadcastValue.update_cell/to_list, emitter contracts for the cell border words",
        trusted_base=[SOLVERS, ENGINE, POLARS, "copy.deepcopy returns a fresh equal object graph"],
        assumptions=["rtf_page.border_first goes on every cell of the first header row of the first page and nowhere else (unit RenderColumnHeaders; the code "
                     "looks only at header 0); multi-section "
                     "documents: first / last page border only on the first / last section (unit MultiSection); the component override computed by the processor (_apply_footnote_source_borders) reaches the "
                     "footnote/source emitters through render (unit RenderPage) and is applied on a copy (units EncodeFootnote/EncodeSource)"],
        replayers={"pagination/processor.py::": D("borders"), "encoding/renderer.py::PageRenderer._render_column_headers": D("borders"),
                   "services/encoding_service.py::": D("borders"), "encoding/unified_encoder.py::": D("borders"), "attributes.py::": D("borders")}, design_ref="4/C07")


def C09():
    from contracts.attributes import Iloc, ToList, UpdateCell, EncodeRows, ToNestedList, LEMMAS
    from contracts.renderer import RenderBody
    from contracts.processor import PaginationBorders, ProcessPage
    from contracts.emitters import CellAsRtf, BorderAsRtf, TextFormatting, ParagraphFormatting
    from contracts import replayers as R
    from contracts.replay_docs import replayer as D
    return Property(
        "C09", units=[ContractUnit(Iloc()), ContractUnit(ToList()), ContractUnit(UpdateCell()), ContractUnit(ToNestedList()), ContractUnit(EncodeRows()), ContractUnit(RenderBody()),
                      ContractUnit(PaginationBorders()), ContractUnit(ProcessPage()), ContractUnit(CellAsRtf()), ContractUnit(BorderAsRtf()), ContractUnit(TextFormatting()),
                      ContractUnit(ParagraphFormatting()), _prepare_unit(), _section_unit()] + LEMMAS + _strategy_units(),
        level="proof",
        technique="binding obligations at every constructor call of the real TableAttributes._encode: each formatting field of cell (i, j) is "
                  "attr.iloc(i + row_offset, j); BroadcastValue.iloc = value[r mod R][c mod C]; _render_body passes the page-relative offset; emitters emit every field",
        trusted_base=[SOLVERS, ENGINE, POLARS],
        assumptions=["the attribute column slicing after page_by/subline_by removal is proved for representative fields of type(attrs).model_fields (unit PrepareFrame)",
                     "PaginationBorders models type(page_attrs).model_fields by the two border matrices, the one-row border_first / border_last and one generic matrix attribute enumerated under a symbolic name (any nested-list field of the real class)"],
        replayers={"attributes.py::BroadcastValue": R.replay_broadcast, "encoding/renderer.py::PageRenderer._render_body": D("row_offset"),
                   "attributes.py::TableAttributes._encode": D("row_offset"), "attributes.py::TableAttributes._encode#C09.border": D("border_widths"), "services/encoding_service.py::": D("row_offset"), "pagination/": D("row_offset")}, design_ref="4/C09, A5-A6")


def C13():
    from contracts.grouping import UNITS, LEMMAS
    from contracts.postprocess import ApplyDataPostProcessing
    from contracts.validators_doc import BodyKeysValidator
    from contracts import replayers as R
    return Property(
        "C13", units=[ContractUnit(u) for u in UNITS] + [ContractUnit(ApplyDataPostProcessing(), variants=["group_by"]), ContractUnit(BodyKeysValidator()),
                      _prepare_unit()] + LEMMAS, level="proof",
        technique="Kleene-semantics model of the polars expression fragment; whole-frame postconditions on the real _suppress_single_column / "
                  "_suppress_hierarchical_columns (2 and 3 levels) / restore_page_context (loop invariant over page starts) / validate_data_sorting "
                  "(seen-set invariant, exceptional postcondition) + contiguity lemma; enhance_group_by (the dispatcher): order validated for exactly these "
                  "keys before any suppression, one key -> single-column suppressor with that key, more -> hierarchical suppressor with all keys, on a "
                  "value-equal copy of the frame",
        trusted_base=[SOLVERS, ENGINE, "polars expression semantics as modelled in pyvc/libmodels/polars_expr.py (Kleene nulls, shift, when/then/otherwise, "
                      "with_columns evaluating pl.col on its receiver); null is a single value"],
        assumptions=["the deeper levels of validate_data_sorting (composite string key; injectivity precondition) are not yet under contract in this check; "
                     "the page start indices handed to restore_page_context are proved to be the first rows of pages 2..P (unit ApplyDataPostProcessing)"],
        replayers={"services/grouping_service.py::": R.replay_grouping, "encoding/unified_encoder.py::": R.replay_group_by_pipeline,
                   "input.py::": R.replay_group_by_pipeline, "services/encoding_service.py::": R.replay_group_by_pipeline}, design_ref="4/C13, A18")


def C20():
    from contracts.strwidth import UNITS, LEMMAS, TABLES, BOUNDED
    return Property(
        "C20", units=[ContractUnit(u) for u in UNITS] + LEMMAS + TABLES + BOUNDED, level="other",
        technique="postcondition on the real get_string_width: result = unit conversion of Pillow's getlength for the font file of the number/name; "
                  "ValueError only for unsupported font/unit; lemma: conversions are positive scalings, so every metric fact transfers from Pillow's "
                  "G; G's facts themselves by a bounded audit (labelled bounded)",
        trusted_base=[SOLVERS, ENGINE, "Pillow/FreeType getlength is a function of (font file, size, text) (assumed); its metric facts are NOT proved: bounded audit only"],
        assumptions=["machine arithmetic treated as mathematical (exact unit conversions hold over the reals)"],
        replayers={}, design_ref="4/C20, A23")


def C11():
    from contracts.textconv import UNITS, TABLES, BOUNDED
    from contracts.textattrs import EncodeText
    from contracts.headers import SublineHeader
    from contracts.spanning import EncodeSpanningRow
    from contracts.row import ConvertSpecialChars
    from contracts.attributes import EncodeRows
    from contracts import replayers as R
    return Property(
        "C11", units=[ContractUnit(u) for u in UNITS] + [ContractUnit(ConvertSpecialChars()), ContractUnit(EncodeRows()), ContractUnit(EncodeText()),
                      ContractUnit(SublineHeader()), ContractUnit(EncodeSpanningRow())] + _component_init_units() + TABLES + BOUNDED, level="other",
        technique="gating and dispatch contracts on the real convert_text_content / _convert_single_text / convert_latex_to_unicode (the whole text is scanned "
                  "once by the converter's own pattern, a match is replaced by the lookup of the whole token) / _convert_single_command / _convert_special_chars (convert off = "
                  "verbatim + escaping; per-cell binding of text_convert); the real tables (ordered literal mapping, 682 symbols, token pattern, "
                  "component defaults) evaluated exhaustively; bounded residual: real pipeline vs an independent reference converter over commands x templates",
        trusted_base=[SOLVERS, ENGINE, "str.replace / re.sub implement left-to-right non-overlapping replacement (assumed, L5); the LaTeX pass as a whole is an uninterpreted function in the proofs"],
        assumptions=["token language: the real pattern string is compared with the documented one (string equality, not language equivalence)",
                     "title / footnote / source lines bind text_convert at their own row (unit EncodeText); the subline_by heading is never LaTeX-converted "
                     "(unit SublineHeader); a page_by group heading converts exactly when the body's text_convert at its column says so (unit EncodeSpanningRow); "
                     "what encode_spanning_row does when the attribute is unset (no RTFBody leaves it unset) is not constrained",
                     "re: pattern.sub(f, s) and Match.group(0) are assumed contracts (unit ConvertLatexToUnicode binds the pattern object, the scanned text and "
                     "the replacement function); a failing converter leaves the text unconverted (code-derived clause of _convert_single_text)"],
        replayers={"text_conversion/": R.replay_text_conversion, "services/text_conversion_service.py::": R.replay_text_conversion,
                   "row.py::": R.replay_text_conversion, "table::conversion_tables": R.replay_text_conversion, "input.py::": R.replay_component_keywords}, design_ref="4/C11")


def C17():
    from contracts.assemble import UNITS, LEMMAS, BOUNDED
    from contracts.encoder import EncodeCtx
    from contracts import replayers as R
    return Property(
        "C17", units=[ContractUnit(u) for u in UNITS] + LEMMAS + BOUNDED + [ContractUnit(EncodeCtx()), _figure_doc_unit(), _multi_section_unit()], level="proof",
        technique="loop invariants with ghost offsets on the real assemble_rtf (lines as opaque values): output = first input minus its lone closing line, "
                  "then per later input '\\page' + its lines from find_start_index on; nested find_start_index proved = last fcharset line + 2; effect "
                  "trace: existence check before any open, nothing written for [] or a missing input, one write to the output path",
        trusted_base=[SOLVERS, ENGINE, "open/readlines/writelines/os.path.exists as functions of the path during the call (assumed)",
                      "layout of files written by rtflite (font table ends two lines before the body; last line is a lone closing brace): C01 skeleton + bounded read-back"],
        assumptions=["inputs are non-empty files written by rtflite (C01 documents)",
                     "well-formedness of the assembled text follows from the structural contract plus the layout assumption (skeleton units EncodeCtx / FigureOnly / "
                     "MultiSection: the document's closing chunk is appended last, on its own line); the read-back of real assembled files is a bounded stand-in"],
        replayers={"assemble.py::": R.replay_assemble, "encoding/unified_encoder.py::": R.replay_assemble}, design_ref="4/C17, A20")


def C03():
    from contracts.replay_pagination import replay_row_metadata, replay_reserved_rows
    from contracts.pagination_core import AssignPages
    from contracts.headers import RenderColumnHeaders
    from contracts.strwidth import GetStringWidth
    from contracts.replay_pagination import replay_assign_pages
    from contracts.renderer import RenderBody
    from contracts.validators_extra import PortraitDefaults, LandscapeDefaults
    from contracts.replay_docs import replayer_any
    DOCS = replayer_any(["heading_count", "rows_per_page"])
    return Property(
        "C03", units=_budget_units() + [ContractUnit(AssignPages()), ContractUnit(GetStringWidth()), _section_unit(), ContractUnit(RenderColumnHeaders()),
                                        ContractUnit(RenderBody()), ContractUnit(PortraitDefaults()), ContractUnit(LandscapeDefaults())]
        + _strategy_units(), level="proof",
        technique="budget inequalities carried by contracts on the real code: reserved rows = [subline] + #headers with text + [footnote] + [source] "
                  "(counting invariant); per row data_rows >= 1 and >= int(W/width)+1 >= ceil(W/width) for every displayed cell at that cell's own font and "
                  "size (column-loop invariant with ghost displayed-column count); total = data + page_by heading rows; _assign_pages keeps every page's "
                  "sum within max(1, nrow - reserved) or to a single row; composition lemmas",
        trusted_base=[SOLVERS, ENGINE, POLARS, "W = get_string_width is the line-width oracle the property names; floats as reals (L3)"],
        assumptions=["rendered <= reserved is checked for column headers (a header row is rendered only for a header whose own text is set, which is what the "
                     "reservation counts; the auto-populated default header is the recorded known finding) and for the page_by headings inside a page (unit RenderBody: a "
                     "heading row only for a level at or below a level whose value changes at that group start, which is what RowMetadata counts); for "
                     "table-rendered footnote/source rows the comparison is by the reservation count only",
                     "one column width per displayed column and the reservation reaching the strategy are proved at the call site (unit EncodeBodySection) "
                     "relative to the assumed result of prepare_dataframe_for_body_encoding"],
        replayers={"pagination/core.py::PageBreakCalculator._assign_pages": replay_assign_pages, "pagination/core.py::PageBreakCalculator.calculate_row_metadata": replay_row_metadata, "services/document_service.py::": replay_reserved_rows,
                   "encoding/renderer.py::": DOCS, "encoding/unified_encoder.py::": DOCS, "pagination/strategies/": DOCS, "pagination/core.py::PageBreakCalculator._calculate_header_rows": replay_row_metadata},
        design_ref="4/C03, A2-A3")


def _shared_replayers(make):
    """Units shared by several properties bring their native replayer with them (unless the property names one for that unit)."""
    def g():
        p = make()
        if any(getattr(u, "name", "") == "strategy_registry" for u in p.units):
            from contracts.replay_docs import replayer_any as DA
            p.replayers.setdefault("table::strategy_registry", DA(["no_needless_break", "headings", "heading_count", "cells", "wellformed"]))
        return p
    g.__name__ = make.__name__
    return g


C02, C03, C04, C05, C06, C09 = (_shared_replayers(f) for f in (C02, C03, C04, C05, C06, C09))
PROPERTIES = {"C03": C03, "C17": C17, "C11": C11, "C20": C20, "C13": C13, "C01": C01, "C02": C02, "C05": C05, "C07": C07, "C09": C09, "C14": C14, "C15": C15, "C18": C18, "C04": C04, "C06": C06, "C08": C08, "C10": C10, "C12": C12, "C16": C16, "C19": C19}

# ---- texts for MANIFEST.json (tools/gen_manifest.py) ------------------------------------------------------
MANIFEST_TEXT = {
    "C01": {
        "text": "For the emitters that build every RTF fragment (border, cell, paragraph/text formatting, text run, row, data rows, page break, page "
                "settings, colour table, picture group) the real f-strings are shown brace-balanced with non-negative prefix balance, ASCII, with integral "
                "numeric parameters; a row has exactly one \\cellx and one \\cell per cell in the same order; the single-section document is "
                "'{\\rtf1...' + prolog in fixed order + pages + a single closing brace last; title / subline / page header / page footer / footnote / source "
                "text blocks, the subline_by heading paragraph and group heading rows are balanced ASCII; a column header without text contributes no row "
                "and raises nothing; implicit exceptions inside these units are proof obligations.",
        "note": "User text is assumed balanced (the property's hypothesis). Carriers not yet under contract are listed in the evidence; glue totality (pydantic/polars) is assumed.",
    },
    "C02": {
        "text": "Composition of row-view contracts on the real code: page numbers form consecutive intervals covering all rows; within a page every "
                "row is emitted exactly once, in order; one Row per frame row with cells in column order whose text is '' for null and str(value) otherwise; "
                "the row emitter keeps cell order and puts exactly one delimiter space before the text.",
        "note": "Strategy, post-processing, column-removal and section carriers are under contract (units Paginate*, ApplyDataPostProcessing, PrepareFrame, EncodeBodySection, MultiSection); the component constructors pass every caller keyword through (units *Init); polars slicing is an assumed contract.",
    },
    "C05": {
        "text": "Loop invariant with ghost heading state on the real _render_body (1, 2 and 3 page_by levels): at every emission of data rows each "
                "active level's displayed heading equals that run's value, outer headings precede inner ones, dividers and nulls never produce a heading, "
                "all rows are still emitted, and the body never ends on a heading; at the top of a page render emits one full-width heading row per "
                "non-null group value of the page, outer to inner, before the body (1 level quick, 2 levels thorough); the subline_by heading is one "
                "paragraph naming the page's group.",
        "note": "Boundary detection and the page's group values are the strategies' contracts (A8/A9, units GetGroupHeaders / DetectGroupBoundaries).",
    },
    "C07": {
        "text": "For every page kind (first / middle / last / only page) and all flag combinations the real _apply_pagination_borders yields border "
                "matrices with: row 0 top = body.border_first (page.border_first on a first page without headers), last row bottom = body.border_last "
                "before a break unless a table-rendered footnote/source on that page takes it, page.border_last at the document end unless a "
                "table-rendered component takes it, every other edge = the user's broadcast value; the attributes are a fresh copy.",
        "note": "The component override reaches encode_footnote / encode_source through render and is applied to a copy (units RenderPage, "
                "EncodeFootnote, EncodeSource). The header-row top border is unit RenderColumnHeaders; first / last edges of multi-section documents are unit MultiSection.",
    },
    "C09": {
        "text": "Every formatting field handed to the cell/text/border/row constructors in the real _encode equals the attribute's broadcast value at "
                "(i + row_offset, j) (row attributes at column 0), broadcast lookup is value[r mod R][c mod C], the renderer passes each segment's "
                "page-relative start as row_offset, and the emitters write every such field (incl. border width and colour) into the output.",
        "note": "The binding is proved relative to the page's attribute object; its relation to the ORIGINAL row index across page breaks and the "
                "column slicing after page_by/subline_by removal are units PaginationBorders and PrepareFrame (the generic attribute is enumerated under a symbolic field name); attribute normalisation is unit ToNestedList.",
    },
    "C03": {
        "text": "Proved on the real code for any table size: the per-page reservation counts exactly the subline heading, the headers that have "
                "text, the footnote and the source; every row's data_rows is at least the line count of each displayed cell measured at that cell's "
                "own font and size against its own column width (and at least 1); a group-start row budgets one heading row per page_by level "
                "rendered there, and every row records the heading rows shown when it opens a page; the greedy assignment keeps each page's total "
                "(rows of its data rows plus the page-top headings of its first row) within nrow minus the reservation unless the page is a single row; "
                "a column header row is rendered only for a header the reservation counted; inside a page a page_by heading row is rendered only for a level at or "
                "below a level whose value changes at that group start (what the budget counts); a heading takes at least the lines its text needs on the "
                "table width.",
        "note": "Known finding: the auto-populated default column header is rendered but not reserved. The row counts of table-rendered footnote / "
                "source (one row each, reserved when they have text) are compared through the render contract's presence clauses only.",
    },
    "C04": {
        "text": "Unbounded proof on the real AST of PageBreakCalculator._assign_pages: a 14-clause loop invariant (ghost prefix sums and "
                "page intervals) is shown inductive and implies: pages are non-empty contiguous intervals in order, a break occurs iff a "
                "grouping rule forces it or the next row would overflow nrow minus the reserved rows, forced breaks always happen, and "
                "all other columns are unchanged. Every row count, height vector and flag pattern is covered at once.",
        "note": "Assumes the polars to_dicts/DataFrame round trip, SMT solver soundness and the executor's Python encoding. The "
                "group/subline flags are taken as given here (their computation in calculate_row_metadata and the reservation count "
                "are separate carriers).",
    },
    "C06": {
        "text": "Proof, for all keywords and flag values, that both placement predicates equal all | first&is_first | last&is_last, and, for "
                "all positive paper sizes and margins, that the page-break block and the document-start block emit the same eight integers "
                "round(inches*1440) in the fixed order with integral parameters (token view of the real f-strings). On the real PageRenderer.render "
                "every component (break, title, subline, subline heading, figure, column headers, page-top headings, body, footnote, source) is present "
                "exactly when its placement condition holds for the page, at most once, in that fixed order; strategies set needs_header / first / last.",
        "note": "Floats are reals, round() is a deterministic nearest-integer function. RenderPage abstracts each callee's chunks by one marker; its "
                "2-level page_by variant runs in the thorough tier. Figure documents: unit FigureOnly; multi-section documents are outside this property's quantifier.",
    },
    "C08": {
        "text": "Unbounded proof on the real Utils._col_widths (any column count, any positive widths): boundaries are exactly "
                "col_width*P[k+1]/sum, strictly increasing, first positive, last equal to col_width; inch_to_twip is within half a twip. Every data "
                "cell's width is col_widths[j] and every cell ends with \\cellx round(1440*width); group heading rows are one cell of the table width; "
                "column headers are laid out on the table width with exactly one relative width per header cell (inherited full-table widths are "
                "replaced by the displayed columns' widths); table-rendered footnote / source span the table width.",
        "note": "Real arithmetic instead of IEEE doubles. The width vectors produced by document construction (RTFDocument.__init__) and column "
                "removal (prepare_dataframe_for_body_encoding, _encode_body_section) are under contract (units DocumentInit, PrepareFrame, EncodeBodySection).",
    },
    "C10": {
        "text": "One symbolic code point stands for all 1.1M scalar values: every appended piece is ASCII, every \\u parameter lies in "
                "[-32768, 32767] with exactly one fallback character, and the RTF decode of the piece (incl. UTF-16 surrogate pairs) is the "
                "input character; the loop invariant lifts this to whole strings of any length. The cell / paragraph / plain templates, the "
                "subline_by heading and the title / footnote text blocks use the escaped text exactly once and never the raw text.",
        "note": "Decode rule and concatenation homomorphisms are the trusted mathematical base; raw \\ { } and control characters are outside "
                "the domain.",
    },
    "C11": {
        "text": "Proved on the real code: conversion off returns the text verbatim (then only character escaping), conversion on applies the "
                "literal chain then the LaTeX pass; each cell's convert flag is text_convert at that cell; the LaTeX pass scans the whole text once with the converter's own pattern and replaces a match "
                "by the lookup of the whole matched token; command lookup uses the whole token and is the identity on a miss. Exhaustive over the real tables: the ordered 8-entry literal mapping, all 682 symbols, the token "
                "pattern, the per-component defaults. Residual, bounded: the real pipeline equals an independent reference converter on commands x "
                "13 context templates (150+ commands quick, all 682 thorough).",
        "note": "Level 'other' (proof of gating/tables + bounded residual). Known finding: '>=' / '<=' leave the delimiter space of the intermediate token.",
    },
    "C12": {
        "text": "Proof that get_rtf_color_index and generate_rtf_color_table resolve against the same sorted list of used colours: a returned "
                "index r >= 1 satisfies S[r-1] == colour and the table's entry r is rtf(S[r-1]); '' and black give 0; the table is empty "
                "iff no non-default colour is used. The 657-entry tables are checked exhaustively for key-set equality, injective master "
                "index and rgb/rtf agreement.",
        "note": "filter/sorted/index are assumed stdlib contracts (functions of the input list with their defining axioms). The document colour context "
                "is set once and cleared once by UnifiedRTFEncoder.encode and by nothing else (frame scan over the package); Utils._get_color_index asks the "
                "service for exactly the emitter's colour; encode_color_table generates the table from collect_document_colors(this document); the "
                "collector reads every colour-bearing field of every component class (scan).",
    },
    "C13": {
        "text": "For frames of any height: a group cell is blanked exactly when its hierarchical key (null as a value) equals the previous row's, "
                "shown cells keep their value, other columns are untouched (1, 2 and 3 levels); restore_page_context puts the original values back "
                "on exactly the page-start rows and leaves everything else as suppressed; one-column sorting validation returns iff every run start "
                "is a value not seen before and raises ValueError otherwise; fresh run starts imply contiguity (lemma); enhance_group_by validates the order "
                "for exactly the body's keys before it suppresses, and dispatches one key to the single-column and several keys to the hierarchical suppressor; "
                "the key list reaches it in the user's order (validator contract); pages are recut on the suppressed frame and page starts are the first rows "
                "of pages 2..P.",
        "note": "Relative to the modelled polars expression semantics; validate_data_sorting is under contract for one and two levels.",
    },
    "C20": {
        "text": "Proved for all texts, sizes, dpi and both ways of naming a font: the returned width is the px/in/mm conversion of one Pillow "
                "measurement on the font file mapped to that font, a number and its name select the same file, only unsupported fonts or units "
                "raise (ValueError); conversions are positive scalings so 0-for-empty, non-negativity, monotonicity under append, scaling and "
                "monospace facts hold for the result iff they hold for Pillow's getlength. Those Pillow facts are checked by a seeded bounded audit "
                "on the real fonts (bounded, not counted as proof).",
        "note": "Level 'other': wrapper proved, font metrics assumed + bounded audit (400 quick / 8000 thorough cases).",
    },
    "C14": {
        "text": "Purity as a frame property: all store and mutator sites reachable from rtf_encode (enumerated from the real AST on every run) "
                "are shown to hit objects created in the activation, pipeline-local objects, or the context-local colour context; no caller "
                "component, module or class state is written, no DataFrame is mutated in place, no file is written; the colour context equals "
                "this document's colours at every pipeline call and is None again on every exit, including every exceptional one.",
        "note": "Rule-based ownership analysis (over-approximated call graph, syntactic freshness); library purity assumed. The constructor's "
                "col_rel_width defaults written into caller-owned components are a recorded known finding.",
    },
    "C15": {
        "text": "Non-interference by absence of shared writes: the same frame contract shows rtf_encode writes no module/class/singleton state "
                "except the ContextVar-backed colour context (thread-local) and a registry of constants; hence each thread's reads see only "
                "thread-private or never-written state, for every interleaving.",
        "note": "Sufficient condition only; relies on CPython's memory model assumptions and on the documents not sharing mutable components.",
    },
    "C16": {
        "text": "Proofs on the real figure service: the payload is the consecutive 80-character windows of data.hex() joined by newlines "
                "(any length), PNG/JPEG pixel sizes are the big-endian header words at the specified offsets with all reads in bounds and the "
                "JPEG scan terminating, the picture group carries blip keyword by format, pixel size, floor(inches*1440) goals, balanced "
                "braces; positional size lookup reuses the last value. Per-figure obligations on the real page loops (_encode_figure_only for figure "
                "documents, RTFFigureService.encode_figure beside a table): figure i carries the bytes and format read from path i and the i-th sizes, one "
                "figure per page, page breaks exactly between figures, captions on exactly the selected pages; rtf_read_figure keeps path order; "
                "_read_image_data reads the whole file in binary mode.",
        "note": "bytes.hex, slicing, struct.unpack, open/read and Path.exists are assumed contracts.",
    },
    "C17": {
        "text": "For any number of inputs and any line contents: assemble_rtf checks existence before it opens anything, writes nothing for an empty "
                "list or a missing input (FileNotFoundError), and otherwise writes once, to the output path, exactly: the first input's lines (minus a "
                "lone closing-brace last line when more inputs follow), then for each later input the line '\\page' followed by its lines from two "
                "past its last 'fcharset' line (again minus the closing line unless it is the last input), in argument order; a single input is "
                "reproduced unchanged. find_start_index is proved against its specification.",
        "note": "Lines are opaque values; that this line algebra yields one well-formed group with every input's pages and geometry depends on the "
                "layout of rtflite-written files, covered by the C01 skeleton contract and a bounded read-back of real assembled files.",
    },
    "C18": {
        "text": "For the real bodies of the four export methods, on every exit path (normal, exception at encode, at conversion before/after it "
                "produced output, malformed converter result, converter construction failure): intermediate files are written only under the two "
                "temporary directories, both are removed, the target is touched only by the final move of the converter's result (write_rtf: by "
                "one write of exactly the encoded string, after encoding completed), and nothing is moved on failure. LibreOfficeConverter._convert_single_file "
                "returns a result only after the converter process exited with status 0 and the output file exists, and raises otherwise; rtf_encode returns "
                "exactly the engine's string for this document.",
        "note": "pathlib/tempfile/shutil/subprocess.run are assumed contracts; paths are uninterpreted terms with an 'under' relation; "
                "crash points inside the library calls themselves (partial write_text, failing move) are outside the property's clause.",
    },
    "C19": {
        "text": "For each validator under contract and each input shape (None, scalar, flat list, jagged nested list of any size) the real body "
                "returns its input iff all elements are legal and otherwise raises a subclass of ValueError; any other exception class on any "
                "path (e.g. AttributeError from a missing class attribute) is a violation. Document rules: validate_column_names returns exactly for "
                "a frame or a figure but not both, matching multi-section list lengths and grouping keys that are columns of their own section's frame; "
                "validate_figure_data raises FileNotFoundError exactly when a listed file is missing.",
        "note": "Relies on pydantic invoking the validators; legal sets (border styles, fonts, justifications, colours) are read from the real "
                "tables. Validators not yet under contract are listed in the evidence.",
    },
}
NOT_APPLICABLE = {}
