"""Per-property composition: which units decide which property (DESIGN section 4)."""
from pyvc.units import Property, ContractUnit, LemmaUnit, TableUnit, ScanUnit, BoundedUnit

POLARS = "polars (assumed contracts, DESIGN 1.7): to_dicts / DataFrame(list[dict]) round trip, height"
SOLVERS = "z3 5.1 (API), /usr/bin/cvc5 1.0, /usr/bin/z3 4.8 (portfolio; soundness of the SMT solvers)"
ENGINE = "pyvc executor's encoding of the Python subset (DESIGN 1.3): ints exact, floats as reals, dict/list value model"


def C04():
    from contracts.pagination_core import AssignPages
    from contracts.replay_pagination import replay_assign_pages
    return Property(
        "C04",
        units=[ContractUnit(AssignPages())],
        level="proof",
        technique="loop invariant + postconditions on the real AST of PageBreakCalculator._assign_pages, VCs by z3/cvc5",
        trusted_base=[SOLVERS, ENGINE, POLARS],
        assumptions=["str() injective on non-null group keys of one dtype (flags computed in calculate_row_metadata)"],
        replayers={"pagination/core.py::PageBreakCalculator._assign_pages": replay_assign_pages},
        design_ref="4/C04, A1",
    )


PROPERTIES = {"C04": C04}

# ---- texts for MANIFEST.json (tools/gen_manifest.py) ------------------------------------------------------
MANIFEST_TEXT = {
    "C04": {
        "text": "Unbounded proof on the real AST of PageBreakCalculator._assign_pages: a 14-clause loop invariant (ghost prefix sums and "
                "page intervals) is shown inductive and implies: pages are non-empty contiguous intervals in order, a break occurs iff a "
                "grouping rule forces it or the next row would overflow nrow minus the reserved rows, forced breaks always happen, and "
                "all other columns are unchanged. Every row count, height vector and flag pattern is covered at once.",
        "note": "Assumes the polars to_dicts/DataFrame round trip (audited by bounded execution), SMT solver soundness and the "
                "executor's Python encoding. The group/subline flags are taken as given here (their computation in "
                "calculate_row_metadata and the reservation count are separate units).",
    },
}
NOT_APPLICABLE = {}
