"""Contracts for src/rtflite/attributes.py: BroadcastValue (DESIGN A5), TableAttributes._encode (A6)."""
import z3
from z3 import And, Or, Not, Implies, ForAll, If, IntVal

from pyvc.contract import Contract
from pyvc.interp import LoopSpec
from pyvc import types as T
from pyvc.units import LemmaUnit
from pyvc.values import MatrixObj, RowView, ListObj, RecObj, Ref, Opt, lit
from pyvc.seqs import seq_view


def _bv(c, with_dim=True, elem=T.Str):
    val = c.fresh("value", T.Matrix(elem))
    m = c.obj(val)
    fields = {"value": val}
    if with_dim:
        d0, d1 = c.fresh("d0", T.Int), c.fresh("d1", T.Int)
        c.requires("dimension_valid", And(d0 >= 0, d1 >= 1))      # BroadcastValue.validate_dimension
        fields["dimension"] = (d0, d1)
        c.v.update(d0=d0, d1=d1)
    else:
        fields["dimension"] = None
    cls = c.cls("rtflite.attributes", "BroadcastValue")
    c.bind("self", c.alloc(RecObj("BroadcastValue", fields, pyclass=cls, fresh=False, origin="CALLER")))
    c.v.update(R=m.rows, C=m.cols, cell0=m.cell, value=val)
    return val


def bcast(c, r, col):
    return c.v["cell0"](r % c.v["R"], col % c.v["C"])


class Iloc(Contract):
    """BroadcastValue.iloc: value[r mod R][c mod C] for a rectangular matrix; None for a None value (C09)."""
    target = "attributes.py::BroadcastValue.iloc"
    serves = ["C09", "C01"]
    variants = ["matrix", "none"]
    raises = {}

    def setup(self, c):
        if c.variant == "none":
            cls = c.cls("rtflite.attributes", "BroadcastValue")
            c.bind("self", c.alloc(RecObj("BroadcastValue", {"value": None, "dimension": None}, pyclass=cls, fresh=False)))
        else:
            _bv(c, with_dim=False)
        c.param("row_index", T.Int)
        c.param("column_index", T.Int)

    def ensures(self, c, out):
        if c.variant == "none":
            return {"none": z3.BoolVal(out.value is None)}
        return {"modular_lookup": out.value == bcast(c, c.v["row_index"], c.v["column_index"])}


def ceil_div_lemma(index):
    d, C, q = z3.Ints("d C q")
    return [("ceil_div_covers", [d >= 0, C >= 1], ((d + C - 1) / C) * C >= d),
            ("ceil_div_minimal", [d >= 1, C >= 1], ((d + C - 1) / C - 1) * C < d)]


class ToList(Contract):
    """BroadcastValue.to_list: fresh dim0 x dim1 matrix with out[r][c] = value[r mod R][c mod C]; rows are distinct
    fresh lists; dimension None -> the value itself (C09, C07)."""
    target = "attributes.py::BroadcastValue.to_list"
    serves = ["C09", "C07"]
    variants = ["dim", "nodim"]

    def setup(self, c):
        _bv(c, with_dim=(c.variant == "dim"))
        if c.variant == "dim":
            # lemma ceil_div (LemmaUnit attributes.ceil_div), instantiated for the two repeat counts
            R, C, d0, d1 = c.v["R"], c.v["C"], c.v["d0"], c.v["d1"]
            c.requires("lemma_ceil_div_rows", ((d0 + R - 1) / R) * R >= d0)
            c.requires("lemma_ceil_div_cols", ((d1 + C - 1) / C) * C >= d1)

    def ensures(self, c, out):
        st = out.state
        if c.variant == "nodim":
            return {"identity_without_dimension": z3.BoolVal(isinstance(out.value, Ref) and out.value == c.v["value"])}
        d0, d1 = c.v["d0"], c.v["d1"]
        n, g = seq_view(st, out.value)
        r, col = z3.Ints("r col")
        row = g(r)
        rn, rg = seq_view(st, row)
        res = st.obj(out.value)
        return {"rows": n == d0,
                "cols": ForAll([r], Implies(And(0 <= r, r < d0), rn == d1)),
                "cells": ForAll([r, col], Implies(And(0 <= r, r < d0, 0 <= col, col < d1), rg(col) == bcast(c, r, col))),
                "rows_are_fresh_lists": z3.BoolVal(bool(getattr(res, "elems_fresh", False)) and getattr(res, "fresh", False))}


def to_list_summary(I, st, args, kwargs, node):
    """Modular use of ToList's contract: value None -> None; dimension None -> self.value; else a fresh matrix."""
    self_ = st.obj(args[0])
    val, dim = self_.fields["value"], self_.fields["dimension"]
    if val is None:
        return None
    if dim is None:
        return val
    d0, d1 = dim
    sv = seq_view(st, val)
    if sv is None:
        from pyvc.state import OutOfSubset
        raise OutOfSubset("to_list summary on a non-matrix value")
    m = st.obj(val)
    if isinstance(m, MatrixObj):
        R, C, cell = m.rows, m.cols, m.cell
        elem = m.elem
    else:
        # a list of rows (e.g. rows re-selected from a matrix): rectangular by construction, C = len(row 0)
        R, g = sv
        r0 = seq_view(st, g(IntVal(0)))
        if r0 is None:
            from pyvc.state import OutOfSubset
            raise OutOfSubset("to_list summary needs a list of row lists")
        C = r0[0]
        cell = lambda r, c, g=g: seq_view(st, g(r))[1](c)
        elem = None
    return st.alloc(MatrixObj(d0, d1, (lambda r, c, R=R, C=C, cell=cell: cell(r % R, c % C)), fresh=True, elem=elem))


class UpdateCell(Contract):
    """BroadcastValue.update_cell: value becomes the broadcast matrix with exactly that cell replaced; every other
    cell equals the old broadcast value (whole-view postcondition; C07, C09)."""
    target = "attributes.py::BroadcastValue.update_cell"
    serves = ["C07", "C09"]
    summaries = {"BroadcastValue.to_list": to_list_summary}
    frame = "strict"
    modifies = [lambda I, st, ref, o, what: isinstance(o, RecObj) and o.cls == "BroadcastValue" and what == "value"]

    def setup(self, c):
        _bv(c, with_dim=True)
        ri, ci = c.param("row_index", T.Int), c.param("column_index", T.Int)
        c.param("cell_value", T.Str)
        c.requires("cell_in_page_shape", And(0 <= ri, ri < c.v["d0"], 0 <= ci, ci < c.v["d1"]))

    def ensures(self, c, out):
        st = out.state
        d0, d1, ri, ci, v = c.v["d0"], c.v["d1"], c.v["row_index"], c.v["column_index"], c.v["cell_value"]
        selfv = st.obj(c.v["self"]).fields["value"]
        n, g = seq_view(st, out.value)
        r, col = z3.Ints("r col")
        rn, rg = seq_view(st, g(r))
        orig = st.obj(c.v["value"])
        return {"returns_self_value": z3.BoolVal(out.value == selfv),
                "shape": And(n == d0, ForAll([r], Implies(And(0 <= r, r < d0), rn == d1))),
                "touched_cell": rg(col) == v if False else ForAll([r, col], Implies(And(r == ri, col == ci), rg(col) == v)),
                "all_other_cells_unchanged": ForAll([r, col], Implies(And(0 <= r, r < d0, 0 <= col, col < d1, Or(r != ri, col != ci)),
                                                                      rg(col) == bcast(c, r, col))),
                "caller_matrix_untouched": ForAll([r, col], orig.cell(r, col) == c.v["cell0"](r, col))}


class UpdateRow(Contract):
    target = "attributes.py::BroadcastValue.update_row"
    serves = ["C07"]
    summaries = {"BroadcastValue.to_list": to_list_summary}

    def setup(self, c):
        _bv(c, with_dim=True)
        ri = c.param("row_index", T.Int)
        rv = c.param("row_value", T.List(T.Str))
        c.requires("row_in_shape", And(0 <= ri, ri < c.v["d0"]))
        c.requires("row_value_has_dim1_cells", c.obj(rv).length == c.v["d1"])

    def ensures(self, c, out):
        st = out.state
        d0, d1, ri = c.v["d0"], c.v["d1"], c.v["row_index"]
        rv = st.obj(c.v["row_value"])
        n, g = seq_view(st, out.value)
        r, col = z3.Ints("r col")
        rn, rg = seq_view(st, g(r))
        return {"shape": And(n == d0, ForAll([r], Implies(And(0 <= r, r < d0), rn == d1))),
                "row_replaced": ForAll([r, col], Implies(And(r == ri, 0 <= col, col < d1), rg(col) == rv.get(col))),
                "other_rows_unchanged": ForAll([r, col], Implies(And(0 <= r, r < d0, r != ri, 0 <= col, col < d1), rg(col) == bcast(c, r, col)))}


UNITS = [Iloc(), ToList(), UpdateCell(), UpdateRow()]
LEMMAS = [LemmaUnit("ceil_div", ceil_div_lemma)]


# =====================================================================================================================
# TableAttributes._encode (A6): C02 (cell text), C08 (widths), C09 (binding to the ORIGINAL (row, column)), C01 (row shape)
from pyvc.libmodels.polars_model import PolarsModel, DfObj, DfRow, fresh_df
from pyvc.libmodels.strings import StrModel
from pyvc.values import StrSort, ValSort, val_null, val_str, to_z3, norm_str, Rope, fresh_name, BoundMethod
from pyvc.state import OutOfSubset

_AT = {}
ATTR_SORT = {
    "text_font": "int", "text_font_size": "real", "text_format": "str", "text_color": "str", "text_background_color": "str",
    "text_justification": "str", "text_indent_first": "int", "text_indent_left": "int", "text_indent_right": "int", "text_space": "int",
    "text_space_before": "int", "text_space_after": "int", "text_convert": "bool", "text_hyphenation": "bool",
    "border_left": "str", "border_right": "str", "border_top": "str", "border_bottom": "str", "border_width": "int",
    "border_color_left": "str", "border_color_right": "str", "border_color_top": "str", "border_color_bottom": "str",
    "cell_vertical_justification": "str", "cell_justification": "str", "cell_height": "real",
}
_Z = {"int": z3.IntSort(), "real": z3.RealSort(), "str": StrSort, "bool": z3.BoolSort()}


def AT(name, r, col):
    """The user's value for attribute `name` at the ORIGINAL cell position: BroadcastValue(attr).iloc(r, col) (unit Iloc)."""
    if name not in _AT:
        _AT[name] = (z3.Function("attr_" + name, z3.IntSort(), z3.IntSort(), _Z[ATTR_SORT[name]]), z3.Bool("attr_" + name + "_is_none"))
    f, none = _AT[name]
    return Opt(none, f(to_z3(r), to_z3(col)))


class AttrVal:
    """Marker value of an attribute field of the TableAttributes object under contract."""
    def __init__(self, name):
        self.name = name


def same(a, b):
    """Structural / semantic equality of two possibly-Optional scalars as a formula."""
    a, b = norm_str(a), norm_str(b)
    if a is None and b is None:
        return z3.BoolVal(True)
    if a is None or b is None:
        o = b if a is None else a
        return o.isnone if isinstance(o, Opt) else z3.BoolVal(False)
    if isinstance(a, Opt) and isinstance(b, Opt):
        return And(a.isnone == b.isnone, Implies(Not(a.isnone), to_z3(a.payload) == to_z3(b.payload)))
    if isinstance(a, Opt) or isinstance(b, Opt):
        o, x = (a, b) if isinstance(a, Opt) else (b, a)
        return And(Not(o.isnone), to_z3(o.payload) == to_z3(x))
    za, zb = to_z3(a), to_z3(b)
    if za.sort() != zb.sort():
        from pyvc import ops
        za, zb = ops.to_real(za), ops.to_real(zb)
    return za == zb


TEXT_FIELDS = {"font": "text_font", "size": "text_font_size", "format": "text_format", "color": "text_color",
               "background_color": "text_background_color", "justification": "text_justification", "indent_first": "text_indent_first",
               "indent_left": "text_indent_left", "indent_right": "text_indent_right", "space": "text_space",
               "space_before": "text_space_before", "space_after": "text_space_after", "convert": "text_convert",
               "hyphenation": "text_hyphenation"}
ROWTOK = z3.Function("rtf_data_row", z3.IntSort(), z3.IntSort(), StrSort)          # (frame uid, row index in that frame)
CELLID = z3.Function("cell_id", z3.IntSort(), z3.IntSort(), z3.IntSort())


class EncodeRows(Contract):
    """TableAttributes._encode(df, col_widths, row_offset): one Row per frame row, in order; cell (i, j) shows the display text of
    df[i, j] and carries every formatting attribute at the original position (i + row_offset, j); widths col_widths[j]."""
    target = "attributes.py::TableAttributes._encode"
    serves = ["C01", "C02", "C08", "C09"]
    models = [PolarsModel(), StrModel()]

    def setup(self, c):
        cls = c.cls("rtflite.attributes", "TableAttributes")
        fields = {name: AttrVal(name) for name in ATTR_SORT}
        fields["cell_nrow"] = AttrVal("cell_nrow")
        c.bind("self", c.alloc(RecObj("TableAttributes", fields, pyclass=cls, fresh=False, origin="CALLER")))
        df = fresh_df(c.st, "df")
        c.bind("df", df)
        d = c.obj(df)
        cw = c.param("col_widths", T.List(T.Real))
        off = c.param("row_offset", T.Int)
        c.requires("row_offset_nonneg", off >= 0)
        c.requires("one_width_per_column", c.obj(cw).length >= d.w)            # obligation at the call sites (A3, A7)
        # attributes the emitters need are set (RTFBody / RTFColumnHeader / footnote defaults: TableUnit component_defaults)
        for name in ("text_font", "text_font_size", "text_justification", "text_indent_first", "text_indent_left", "text_indent_right",
                     "text_space", "text_space_before", "text_space_after", "text_convert", "text_hyphenation", "border_left", "border_right",
                     "border_top", "border_bottom", "cell_justification", "cell_height", "border_width"):
            c.requires(f"{name}_set", Not(AT(name, 0, 0).isnone))
        c.v.update(d=d, off=off, cw=c.obj(cw))

    # ---- handlers --------------------------------------------------------------------------------------------------
    @property
    def handlers(self):
        def new_bv(I, st, cv, args, kwargs, node):
            return st.alloc(RecObj("BroadcastValue", {"value": kwargs.get("value"), "dimension": kwargs.get("dimension")}, pyclass=cv.pyclass))

        def ij(st):
            return st.env_lookup("i"), st.env_lookup("j")

        def new_text(I, st, cv, args, kwargs, node):
            i, j = I.lookup(st, "i"), I.lookup(st, "j")
            d, off = self._v["d"], self._v["off"]
            site = getattr(node, "lineno", None)
            v = d.cell(i, j)
            I.oblige(st, f"C02.cell_text_is_display_text@L{site}", same(kwargs.get("text"), z3.If(val_null(v), lit(""), val_str(v))), "post", site)
            for fld, attr in TEXT_FIELDS.items():
                I.oblige(st, f"C09.text.{fld}_follows_original_cell@L{site}", same(kwargs.get(fld), AT(attr, to_z3(i) + off, j)), "post", site)
            # TextContent typed fields (pydantic): required non-optional fields must not be None
            for fld in ("font", "size", "justification", "indent_first", "indent_left", "indent_right", "space", "space_before", "space_after",
                        "convert", "hyphenation"):
                val = kwargs.get(fld)
                if isinstance(val, Opt):
                    I.oblige(st, f"C01.TextContent.{fld}_not_none@L{site}", Not(val.isnone), "safety", site)
            return st.alloc(RecObj("TextContent", dict(kwargs, _ij=(i, j)), pyclass=cv.pyclass))

        def new_border(I, st, cv, args, kwargs, node):
            return st.alloc(RecObj("Border", {"style": kwargs.get("style"), "width": kwargs.get("width", "DEFAULT"),
                                              "color": kwargs.get("color", "DEFAULT")}, pyclass=cv.pyclass))

        def check_border(I, st, b, side, i, j, site):
            off = self._v["off"]
            if b is None:
                return
            bo = st.obj(b)
            I.oblige(st, f"C09.border.{side}_style_follows_original_cell@L{site}", same(bo.fields["style"], AT(f"border_{side}", to_z3(i) + off, j)), "post", site)
            w = bo.fields["width"]
            I.oblige(st, f"C09.border.{side}_width_emitted@L{site}",
                     z3.BoolVal(False) if isinstance(w, str) else same(w, AT("border_width", to_z3(i) + off, j)), "post", site)
            col = bo.fields["color"]
            want = AT(f"border_color_{side}", to_z3(i) + off, j)
            if isinstance(col, str):
                ok = z3.BoolVal(False)
            else:
                # '' / None mean "no colour": the Border gets None; otherwise the named colour
                nocol = Or(want.isnone, want.payload == lit(""))
                if col is None:
                    ok = nocol
                elif isinstance(col, Opt):
                    ok = And(col.isnone == nocol, Implies(Not(nocol), to_z3(col.payload) == want.payload))
                else:
                    ok = And(Not(nocol), to_z3(norm_str(col)) == want.payload)
            I.oblige(st, f"C09.border.{side}_colour_emitted@L{site}", ok, "post", site)

        def new_cell(I, st, cv, args, kwargs, node):
            i, j = I.lookup(st, "i"), I.lookup(st, "j")
            d, off, cw = self._v["d"], self._v["off"], self._v["cw"]
            site = getattr(node, "lineno", None)
            t = kwargs.get("text")
            tij = st.obj(t).fields.get("_ij") if isinstance(t, Ref) else None
            I.oblige(st, f"C02.cell_carries_its_own_text@L{site}", z3.BoolVal(tij is not None and tij[0] is i and tij[1] is j), "post", site)
            I.oblige(st, f"C08.cell_width_is_col_widths_j@L{site}", same(kwargs.get("width"), cw.get(to_z3(j))), "post", site)
            I.oblige(st, f"C09.cell.vertical_justification_follows_original_cell@L{site}",
                     same(kwargs.get("vertical_justification"), AT("cell_vertical_justification", to_z3(i) + off, j)), "post", site)
            for side in ("left", "top", "bottom"):
                b = kwargs.get(f"border_{side}")
                I.oblige(st, f"C09.border.{side}_present@L{site}", z3.BoolVal(isinstance(b, Ref)), "post", site)
                check_border(I, st, b if isinstance(b, Ref) else None, side, i, j, site)
            br = kwargs.get("border_right")
            last = to_z3(j) == d.w - 1
            I.oblige(st, f"C09.border.right_only_on_last_column@L{site}", z3.BoolVal(br is not None) == last, "post", site)
            check_border(I, st, br if isinstance(br, Ref) else None, "right", i, j, site)
            return CELLID(to_z3(i), to_z3(j))

        def new_row(I, st, cv, args, kwargs, node):
            i = I.lookup(st, "i")
            d, off = self._v["d"], self._v["off"]
            site = getattr(node, "lineno", None)
            cells = st.obj(kwargs["row_cells"])
            from pyvc.seqs import as_symlist
            n, g = as_symlist(st, cells)
            k = z3.Int("rk")
            I.oblige(st, f"C01.row_has_one_cell_per_column@L{site}", n == d.w, "post", site)
            I.oblige(st, f"C02.cells_in_column_order@L{site}", ForAll([k], Implies(And(0 <= k, k < d.w), g(k) == CELLID(to_z3(i), k))), "post", site)
            I.oblige(st, f"C09.row.justification_follows_original_row@L{site}", same(kwargs.get("justification"), AT("cell_justification", to_z3(i) + off, 0)), "post", site)
            I.oblige(st, f"C09.row.height_follows_original_row@L{site}", same(kwargs.get("height"), AT("cell_height", to_z3(i) + off, 0)), "post", site)
            return st.alloc(RecObj("Row", {"_i": i}, pyclass=cv.pyclass))
        return {"new:BroadcastValue": new_bv, "new:TextContent": new_text, "new:Border": new_border, "new:Cell": new_cell, "new:Row": new_row}

    @property
    def summaries(self):
        def iloc(I, st, args, kwargs, node):
            bv = st.obj(args[0])
            val = bv.fields["value"]
            if not isinstance(val, AttrVal):
                raise OutOfSubset("BroadcastValue.iloc on a value that is not an attribute of self")
            if val.name not in ATTR_SORT:
                raise OutOfSubset(f"attribute {val.name} has no declared sort")
            return AT(val.name, args[1], args[2])

        def row_as_rtf(I, st, args, kwargs, node):
            i = st.obj(args[0]).fields["_i"]
            return st.alloc(ListObj(items=[ROWTOK(IntVal(self._v["d"].uid), to_z3(i))]))
        return {"BroadcastValue.iloc": iloc, "Row._as_rtf": row_as_rtf}

    def setup_loops(self, c):
        self._v = c.v
        d = c.v["d"]
        uid = IntVal(d.uid)

        def inv_rows(v):
            rows = v.obj(v.rows)
            from pyvc.seqs import safe_view
            n, g = safe_view(v.state, rows, lit(""))
            k = z3.Int("k")
            return {"one_chunk_per_row": n == v.i,
                    "chunks_in_row_order": ForAll([k], Implies(And(0 <= k, k < v.i), to_z3(g(k)) == ROWTOK(uid, k)))}

        def inv_cells(v):
            cells = v.obj(v.cells)
            from pyvc.seqs import safe_view
            n, g = safe_view(v.state, cells, IntVal(-1))
            k = z3.Int("k")
            i = v.state.env["i"]
            return {"outer_index": And(0 <= to_z3(i), to_z3(i) < d.n),
                    "one_cell_per_column_so_far": n == v.i,
                    "cells_in_column_order": ForAll([k], Implies(And(0 <= k, k < v.i), g(k) == CELLID(to_z3(i), k)))}
        self.loops = {4: LoopSpec(inv=inv_rows, havoc={"rows": T.List(T.Str)}),
                      5: LoopSpec(inv=inv_cells, havoc={"cells": T.List(T.Int)})}

    def ensures(self, c, out):
        d = c.v["d"]
        from pyvc.seqs import seq_view
        n, g = seq_view(out.state, out.value)
        k = z3.Int("k")
        return {"one_row_chunk_per_frame_row": n == d.n,
                "row_chunks_in_frame_order": ForAll([k], Implies(And(0 <= k, k < d.n), to_z3(g(k)) == ROWTOK(IntVal(d.uid), k)))}


UNITS.append(EncodeRows())


# ---- attributes.py::_to_nested_list: the `before` normalisation every BroadcastValue / table attribute goes through ------------------
class ToNestedList(Contract):
    """_to_nested_list(v): None stays None; a scalar becomes [[v]]; a flat list of scalars becomes [v] (one row, the same list); a list of
    lists is returned as it is (same rows, same order: C09 - attribute (i, j) stays attribute (i, j)); a tuple becomes one row per item."""
    target = "attributes.py::_to_nested_list"
    serves = ["C09", "C19"]
    models = [StrModel()]
    variants = ["none", "scalar", "flat_list", "nested_list"]

    def setup(self, c):
        var = c.variant
        if var == "none":
            v = None
        elif var == "scalar":
            v = c.fresh("value", T.Str)
        elif var == "flat_list":
            v = c.fresh("values", T.List(T.Str, minlen=1))
        else:
            v = c.fresh("rows", T.Matrix(T.Str))
        c.bind("v", v)
        c.v.update(val=v)

    def ensures(self, c, out):
        st, r, var = out.state, out.value, c.variant
        val = c.v["val"]
        if var == "none":
            return {"none_stays_none": z3.BoolVal(r is None)}
        same = isinstance(r, Ref) and isinstance(val, Ref) and r.oid == val.oid
        if var == "nested_list":
            return {"C09.a_list_of_rows_is_returned_as_it_is": z3.BoolVal(same)}
        ok = isinstance(r, Ref) and isinstance(st.obj(r), ListObj) and st.obj(r).items is not None and len(st.obj(r).items) == 1
        if not ok:
            return {"C09.result_is_one_row": z3.BoolVal(False)}
        row = st.obj(r).items[0]
        if var == "flat_list":
            return {"C09.a_flat_list_becomes_one_row_holding_that_list": z3.BoolVal(isinstance(row, Ref) and row.oid == val.oid)}
        ro = st.obj(row) if isinstance(row, Ref) else None
        ok2 = ro is not None and isinstance(ro, ListObj) and ro.items is not None and len(ro.items) == 1
        return {"C09.a_scalar_becomes_a_one_by_one_matrix": And(z3.BoolVal(bool(ok2)), to_z3(norm_str(ro.items[0])) == to_z3(val)) if ok2 else z3.BoolVal(False)}
