"""Contracts for src/rtflite/attributes.py: BroadcastValue (DESIGN A5), TableAttributes._encode (A6)."""
import z3
from z3 import And, Or, Not, Implies, ForAll, If, IntVal

from pyvc.contract import Contract
from pyvc.interp import LoopSpec
from pyvc import types as T
from pyvc.units import LemmaUnit
from pyvc.values import MatrixObj, RowView, ListObj, RecObj, Ref, Opt, lit
from pyvc.seqs import seq_view


def _bv(c, with_dim=True, elem=T.Str):
    val = c.fresh("value", T.Matrix(elem))
    m = c.obj(val)
    fields = {"value": val}
    if with_dim:
        d0, d1 = c.fresh("d0", T.Int), c.fresh("d1", T.Int)
        c.requires("dimension_valid", And(d0 >= 0, d1 >= 1))      # BroadcastValue.validate_dimension
        fields["dimension"] = (d0, d1)
        c.v.update(d0=d0, d1=d1)
    else:
        fields["dimension"] = None
    cls = c.cls("rtflite.attributes", "BroadcastValue")
    c.bind("self", c.alloc(RecObj("BroadcastValue", fields, pyclass=cls, fresh=False, origin="CALLER")))
    c.v.update(R=m.rows, C=m.cols, cell0=m.cell, value=val)
    return val


def bcast(c, r, col):
    return c.v["cell0"](r % c.v["R"], col % c.v["C"])


class Iloc(Contract):
    """BroadcastValue.iloc: value[r mod R][c mod C] for a rectangular matrix; None for a None value (C09)."""
    target = "attributes.py::BroadcastValue.iloc"
    serves = ["C09", "C01"]
    variants = ["matrix", "none"]
    raises = {}

    def setup(self, c):
        if c.variant == "none":
            cls = c.cls("rtflite.attributes", "BroadcastValue")
            c.bind("self", c.alloc(RecObj("BroadcastValue", {"value": None, "dimension": None}, pyclass=cls, fresh=False)))
        else:
            _bv(c, with_dim=False)
        c.param("row_index", T.Int)
        c.param("column_index", T.Int)

    def ensures(self, c, out):
        if c.variant == "none":
            return {"none": z3.BoolVal(out.value is None)}
        return {"modular_lookup": out.value == bcast(c, c.v["row_index"], c.v["column_index"])}


def ceil_div_lemma(index):
    d, C, q = z3.Ints("d C q")
    return [("ceil_div_covers", [d >= 0, C >= 1], ((d + C - 1) / C) * C >= d),
            ("ceil_div_minimal", [d >= 1, C >= 1], ((d + C - 1) / C - 1) * C < d)]


class ToList(Contract):
    """BroadcastValue.to_list: fresh dim0 x dim1 matrix with out[r][c] = value[r mod R][c mod C]; rows are distinct
    fresh lists; dimension None -> the value itself (C09, C07)."""
    target = "attributes.py::BroadcastValue.to_list"
    serves = ["C09", "C07"]
    variants = ["dim", "nodim"]

    def setup(self, c):
        _bv(c, with_dim=(c.variant == "dim"))
        if c.variant == "dim":
            # lemma ceil_div (LemmaUnit attributes.ceil_div), instantiated for the two repeat counts
            R, C, d0, d1 = c.v["R"], c.v["C"], c.v["d0"], c.v["d1"]
            c.requires("lemma_ceil_div_rows", ((d0 + R - 1) / R) * R >= d0)
            c.requires("lemma_ceil_div_cols", ((d1 + C - 1) / C) * C >= d1)

    def ensures(self, c, out):
        st = out.state
        if c.variant == "nodim":
            return {"identity_without_dimension": z3.BoolVal(isinstance(out.value, Ref) and out.value == c.v["value"])}
        d0, d1 = c.v["d0"], c.v["d1"]
        n, g = seq_view(st, out.value)
        r, col = z3.Ints("r col")
        row = g(r)
        rn, rg = seq_view(st, row)
        res = st.obj(out.value)
        return {"rows": n == d0,
                "cols": ForAll([r], Implies(And(0 <= r, r < d0), rn == d1)),
                "cells": ForAll([r, col], Implies(And(0 <= r, r < d0, 0 <= col, col < d1), rg(col) == bcast(c, r, col))),
                "rows_are_fresh_lists": z3.BoolVal(bool(getattr(res, "elems_fresh", False)) and getattr(res, "fresh", False))}


def to_list_summary(I, st, args, kwargs, node):
    """Modular use of ToList's contract: value None -> None; dimension None -> self.value; else a fresh matrix."""
    self_ = st.obj(args[0])
    val, dim = self_.fields["value"], self_.fields["dimension"]
    if val is None:
        return None
    if dim is None:
        return val
    d0, d1 = dim
    sv = seq_view(st, val)
    if sv is None:
        from pyvc.state import OutOfSubset
        raise OutOfSubset("to_list summary on a non-matrix value")
    m = st.obj(val)
    if isinstance(m, MatrixObj):
        R, C, cell = m.rows, m.cols, m.cell
    else:
        from pyvc.state import OutOfSubset
        raise OutOfSubset("to_list summary needs a matrix value")
    return st.alloc(MatrixObj(d0, d1, (lambda r, c, R=R, C=C, cell=cell: cell(r % R, c % C)), fresh=True, elem=m.elem))


class UpdateCell(Contract):
    """BroadcastValue.update_cell: value becomes the broadcast matrix with exactly that cell replaced; every other
    cell equals the old broadcast value (whole-view postcondition; C07, C09)."""
    target = "attributes.py::BroadcastValue.update_cell"
    serves = ["C07", "C09"]
    summaries = {"BroadcastValue.to_list": to_list_summary}
    frame = "strict"
    modifies = [lambda I, st, ref, o, what: isinstance(o, RecObj) and o.cls == "BroadcastValue" and what == "value"]

    def setup(self, c):
        _bv(c, with_dim=True)
        ri, ci = c.param("row_index", T.Int), c.param("column_index", T.Int)
        c.param("cell_value", T.Str)
        c.requires("cell_in_page_shape", And(0 <= ri, ri < c.v["d0"], 0 <= ci, ci < c.v["d1"]))

    def ensures(self, c, out):
        st = out.state
        d0, d1, ri, ci, v = c.v["d0"], c.v["d1"], c.v["row_index"], c.v["column_index"], c.v["cell_value"]
        selfv = st.obj(c.v["self"]).fields["value"]
        n, g = seq_view(st, out.value)
        r, col = z3.Ints("r col")
        rn, rg = seq_view(st, g(r))
        orig = st.obj(c.v["value"])
        return {"returns_self_value": z3.BoolVal(out.value == selfv),
                "shape": And(n == d0, ForAll([r], Implies(And(0 <= r, r < d0), rn == d1))),
                "touched_cell": rg(col) == v if False else ForAll([r, col], Implies(And(r == ri, col == ci), rg(col) == v)),
                "all_other_cells_unchanged": ForAll([r, col], Implies(And(0 <= r, r < d0, 0 <= col, col < d1, Or(r != ri, col != ci)),
                                                                      rg(col) == bcast(c, r, col))),
                "caller_matrix_untouched": ForAll([r, col], orig.cell(r, col) == c.v["cell0"](r, col))}


class UpdateRow(Contract):
    target = "attributes.py::BroadcastValue.update_row"
    serves = ["C07"]
    summaries = {"BroadcastValue.to_list": to_list_summary}

    def setup(self, c):
        _bv(c, with_dim=True)
        ri = c.param("row_index", T.Int)
        rv = c.param("row_value", T.List(T.Str))
        c.requires("row_in_shape", And(0 <= ri, ri < c.v["d0"]))
        c.requires("row_value_has_dim1_cells", c.obj(rv).length == c.v["d1"])

    def ensures(self, c, out):
        st = out.state
        d0, d1, ri = c.v["d0"], c.v["d1"], c.v["row_index"]
        rv = st.obj(c.v["row_value"])
        n, g = seq_view(st, out.value)
        r, col = z3.Ints("r col")
        rn, rg = seq_view(st, g(r))
        return {"shape": And(n == d0, ForAll([r], Implies(And(0 <= r, r < d0), rn == d1))),
                "row_replaced": ForAll([r, col], Implies(And(r == ri, 0 <= col, col < d1), rg(col) == rv.get(col))),
                "other_rows_unchanged": ForAll([r, col], Implies(And(0 <= r, r < d0, r != ri, 0 <= col, col < d1), rg(col) == bcast(c, r, col)))}


UNITS = [Iloc(), ToList(), UpdateCell(), UpdateRow()]
LEMMAS = [LemmaUnit("ceil_div", ceil_div_lemma)]
