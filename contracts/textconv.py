"""C11: text conversion.  Deductive parts: gating in TextConversionService.convert_text_content / _convert_single_command dispatch
(contracts on the real code), ConvertSpecialChars.convert_off_is_verbatim (contracts/row.py), per-cell binding (EncodeRows).
Finite parts: the real tables (RTF_CHAR_MAPPING, 682 LaTeX symbols, per-component defaults) evaluated exhaustively.
Bounded residual (B4): the real pipeline against an independent reference converter over command x template."""
import re
import z3
from z3 import And, Or, Not, Implies, If

from pyvc.contract import Contract
from pyvc import types as T
from pyvc.units import TableUnit, BoundedUnit
from pyvc.values import RecObj, ListObj, Ref, Opt, StrSort, lit, norm_str, to_z3
from pyvc.libmodels.strings import StrModel

LATEX = z3.Function("latex_to_unicode", StrSort, StrSort)

DOCUMENTED_MAPPING = [("^", "\\super "), ("_", "\\sub "), (">=", "\\geq "), ("<=", "\\leq "), ("\n", "\\line "),
                      ("\\pagenumber", "\\chpgn "), ("\\totalpage", "\\totalpage "), ("\\pagefield", "{\\field{\\*\\fldinst NUMPAGES }} ")]
DOCUMENTED_PATTERN = r"\\[a-zA-Z]+(?:\{[^}]*\})?"


class ConvertTextContent(Contract):
    """TextConversionService.convert_text_content: disabled or None -> the input itself; a str -> _convert_single_text(text)."""
    target = "services/text_conversion_service.py::TextConversionService.convert_text_content"
    serves = ["C11", "C10"]
    models = [StrModel()]
    variants = ["str", "none"]

    @property
    def summaries(self):
        def single(I, st, args, kwargs, node):
            return LATEX(to_z3(norm_str(args[1])))
        return {"TextConversionService._convert_single_text": single}

    def setup(self, c):
        cls = c.cls("rtflite.services.text_conversion_service", "TextConversionService")
        c.bind("self", c.alloc(RecObj("TextConversionService", {}, pyclass=cls, fresh=False)))
        if c.variant == "str":
            c.param("text", T.Str)
        else:
            c.bind("text", None)
        c.param("enable_conversion", T.Bool)

    def ensures(self, c, out):
        if c.variant == "none":
            return {"none_stays_none": z3.BoolVal(out.value is None)}
        t, en = c.v["text"], c.v["enable_conversion"]
        return {"off_is_identity_on_is_latex_pass": to_z3(norm_str(out.value)) == If(en, LATEX(t), t)}


class ConvertSingleText(Contract):
    """TextConversionService._convert_single_text(text): '' stays ''; otherwise the converter's result for exactly this text (C11: the LaTeX
    pass sees the whole text, once).  Code-derived: when the converter raises, a warning is printed and the text is returned unconverted."""
    target = "services/text_conversion_service.py::TextConversionService._convert_single_text"
    serves = ["C11", "C10"]
    models = [StrModel()]
    variants = ["converter_returns", "converter_raises"]

    @property
    def summaries(self):
        def latex(I, st, args, kwargs, node):
            site = getattr(node, "lineno", None)
            I.oblige(st, f"C11.the_latex_pass_gets_the_whole_text@L{site}", to_z3(norm_str(args[1])) == to_z3(self._v["text"]), "post", site)
            st.ghost["passes"] = st.ghost.get("passes", 0) + 1
            if self._variant == "converter_raises":
                from pyvc.values import ClassVal
                from pyvc.state import SymRaise
                raise SymRaise(ClassVal("RuntimeError", RuntimeError), st, "converter failed", site)
            return LATEX(to_z3(norm_str(args[1])))
        return {"TextConverter.convert_latex_to_unicode": latex}

    handlers = {"print": lambda I, st, args, kwargs, node: None}

    def setup(self, c):
        cls = c.cls("rtflite.services.text_conversion_service", "TextConversionService")
        conv = c.alloc(RecObj("TextConverter", {}, pyclass=c.cls("rtflite.text_conversion.converter", "TextConverter"), fresh=False))
        c.bind("self", c.alloc(RecObj("TextConversionService", {"converter": conv}, pyclass=cls, fresh=False)))
        c.param("text", T.Str)
        c.ghost("passes", 0)
        self._v, self._variant = c.v, c.variant

    def ensures(self, c, out):
        t = c.v["text"]
        n = out.state.ghost.get("passes", 0)
        empty = t == lit("")
        if c.variant == "converter_raises":
            return {"a_failing_converter_leaves_the_text_unconverted": to_z3(norm_str(out.value)) == t}
        return {"C11.empty_stays_empty_otherwise_the_latex_pass_of_this_text": to_z3(norm_str(out.value)) == If(empty, t, LATEX(t)),
                "C11.at_most_one_latex_pass": z3.BoolVal(n <= 1)}


RESUB = z3.Function("every_documented_token_replaced_by_its_lookup", StrSort, StrSort)
CMDLOOK = z3.Function("convert_single_command", StrSort, StrSort)


class ConvertLatexToUnicode(Contract):
    """TextConverter.convert_latex_to_unicode(text): '' stays ''; otherwise pattern.sub(f, text) on the converter's own compiled pattern (its
    source is compared with the documented token language by table unit conversion_tables) over the whole text, with a replacement function
    that maps a match to _convert_single_command(match.group(0)) - the whole token, nothing else (C11: exactly the documented tokens, each
    looked up as a whole; everything outside a match is left as it is by re.sub)."""
    target = "text_conversion/converter.py::TextConverter.convert_latex_to_unicode"
    serves = ["C11"]
    models = [StrModel()]

    @property
    def summaries(self):
        def single(I, st, args, kwargs, node):
            return CMDLOOK(to_z3(norm_str(args[1])))
        return {"TextConverter._convert_single_command": single}

    @property
    def handlers(self):
        from pyvc.calls import call_value
        from pyvc.values import FuncVal

        def h_sub(I, st, args, kwargs, node):
            site = getattr(node, "lineno", None)
            I.ctx.assume_lib("re: pattern.sub(f, s) replaces every non-overlapping leftmost match m in s by f(m) and keeps the rest of s; m.group(0) is the matched text")
            I.oblige(st, f"C11.the_whole_text_is_scanned_once_without_a_count_limit@L{site}",
                     And(z3.BoolVal(len(args) == 2 and not kwargs and st.ghost.get("subs", 0) == 0), to_z3(norm_str(args[1])) == to_z3(self._v["text"])), "post", site)
            st.ghost["subs"] = st.ghost.get("subs", 0) + 1
            fn = args[0]
            if not isinstance(fn, FuncVal):
                I.oblige(st, f"C11.replacement_is_computed_from_the_match@L{site}", z3.BoolVal(False), "post", site)
                return RESUB(to_z3(norm_str(args[1])))
            M = z3.Const("matched_token", StrSort)
            m = st.alloc(RecObj("Match", {"_text": M}, fresh=True))
            r = call_value(I, st, fn, [m], {}, node)
            I.oblige(st, f"C11.a_match_is_replaced_by_the_lookup_of_the_whole_token@L{site}", to_z3(norm_str(r)) == CMDLOOK(M), "post", site)
            return RESUB(to_z3(norm_str(args[1])))

        def h_group(I, st, args, kwargs, node):
            site = getattr(node, "lineno", None)
            I.oblige(st, f"C11.the_whole_match_is_taken@L{site}", z3.BoolVal(len(args) == 0 or (len(args) == 1 and args[0] == 0)), "post", site)
            m = st.obj(I.lookup(st, "match"))
            return m.fields["_text"]
        return {"self._latex_pattern.sub": h_sub, "match.group": h_group}

    def setup(self, c):
        cls = c.cls("rtflite.text_conversion.converter", "TextConverter")
        pat = c.alloc(RecObj("Pattern", {}, fresh=False))
        c.bind("self", c.alloc(RecObj("TextConverter", {"_latex_pattern": pat}, pyclass=cls, fresh=False)))
        c.param("text", T.Str)
        c.ghost("subs", 0)
        self._v = c.v

    def ensures(self, c, out):
        t = c.v["text"]
        return {"C11.empty_stays_empty_otherwise_every_token_is_replaced_by_its_lookup": to_z3(norm_str(out.value)) == If(t == lit(""), t, RESUB(t))}


class ConvertSingleCommand(Contract):
    """TextConverter._convert_single_command / _handle_braced_command: the whole token is looked up; identity on a miss."""
    target = "text_conversion/converter.py::TextConverter._convert_single_command"
    serves = ["C11"]
    models = [StrModel()]

    @property
    def summaries(self):
        LOOK = z3.Function("symbol_table_get_or_self", StrSort, StrSort)
        self._LOOK = LOOK

        def get_char(I, st, args, kwargs, node):
            return LOOK(to_z3(norm_str(args[1])))
        return {"LaTeXSymbolMapper.get_unicode_char": get_char}

    def setup(self, c):
        cls = c.cls("rtflite.text_conversion.converter", "TextConverter")
        mcls = c.cls("rtflite.text_conversion.symbols", "LaTeXSymbolMapper")
        m = c.alloc(RecObj("LaTeXSymbolMapper", {}, pyclass=mcls, fresh=False))
        c.bind("self", c.alloc(RecObj("TextConverter", {"symbol_mapper": m}, pyclass=cls, fresh=False)))
        c.param("latex_command", T.Str)

    def ensures(self, c, out):
        return {"whole_token_lookup_identity_on_miss": to_z3(norm_str(out.value)) == self._LOOK(c.v["latex_command"])}


def tables(index):
    const = index.real_module("rtflite.core.constants").RTFConstants
    real = list(const.RTF_CHAR_MAPPING.items())
    yield ("rtf_char_mapping_is_the_documented_ordered_table", real == DOCUMENTED_MAPPING, {"real": real})
    conv = index.real_module("rtflite.text_conversion.converter").TextConverter()
    yield ("latex_token_pattern_is_the_documented_language", conv._latex_pattern.pattern == DOCUMENTED_PATTERN, {"pattern": conv._latex_pattern.pattern})
    sym = index.real_module("rtflite.text_conversion.symbols").LaTeXSymbolMapper()
    table = index.real_module("rtflite.dictionary.unicode_latex").latex_to_char
    bad = [k for k in table if sym.get_unicode_char(k) != table[k]]
    yield ("every_command_maps_to_its_table_character", not bad and len(table) >= 600, {"bad": bad[:5], "size": len(table)})
    yield ("unknown_command_is_identity", sym.get_unicode_char("\\notacommandxyz") == "\\notacommandxyz", {})
    meta = [k for k, v in table.items() if any(ch in v for ch in "\\{}")]
    yield ("no_mapped_character_is_an_rtf_metacharacter", not meta, {"offending": meta[:5]})
    # per-component defaults of text_convert (DefaultsFactory): header/footer keep field codes, the rest convert
    rtf = index.real_module("rtflite")
    want = {"RTFPageHeader": False, "RTFPageFooter": False, "RTFTitle": True, "RTFSubline": False, "RTFFootnote": True, "RTFSource": True}
    got = {}
    for cls, w in want.items():
        o = getattr(rtf, cls)(text="x") if cls not in ("RTFPageHeader",) else getattr(rtf, cls)()
        tc = o.text_convert
        while isinstance(tc, (list, tuple)):
            tc = tc[0]
        got[cls] = tc
    yield ("component_defaults_of_text_convert", all(got[k] == want[k] for k in want), {"got": {k: str(v) for k, v in got.items()}})
    body = rtf.RTFBody()
    tcb = body.text_convert
    while isinstance(tcb, (list, tuple)):
        tcb = tcb[0]
    yield ("body_default_converts", tcb is True, {"got": str(tcb)})


def reference_convert(text, table, strict=True):
    """Independent reference written from the property statement: '>=' / '<=' become the comparison signs, ^ _ newline and the page
    keywords become their control words, then longest-letter-run commands with an optional directly following brace group are looked up
    together; unknown commands verbatim; every other character unchanged.  strict=False reproduces the known deviation (the
    comparison sign is followed by the delimiter space of the intermediate \\geq / \\leq token)."""
    for a, b in DOCUMENTED_MAPPING:
        if strict and a in (">=", "<="):
            b = {">=": "\u2265", "<=": "\u2264"}[a]
        text = text.replace(a, b)
    out, i = [], 0
    while i < len(text):
        if text[i] == "\\" and i + 1 < len(text) and text[i + 1].isascii() and text[i + 1].isalpha():
            j = i + 1
            while j < len(text) and text[j].isascii() and text[j].isalpha():
                j += 1
            tok = text[i:j]
            if j < len(text) and text[j] == "{":
                k = text.find("}", j)
                if k != -1:
                    full = text[i:k + 1]
                    out.append(table.get(full, full))
                    i = k + 1
                    continue
            out.append(table.get(tok, tok))
            i = j
        else:
            out.append(text[i])
            i += 1
    return "".join(out)


def bounded_reference(index, tier, seed):
    """BOUNDED stand-in (B4): all supported commands x context templates through the real TextContent pipeline vs the reference converter."""
    import random
    row = index.real_module("rtflite.row")
    table = dict(index.real_module("rtflite.dictionary.unicode_latex").latex_to_char)
    rng = random.Random(seed)
    templates = ["{c}", "a {c} b", "{c}{c}", "x{c}", "{c}.", "{c} 12", "({c})", "{c}>=1", "p<={c}^2", "{c}_i", "{c}{{x}}", "line1\n{c}", "{c}abc"]
    cmds = list(table)
    if tier == "quick":
        cmds = rng.sample(cmds, 150) + [c for c in cmds if "{" in c][:30]
    fails, cases = [], 0

    def escape(s):
        out = []
        for ch in s:
            cp = ord(ch)
            if cp <= 127:
                out.append(ch)
            else:
                units = [cp] if cp <= 0xFFFF else [0xD800 + ((cp - 0x10000) >> 10), 0xDC00 + ((cp - 0x10000) & 0x3FF)]
                out.extend(f"\\uc1\\u{u - (0 if u < 32768 else 65536)}*" for u in units)
        return "".join(out)
    for cmd in cmds + ["\\notacommand", "\\alphax", "\\mathbb{Q9}"]:
        for t in templates:
            text = t.replace("{c}", cmd).replace("{{", "{").replace("}}", "}")
            cases += 1
            got_on = row.TextContent(text=text, convert=True)._convert_special_chars()
            got_off = row.TextContent(text=text, convert=False)._convert_special_chars()
            want_on = escape(reference_convert(text, table))
            want_off = escape(text)
            if got_on != want_on or got_off != want_off:
                tolerant = escape(reference_convert(text, table, strict=False))
                if got_off == want_off and got_on == tolerant and (">=" in text or "<=" in text):
                    if not any(f["name"] == "comparison_sign_followed_by_extra_space" for f in fails):
                        fails.append({"name": "comparison_sign_followed_by_extra_space", "input": {"text": text}, "observed": got_on, "expected": want_on})
                    continue
                fails.append({"name": "pipeline_differs_from_reference", "input": {"text": text}, "observed": {"on": got_on, "off": got_off},
                              "expected": {"on": want_on, "off": want_off}})
                return {"bound": f"{len(cmds)} commands x {len(templates)} templates", "cases": cases, "failures": fails}
    return {"bound": f"{len(cmds)} commands x {len(templates)} templates (exhaustive over the template set in the thorough tier)", "cases": cases, "failures": fails}


UNITS = [ConvertTextContent(), ConvertSingleText(), ConvertLatexToUnicode(), ConvertSingleCommand()]
TABLES = [TableUnit("conversion_tables", tables)]
BOUNDED = [BoundedUnit("reference_converter", bounded_reference)]
